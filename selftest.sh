#!/bin/bash
# usage: selftest.sh <property-id>
# Checker self-test (static): every seeded mutation written for this property (and
# recorded as caught by it) is applied to a scratch copy of /repo's working tree (outside /repo
# and /verif, removed at once) and the property's rules are evaluated on the
# variant source; the check must fail there. Nothing is executed from the variant.
cd "$(dirname "$0")"
. ./env.sh
id=$1
rc=0
n=0
for d in seeded/*/; do
  m="$d/meta.json"
  [ -f "$m" ] || continue
  python3 - "$m" "$id" <<'PY' || continue
import json,sys
m=json.load(open(sys.argv[1]))
sys.exit(0 if m.get("property")==sys.argv[2] and sys.argv[2] in m.get("caught_by",{}) else 1)
PY
  tmp=$(mktemp -d /tmp/mgself.XXXXXX)
  rsync -a --exclude .git /repo/ "$tmp/"
  if ! (cd "$tmp" && patch -s -p1 --no-backup-if-mismatch < "$OLDPWD/$d/patch.diff" >/dev/null 2>&1); then
    echo "selftest: $(basename $d): patch no longer applies to the current tree (skipped: the mutated site has changed)"
    rm -rf "$tmp"; continue
  fi
  out=$(bin/mgcheck "$id" quick -repo "$tmp" -quiet 2>&1); code=$?
  rm -rf "$tmp"
  n=$((n+1))
  if [ $code -eq 1 ]; then
    echo "selftest: $(basename $d): caught"
  else
    echo "selftest: $(basename $d): NOT caught (exit $code) -- the rule has lost its teeth"
    echo "VIOLATION property=$id replay=/verif/$d/patch.diff"
    rc=1
  fi
done
echo "selftest: $n seeded mutation(s) re-checked for $id"
exit $rc
