# Environment for building and running the checker (see DESIGN.md section 1).
export PATH=/opt/veriftools/go1.26.8/bin:$PATH
export GOTOOLCHAIN=local GOFLAGS=-mod=mod GOPROXY=off GOSUMDB=off GOWORK=off CGO_ENABLED=0
unset GOOS GOARCH
