#!/bin/sh
# usage: run.sh <property-id> <quick|thorough>
# Analyses /repo's current working tree (nothing is cached between runs).
cd "$(dirname "$0")"
. ./env.sh
[ -x bin/mgcheck ] || ./setup.sh || exit 2
tier=${2:-quick}
bin/mgcheck "$1" "$tier" || rc=$?
rc=${rc:-0}
if [ "$tier" = thorough ] && [ "$rc" = 0 ]; then
  ./selftest.sh "$1" || rc=$?
fi
exit $rc
