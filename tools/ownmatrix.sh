#!/bin/bash
# usage: ownmatrix.sh [seed-dir ...]   (default: all of seeded/*)
# Cheap variant of seedmatrix.sh: for each seeded mutation evaluate only the rules of the mutation's own
# property on the variant source and refresh meta.json["caught_by"][<own property>] (other entries are kept).
cd /verif; . ./env.sh
seeds=("$@"); [ ${#seeds[@]} -eq 0 ] && seeds=(seeded/*/)
one() {
  d=${1%/}
  id=$(python3 -c "import json,sys; print(json.load(open('/verif/$d/meta.json'))['property'])")
  tmp=$(mktemp -d /tmp/mgown.XXXXXX)
  rsync -a --exclude .git /repo/ "$tmp/"
  if ! (cd "$tmp" && patch -s -p1 --no-backup-if-mismatch < "/verif/$d/patch.diff" >/dev/null 2>&1); then
    echo "$(basename $d): PATCH-DOES-NOT-APPLY"; rm -rf "$tmp"; return
  fi
  ${MGBIN:-/verif/bin/mgcheck} "$id" quick -repo "$tmp" -quiet > "/verif/$d/own.txt" 2>&1
  code=$?
  rm -rf "$tmp"
  python3 - "/verif/$d" "$id" "$code" <<'PY'
import json,sys,re,os
d,pid=sys.argv[1],sys.argv[2]
txt=open(os.path.join(d,"own.txt")).read()
rules=sorted(set(m.group(1)+" "+m.group(2) for m in re.finditer(r"rule=(\S+) construct=(\S+)",txt) if not txt[max(0,m.start()-15):m.start()].strip().startswith("KNOWN")))
code=sys.argv[3]
meta=json.load(open(os.path.join(d,"meta.json")))
cb=meta.setdefault("caught_by",{})
if code=="1" and rules:
    cb[pid]=rules
    print(os.path.basename(d),"own property catches",len(rules))
else:
    cb.pop(pid,None)
    print(os.path.basename(d),"OWN PROPERTY MISSES; others:",list(cb.keys()))
json.dump(meta,open(os.path.join(d,"meta.json"),"w"),indent=1)
os.remove(os.path.join(d,"own.txt"))
PY
}
export -f one
printf '%s\n' "${seeds[@]}" | xargs -P ${P:-6} -I{} bash -c 'one {}'
