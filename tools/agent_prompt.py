import sys
pid=sys.argv[1]; n=sys.argv[2] if len(sys.argv)>2 else "3"
prop=open('/tmp/wt/prop_%s.txt'%pid).read()
print(f"""You are helping test a verification effort for the Go library "mangle" (a Datalog-extension language: parser, static analysis, stratification, bottom-up evaluation engines, fact stores). You have your own scratch git worktree of the repository at /tmp/wt/{pid} (a detached checkout; work ONLY inside it; never touch /repo or /verif; do not read anything under /verif).

Environment for every shell call (env does not persist between calls; there is no network):
  export PATH=/opt/veriftools/go1.26.8/bin:$PATH GOFLAGS=-mod=mod GOPROXY=off GOSUMDB=off GOTOOLCHAIN=local
The full test suite is `cd /tmp/wt/{pid} && go test -vet=off -count=1 ./...` (about 10 s).

Here is a semantic property of the library that is supposed to hold:

{prop}

Your task: produce {n} DIFFERENT, independent source changes ("mutations") to the library's non-test Go code (not in parse/gen), each of which BREAKS this property while (a) the repository still compiles (`go build ./...`), and (b) the complete existing test suite still passes unchanged. Each mutation should be realistic - the kind of slip or well-meant "optimisation"/"cleanup"/refactor a maintainer could plausibly make - and SUBTLE: it should need something specific to manifest (a particular multi-step sequence of operations, an unusual input or boundary value, a particular interleaving, two cooperating sites that each look fine alone, a corner such as equal start points/zero arity/empty input), not something ordinary use would expose at once. Prefer changes of different kinds and at different sites from one another (e.g. one dropped/reordered call, one changed comparison or boundary, one missing case or forgotten field, one weakened guard/lock, one wrong variable). Keep each mutation small (a few lines). Note: the current code may already contain real bugs against this property; do not rely on those - your demonstration must PASS on the unmodified worktree and FAIL with your mutation.

For each mutation k = 1..{n}, create the directory /tmp/wt/{pid}/_out/m<k>/ containing:
  - patch.diff : output of `git diff` (relative to the worktree root, library code only, not including the demo), applicable with `git apply`;
  - demo_test.go : a Go test file (state in its first comment line which package directory it must be copied into, e.g. `// place in: factstore/`), which passes on the unmodified tree and fails (or panics / times out) with the mutation applied;
  - meta.json : {{"property": "{pid}", "summary": "<one sentence: what was changed>", "needs": "<what specific input/sequence/interleaving is needed for it to manifest>", "files": ["..."], "demo_cmd": "<go test command to run the demo>"}}.

Procedure for each mutation: start from a clean worktree (`git checkout -- . && git clean -fd -e _out`), copy the demo in and verify it PASSES; apply the mutation; verify `go build ./...` works, the demo FAILS, and then remove the demo file and verify the full existing suite still PASSES with the mutation; save `git diff` as patch.diff; revert. If a candidate is caught by the existing suite, discard it and find another. Do not modify existing test files. Do not add build tags. When finished, leave the worktree clean except for _out/, and reply with a short list: for each mutation its one-line summary and the demo command. Be efficient; do not write long explanations.""")
