#!/usr/bin/env python3
"""Prompt generator for the independent sub-agents (see DESIGN.md section 6).

usage: agent_prompt.py break  <property-id> <worktree> [n]   breaking changes for one property
       agent_prompt.py benign <property-id> <worktree> [n]   behaviour-preserving refactors near a property's anchors

The prompt contains only the property's own text from properties.jsonl and the
path of the agent's scratch worktree - nothing from /verif's machinery.
"""
import json, sys

mode, pid, wt = sys.argv[1], sys.argv[2], sys.argv[3]
n = sys.argv[4] if len(sys.argv) > 4 else "4"
prop = None
for line in open('/verif/properties.jsonl'):
    p = json.loads(line)
    if p['id'] == pid:
        prop = p
a = prop['anchors']
text = f"""Title: {prop['title']}
Statement: {prop['statement']}
Quantified over: {prop['quantifier']['text']}
Why the existing tests do not settle it: {prop['why_tests_cant']}
Code the property is anchored in: files {', '.join(a.get('files', []))}
Mechanisms: {'; '.join(m['name'] + ' @ ' + m['where'] for m in a.get('mechanism', []))}
Observed through: {'; '.join(a.get('observe_at', []))}"""

common = f"""You are helping test a verification effort for the Go library "mangle" (a Datalog-extension language: ANTLR parser, static analysis, stratification, bottom-up evaluation engines, fact stores, temporal reasoning, provenance). You have your own scratch git worktree of the repository at {wt} (a detached checkout; work ONLY inside it; never touch /repo or /verif; do not read anything under /verif).

Environment for every shell call (env does not persist between calls; there is no network):
  export PATH=/opt/veriftools/go1.26.8/bin:$PATH GOFLAGS=-mod=mod GOPROXY=off GOSUMDB=off GOTOOLCHAIN=local
The full test suite is `cd {wt} && go test -vet=off -count=1 ./...` (under a minute).

Here is a semantic property of the library that is supposed to hold (line numbers in it are approximate):

{text}
"""

if mode == 'break':
    print(common + f"""
Your task: produce {n} DIFFERENT, independent source changes ("mutations") to the library's non-test Go code (not in parse/gen), each of which BREAKS this property while (a) the repository still compiles (`go build ./...`), and (b) the complete existing test suite still passes unchanged. Each mutation should be realistic - the kind of slip or well-meant "optimisation"/"cleanup"/refactor a maintainer could plausibly make - and SUBTLE: it must need something specific to manifest (a particular multi-step sequence of operations, an unusual input or boundary value, a particular interleaving, a crash or fault at a particular point, two cooperating sites that each look fine alone, a corner such as equal start points / zero arity / empty input / hash collision / nested value), not something ordinary use would expose at once. The obvious sites have been tried before: spread your mutations over DIFFERENT files, functions and mechanisms named above (and their helpers and callers), and make them of different kinds (e.g. one dropped/reordered call, one changed comparison or boundary, one missing case or forgotten field, one weakened guard/lock, one wrong variable, one stale cache, one aliasing/copy slip). Keep each mutation small (a few lines). Note: do not rely on bugs the current code may already have - your demonstration must PASS on the unmodified worktree and FAIL with your mutation.

For each mutation k = 1..{n}, create the directory {wt}/_out/m<k>/ containing:
  - patch.diff : output of `git diff` (relative to the worktree root, library code only, not including the demo), applicable with `git apply`;
  - demo_test.go : a Go test file (state in its first comment line which package directory it must be copied into, e.g. `// place in: factstore/`), which passes on the unmodified tree and fails (or panics / times out) with the mutation applied; use test function names starting with TestDemo;
  - meta.json : {{"property": "{pid}", "summary": "<one sentence: what was changed>", "needs": "<what specific input/sequence/interleaving is needed for it to manifest>", "files": ["..."], "demo_cmd": "<go test command to run the demo>"}}.

Procedure for each mutation: start from a clean worktree (`git checkout -- . && git clean -fd -e _out`), copy the demo in and verify it PASSES; apply the mutation; verify `go build ./...` works, the demo FAILS, and then remove the demo file and verify the full existing suite still PASSES with the mutation; save `git diff` as patch.diff; revert. If a candidate is caught by the existing suite, discard it and find another. Do not modify existing test files. Do not add build tags. When finished, leave the worktree clean except for _out/, and reply with a short list: for each mutation its one-line summary and the demo command. Be efficient; do not write long explanations.""")
else:
    print(common + f"""
Your task is the OPPOSITE of breaking it: produce {n} DIFFERENT, independent BEHAVIOUR-PRESERVING changes to the library's non-test Go code (not in parse/gen) in and around the functions that implement this property (the files and mechanisms named above, their helpers and callers). Each change must leave the observable behaviour of the library exactly as it is (the property still holds, every public function returns the same results and errors for every input), compile (`go build ./...`) and pass the complete existing test suite. They should be the kind of change maintainers make all the time, for example: extracting a helper function or inlining one; renaming local variables, parameters or an unexported function; replacing an if/else-if chain by a switch or the reverse; inverting a condition with early return / continue; converting an index loop to a range loop or the reverse; hoisting a repeated expression into a local variable; reordering independent statements, struct fields or switch cases; preallocating a slice or map with a capacity; replacing a hand-written loop by a standard-library helper (slices, maps, sort, strings packages) or the reverse; adding a doc comment, an unexported debug counter field, or an extra defensive check that can never fire; splitting a long function into two; changing a value receiver's name; using a named result. Make the changes of different kinds and at different functions from one another, each touching 5-60 lines, and prefer the central functions of the mechanisms listed above over peripheral code. Do NOT change behaviour, error texts, exported API or iteration order that callers can observe.

For each change k = 1..{n}, create the directory {wt}/_out/b<k>/ containing:
  - patch.diff : output of `git diff` (relative to the worktree root), applicable with `git apply`;
  - meta.json : {{"property": "{pid}", "summary": "<one sentence: what was refactored and why it preserves behaviour>", "files": ["..."]}}.

Procedure for each change: start from a clean worktree (`git checkout -- . && git clean -fd -e _out`); make the change; verify `go build ./...` and the full suite PASS; save `git diff` as patch.diff; revert. Do not modify test files. Do not add build tags. When finished, leave the worktree clean except for _out/, and reply with a short list of the one-line summaries. Be efficient; do not write long explanations.""")
