#!/bin/bash
# usage: benign.sh <agent-worktree> <property-id> [name-prefix]
# Behaviour-preserving changes: for each <worktree>/_out/bK confirm that it applies, builds and that the
# existing suite passes, keep it as benign/<id>-bK/, then evaluate EVERY property's rules on the variant
# source: any failure there is a false alarm of the checker (recorded in meta.json["alarms"]).
cd /verif; . ./env.sh
wt=$1; id=$2; pre=${3:-}
for d in "$wt"/_out/b*/; do
  [ -f "$d/patch.diff" ] || continue
  k=$(basename "$d"); dst=benign/$id-$pre$k
  tmp=$(mktemp -d /tmp/mgbn.XXXXXX)
  rsync -a --exclude .git --exclude _out /repo/ "$tmp/"
  if ! (cd "$tmp" && patch -s -p1 --no-backup-if-mismatch < "$d/patch.diff" >/dev/null 2>&1); then echo "REJECTED $id $k: patch does not apply"; rm -rf "$tmp"; continue; fi
  if ! (cd "$tmp" && go build ./... >/dev/null 2>&1 && go test -vet=off -count=1 ./... >/dev/null 2>&1); then echo "REJECTED $id $k: build or suite fails"; rm -rf "$tmp"; continue; fi
  mkdir -p "$dst"; cp "$d/patch.diff" "$d/meta.json" "$dst/"
  ${MGBIN:-bin/mgcheck} all quick -repo "$tmp" -quiet > "$dst/matrix.txt" 2>&1
  rm -rf "$tmp"
  python3 - "$dst" <<'PY'
import json,sys,re,os
d=sys.argv[1]; txt=open(os.path.join(d,"matrix.txt")).read()
al={}; cur=[]
for line in txt.splitlines():
    m=re.match(r"PROP (\S+) (\d+)",line)
    if m:
        if m.group(2)!="0": al[m.group(1)]=cur
        cur=[]
    else: cur.append(line.strip()[:300])
meta=json.load(open(os.path.join(d,"meta.json"))); meta["alarms"]=al
json.dump(meta,open(os.path.join(d,"meta.json"),"w"),indent=1)
print(os.path.basename(d), "ALARMS "+str({k:len(v) for k,v in al.items()}) if al else "silent")
PY
done
