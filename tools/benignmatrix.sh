#!/bin/bash
# usage: benignmatrix.sh [benign-dir ...]  (default all): re-evaluate every property's rules on each kept
# behaviour-preserving variant; prints the variants on which some rule raises an alarm (must be none).
cd /verif; . ./env.sh
ds=("$@"); [ ${#ds[@]} -eq 0 ] && ds=(benign/*/)
one() {
  d=${1%/}; tmp=$(mktemp -d /tmp/mgbn.XXXXXX)
  rsync -a --exclude .git /repo/ "$tmp/"
  if ! (cd "$tmp" && patch -s -p1 --no-backup-if-mismatch < "/verif/$d/patch.diff" >/dev/null 2>&1); then echo "$(basename $d): patch no longer applies"; rm -rf "$tmp"; return; fi
  out=$(${MGBIN:-/verif/bin/mgcheck} all quick -repo "$tmp" -quiet 2>&1); rm -rf "$tmp"
  bad=$(echo "$out" | grep -E '^PROP \S+ [1-9]' | awk '{print $2}' | paste -sd,)
  if [ -n "$bad" ]; then echo "$(basename $d): FALSE ALARM in $bad"; echo "$out" | grep -E 'UNRESOLVED|VIOLATED|panic' | cut -c1-400 | head -5; else echo "$(basename $d): silent"; fi
}
export -f one
printf '%s\n' "${ds[@]}" | xargs -P 6 -I{} bash -c 'one {}'
