#!/bin/bash
# usage: fixcommit.sh <message-file>   -- runs the full suite in /repo and commits only if it passes
. /verif/env.sh
cd /repo
out=$(go build ./... 2>&1 && go test -vet=off -count=1 ./... 2>&1)
if echo "$out" | grep -q "^FAIL\|^--- FAIL\|cannot\|undefined"; then echo "$out" | grep -v "^ok\|no test files" | head -30; echo "NOT COMMITTED"; exit 1; fi
git commit -q -a -F "$1" && git log --oneline | head -1
