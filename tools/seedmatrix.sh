#!/bin/bash
# usage: seedmatrix.sh [seed-dir ...]   (default: all of seeded/*)
# For each seeded mutation: apply it to a scratch copy of /repo, evaluate every
# property's rules on the variant (static), record which properties fail in meta.json["caught_by"].
cd /verif; . ./env.sh
seeds=("$@"); [ ${#seeds[@]} -eq 0 ] && seeds=(seeded/*/)
one() {
  d=${1%/}
  tmp=$(mktemp -d /tmp/mgmx.XXXXXX)
  rsync -a --exclude .git /repo/ "$tmp/"
  if ! (cd "$tmp" && patch -s -p1 --no-backup-if-mismatch < "/verif/$d/patch.diff" >/dev/null 2>&1); then
    echo "$(basename $d): PATCH-DOES-NOT-APPLY"; rm -rf "$tmp"; return
  fi
  ${MGBIN:-/verif/bin/mgcheck} all quick -repo "$tmp" -quiet > "/verif/$d/matrix.txt" 2>&1
  rm -rf "$tmp"
  python3 - "/verif/$d" <<'PY'
import json,sys,re,os
d=sys.argv[1]
txt=open(os.path.join(d,"matrix.txt")).read()
caught={}
cur=[]
for line in txt.splitlines():
    m=re.match(r"PROP (\S+) (\d+)",line)
    if m:
        if m.group(2)!="0": caught[m.group(1)]=sorted(set(cur))
        cur=[]
    else:
        r=re.search(r"rule=(\S+) construct=(\S+)",line)
        if r: cur.append(r.group(1)+" "+r.group(2))
meta=json.load(open(os.path.join(d,"meta.json")))
meta["caught_by"]=caught
json.dump(meta,open(os.path.join(d,"meta.json"),"w"),indent=1)
print(os.path.basename(d), "caught by", {k:len(v) for k,v in caught.items()} if caught else "NOTHING")
PY
}
export -f one
printf '%s\n' "${seeds[@]}" | xargs -P 6 -I{} bash -c 'one {}'
