#!/bin/bash
# usage: trymut.sh <prop|all> <file> <python-replace-old> <python-replace-new>
# Applies a one-off textual mutation to a scratch copy of /repo and evaluates the property's rules on it.
. /verif/env.sh
tmp=$(mktemp -d /tmp/mgtry.XXXXXX)
rsync -a --exclude .git /repo/ "$tmp/"
python3 - "$tmp/$2" "$3" "$4" <<'PY'
import sys
p,old,new=sys.argv[1:4]
s=open(p).read()
if s.count(old)<1: print("PATTERN NOT FOUND"); sys.exit(3)
open(p,'w').write(s.replace(old,new,1))
PY
[ $? -eq 3 ] && { rm -rf "$tmp"; exit 3; }
(cd "$tmp" && go build ./... 2>&1 | head -5)
${MGBIN:-/verif/bin/mgcheck} "$1" quick -repo "$tmp" -quiet | cut -c1-420
rm -rf "$tmp"
