#!/bin/bash
# usage: trypatch.sh <patch-file> [prop|all]   -- applies a patch file to a scratch copy of /repo and evaluates the rules on it
. /verif/env.sh
pf=$1; p=${2:-all}
tmp=$(mktemp -d /tmp/mgtry.XXXXXX)
rsync -a --exclude .git --exclude _out /repo/ "$tmp/"
(cd "$tmp" && patch -s -p1 --no-backup-if-mismatch < "$pf") || { echo "patch does not apply"; rm -rf "$tmp"; exit 3; }
${MGBIN:-/verif/bin/mgcheck} "$p" quick -repo "$tmp" -quiet | grep -v "^PROP \S* 0" | cut -c1-${W:-420}
rm -rf "$tmp"
