#!/bin/bash
# usage: tryseed.sh <seed-or-benign-dir> [prop|all]   -- applies the patch to a scratch copy and evaluates the rules on it
. /verif/env.sh
d=$1; p=${2:-all}
tmp=$(mktemp -d /tmp/mgtry.XXXXXX)
rsync -a --exclude .git /repo/ "$tmp/"
(cd "$tmp" && patch -s -p1 --no-backup-if-mismatch < "/verif/$d/patch.diff") || { echo "patch does not apply"; rm -rf "$tmp"; exit 3; }
${MGBIN:-/verif/bin/mgcheck} "$p" quick -repo "$tmp" -quiet | grep -v "^PROP \S* 0" | cut -c1-${W:-420}
rm -rf "$tmp"
