#!/bin/bash
# usage: verify_seed.sh <dir with patch.diff demo_test.go meta.json>
# Confirms in a scratch worktree of /repo HEAD: demo passes without the patch,
# fails with it, and the existing suite passes with the patch. Removes the worktree.
set -u
. /verif/env.sh
d=$(readlink -f "$1")
wt=$(mktemp -d /tmp/seedwt.XXXXXX)
git -C /repo worktree add -q --detach "$wt" HEAD || exit 2
trap 'git -C /repo worktree remove --force "$wt" >/dev/null 2>&1; rm -rf "$wt"' EXIT
place=$(head -1 "$d/demo_test.go" | sed -n 's/.*place in: *\([^ ]*\).*/\1/p')
place=${place%/}
[ -z "$place" ] && { echo "no 'place in:' line"; exit 2; }
cd "$wt"
cp "$d/demo_test.go" "$place/zz_seed_demo_test.go"
run=$(grep -o 'func Test[A-Za-z0-9_]*' "$d/demo_test.go" | sed 's/func //' | paste -sd'|')
extra=""; grep -q -- '-race' "$d/meta.json" && extra="-race"
if CGO_ENABLED=1 timeout 300 go test $extra -vet=off -count=1 -run "^($run)\$" ./$place/ >/tmp/seed_pre.log 2>&1; then pre=pass; else pre=FAIL; fi
if ! git apply "$d/patch.diff"; then echo "patch does not apply"; exit 2; fi
if go build ./... >/tmp/seed_build.log 2>&1; then build=ok; else build=FAIL; fi
if CGO_ENABLED=1 timeout 300 go test $extra -vet=off -count=1 -run "^($run)\$" ./$place/ >/tmp/seed_post.log 2>&1; then post=PASS; else post=fail; fi
rm "$place/zz_seed_demo_test.go"
if timeout 900 go test -vet=off -count=1 ./... >/tmp/seed_suite.log 2>&1; then suite=pass; else suite=FAIL; fi
echo "$(basename $d): demo-before=$pre build=$build demo-after=$post suite-with-patch=$suite"
[ "$pre" = pass ] && [ "$build" = ok ] && [ "$post" = fail ] && [ "$suite" = pass ]
