#!/usr/bin/env python3
"""Regenerates /verif/MANIFEST.json from tools/claims.json (one entry per claimed property).
Properties without a claim go to not_applicable with the reason recorded in claims.json["not_applicable"]."""
import json, os, sys
root = os.path.dirname(os.path.dirname(os.path.abspath(__file__)))
props = [json.loads(l) for l in open(os.path.join(root, "properties.jsonl"))]
claims = json.load(open(os.path.join(root, "tools", "claims.json")))
checks = []
na = []
for p in props:
    pid = p["id"]
    c = claims["claims"].get(pid)
    if c is None:
        na.append({"property_id": pid, "reason": claims["not_applicable"].get(pid, "check not built yet (see DESIGN.md section 4 for the planned structural obligations)")})
        continue
    checks.append({
        "property_id": pid,
        "quick_cmd": "./run.sh %s quick" % pid,
        "thorough_cmd": "./run.sh %s thorough" % pid,
        "evidence_file": "/verif/evidence/%s.json" % pid,
        "replay_cmd_template": "cat {path}; ./run.sh %s quick" % pid,
        "engine": "mgcheck",
        "level_claimed": {"category": "other", "text": c["text"], "design_ref": c.get("design_ref", "DESIGN.md section 4, " + pid)},
        "level_note": c["note"],
        "technique": c["technique"],
    })
m = {
    "version": 1,
    "setup_cmd": "./setup.sh",
    "hooks": {"guard": "verif", "enable": "none: no hooks or instrumentation exist; every check analyses /repo's source as it is (go/packages type-checks the working tree on each run)",
              "baseline_off_cmd": "cd /repo && go test -mod=mod -vet=off -count=1 ./...", "source_commits": [], "add_only": True},
    "engines": [{"name": "mgcheck", "path": "/verif/mgcheck", "serves_properties": [c["property_id"] for c in checks],
                 "kind_free_text": "repository-specific static analyser (go/packages + go/types + go/cfg; order-abstract evaluation of comparison-only functions read from source); no mangle code is compiled or run by any check"}],
    "checks": checks,
    "notes": "Static analysis only. Every claimed property is claimed at level 'other': the listed structural obligations, each a necessary condition of the property, hold on the current source; the behaviour as a whole is not proved. See DESIGN.md.",
    "not_applicable": na,
}
json.dump(m, open(os.path.join(root, "MANIFEST.json"), "w"), indent=1)
print("claimed:", [c["property_id"] for c in checks], "not applicable:", len(na))
