#!/bin/bash
# usage: intake.sh <agent-worktree> <property-id> <name-prefix>
# Breaking changes: for each <worktree>/_out/mK verify it independently (tools/verify_seed.sh:
# demo passes before, fails after, build ok, suite passes with the patch) and, if confirmed, keep it as
# seeded/<id>-<prefix>mK/ and evaluate every property's rules on the variant (tools/seedmatrix.sh).
cd /verif; . ./env.sh
wt=$1; id=$2; pre=$3
for d in "$wt"/_out/m*/; do
  [ -f "$d/patch.diff" ] || continue
  k=$(basename "$d")
  dst=seeded/$id-$pre$k
  if tools/verify_seed.sh "$d" > /tmp/intake.$$.log 2>&1; then
    mkdir -p "$dst"; cp "$d/patch.diff" "$d/demo_test.go" "$d/meta.json" "$dst/"
    python3 - "$dst/meta.json" "$(tail -1 /tmp/intake.$$.log)" <<'PY'
import json,sys,os
m=json.load(open(sys.argv[1])); m["verified"]=sys.argv[2]; m["round"]=int(os.environ.get("SEED_ROUND","2"))
json.dump(m,open(sys.argv[1],"w"),indent=1)
PY
    echo "KEPT $dst: $(tail -1 /tmp/intake.$$.log)"
    tools/seedmatrix.sh "$dst"
  else
    echo "REJECTED $id $k: $(tail -1 /tmp/intake.$$.log)"
  fi
done
rm -f /tmp/intake.$$.log
