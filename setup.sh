#!/bin/sh
# Builds the checker binary from files on disk only (offline).
set -e
cd "$(dirname "$0")"
. ./env.sh
cd mgcheck
go build -o ../bin/mgcheck .
