package ordabs

import (
	"fmt"
	"go/ast"
	"math"
	"strconv"
	"strings"
	"unicode/utf8"
	"go/types"
	"sort"
)

// ZeroOf returns the zero value of a type in the interpreter's representation.
func ZeroOf(t types.Type) (Value, error) { return zeroOf(t) }

// CallValue calls a closure or stub value.
func (in *Interp) CallValue(fv Value, args []Value) ([]Value, error) {
	switch fn := fv.(type) {
	case *Closure:
		return in.callDecl(fn.Info, nil, fn.Lit.Type, fn.Lit.Body, fn.Env, nil, args)
	case *Stub:
		return fn.Fn(in, args)
	}
	return nil, &Unsupported{What: "call of non-function value"}
}

// StubSortSlice installs sort.Slice (a stable insertion sort driven by the
// interpreted less closure; the relative order of ties is the input order,
// which is one of the orders the real sort.Slice may produce).
func (in *Interp) StubSortSlice() {
	in.Stubs["sort.Slice"] = func(in *Interp, _ Value, args []Value) ([]Value, error) {
		sl, ok := args[0].(*Slice)
		if !ok || sl == nil {
			return nil, nil
		}
		n := len(*sl.Elems)
		idx := make([]int, n)
		for i := range idx {
			idx[i] = i
		}
		// The less closure indexes the slice being sorted, so sort a permutation
		// first against the unchanged slice, then permute.
		var cerr error
		sort.SliceStable(idx, func(a, b int) bool {
			r, err := in.CallValue(args[1], []Value{int64(idx[a]), int64(idx[b])})
			if err != nil {
				cerr = err
				return false
			}
			bv, _ := r[0].(bool)
			return bv
		})
		if cerr != nil {
			return nil, cerr
		}
		out := make([]Value, n)
		for i, j := range idx {
			out[i] = (*sl.Elems)[j]
		}
		copy(*sl.Elems, out)
		return nil, nil
	}
}

// Tuples enumerates all assignments of n variables over [0, k).
func Tuples(n, k int, fn func([]int64) bool) {
	cur := make([]int64, n)
	var rec func(i int) bool
	rec = func(i int) bool {
		if i == n {
			return fn(cur)
		}
		for v := 0; v < k; v++ {
			cur[i] = int64(v)
			if !rec(i + 1) {
				return false
			}
		}
		return true
	}
	rec(0)
}

// EvalExpr evaluates a single expression; free variables must be bound by Leaf.
func (in *Interp) EvalExpr(info *types.Info, e ast.Expr) (Value, error) {
	f := &frame{in: in, info: info, env: newEnv(nil)}
	return f.expr(e)
}

// KeyString is the canonical map key of a value.
func KeyString(v Value) string { return keyString(v) }

// InstallTimeStubs models the parts of package time the analysed code uses on TimeVal.
func (in *Interp) InstallTimeStubs() {
	tv := func(v Value) (TimeVal, error) {
		t, ok := v.(TimeVal)
		if !ok {
			return TimeVal{}, &Unsupported{What: "time method on non-time value"}
		}
		return t, nil
	}
	in.Stubs["time.Time.Add"] = func(in *Interp, recv Value, args []Value) ([]Value, error) {
		t, err := tv(recv)
		if err != nil {
			return nil, err
		}
		d, _ := args[0].(int64)
		return []Value{TimeVal{t.NS + d}}, nil
	}
	in.Stubs["time.Time.UnixNano"] = func(in *Interp, recv Value, args []Value) ([]Value, error) {
		t, err := tv(recv)
		if err != nil {
			return nil, err
		}
		return []Value{t.NS}, nil
	}
	in.Stubs["time.Time.Unix"] = func(in *Interp, recv Value, args []Value) ([]Value, error) {
		t, err := tv(recv)
		if err != nil {
			return nil, err
		}
		sec := t.NS / 1000000000
		if t.NS%1000000000 < 0 {
			sec--
		}
		return []Value{sec}, nil
	}
	in.Stubs["time.Time.UTC"] = func(in *Interp, recv Value, args []Value) ([]Value, error) {
		return []Value{recv}, nil
	}
	in.Stubs["time.Unix"] = func(in *Interp, _ Value, args []Value) ([]Value, error) {
		s, _ := args[0].(int64)
		n, _ := args[1].(int64)
		return []Value{TimeVal{s*1000000000 + n}}, nil
	}
	in.Stubs["time.Time.IsZero"] = func(in *Interp, recv Value, args []Value) ([]Value, error) {
		t, err := tv(recv)
		return []Value{t.NS == 0}, err
	}
	cmp := func(f func(a, b int64) bool) func(*Interp, Value, []Value) ([]Value, error) {
		return func(in *Interp, recv Value, args []Value) ([]Value, error) {
			a, err := tv(recv)
			if err != nil {
				return nil, err
			}
			b, err := tv(args[0])
			if err != nil {
				return nil, err
			}
			return []Value{f(a.NS, b.NS)}, nil
		}
	}
	in.Stubs["time.Time.Before"] = cmp(func(a, b int64) bool { return a < b })
	in.Stubs["time.Time.After"] = cmp(func(a, b int64) bool { return a > b })
	in.Stubs["time.Time.Equal"] = cmp(func(a, b int64) bool { return a == b })
}

// InstallErrorStubs models errors.New / fmt.Errorf / errors.Is as opaque error values.
func (in *Interp) InstallErrorStubs() {
	in.Stubs["errors.New"] = func(in *Interp, _ Value, args []Value) ([]Value, error) {
		s, _ := args[0].(string)
		return []Value{ErrVal{Tag: s}}, nil
	}
	in.Stubs["fmt.Sprintf"] = func(in *Interp, _ Value, args []Value) ([]Value, error) {
		format, _ := args[0].(string)
		var hs []any
		for _, a := range args[1:] {
			switch x := a.(type) {
			case int64, string, bool:
				hs = append(hs, x)
			default:
				hs = append(hs, "?")
			}
		}
		return []Value{fmt.Sprintf(format, hs...)}, nil
	}
	in.Stubs["fmt.Errorf"] = func(in *Interp, _ Value, args []Value) ([]Value, error) {
		for _, a := range args[1:] {
			if e, ok := a.(ErrVal); ok {
				return []Value{ErrVal{Tag: "wrapped:" + e.Tag}}, nil
			}
		}
		return []Value{ErrVal{Tag: "fmt.Errorf"}}, nil
	}
}

// InstallBuilderStubs models strings.Builder written through fmt.Fprintf / WriteString.
func (in *Interp) InstallBuilderStubs() {
	get := func(v Value) map[string]Value {
		switch x := v.(type) {
		case *Obj:
			if x != nil {
				return x.Fields
			}
		case *Rec:
			return x.Fields
		}
		return nil
	}
	appendTo := func(w Value, s string) {
		if f := get(w); f != nil {
			old, _ := f["__s"].(string)
			f["__s"] = old + s
		}
	}
	sprintf := in.Stubs["fmt.Sprintf"]
	in.Stubs["fmt.Fprintf"] = func(in *Interp, _ Value, args []Value) ([]Value, error) {
		out, err := sprintf(in, nil, args[1:])
		if err != nil {
			return nil, err
		}
		appendTo(args[0], out[0].(string))
		return []Value{int64(0), nil}, nil
	}
	in.Stubs["fmt.Fprint"] = func(in *Interp, _ Value, args []Value) ([]Value, error) {
		for _, a := range args[1:] {
			s, ok := a.(string)
			if !ok {
				return nil, &Unsupported{What: "fmt.Fprint of a non-string"}
			}
			appendTo(args[0], s)
		}
		return []Value{int64(0), nil}, nil
	}
	in.Stubs["fmt.Fprintln"] = func(in *Interp, _ Value, args []Value) ([]Value, error) {
		for i, a := range args[1:] {
			s, ok := a.(string)
			if !ok {
				return nil, &Unsupported{What: "fmt.Fprintln of a non-string"}
			}
			if i > 0 {
				appendTo(args[0], " ")
			}
			appendTo(args[0], s)
		}
		appendTo(args[0], "\n")
		return []Value{int64(0), nil}, nil
	}
	in.Stubs["strings.Builder.WriteString"] = func(in *Interp, recv Value, args []Value) ([]Value, error) {
		s, _ := args[0].(string)
		appendTo(recv, s)
		return []Value{int64(len(s)), nil}, nil
	}
	in.Stubs["strings.Builder.String"] = func(in *Interp, recv Value, _ []Value) ([]Value, error) {
		if f := get(recv); f != nil {
			s, _ := f["__s"].(string)
			return []Value{s}, nil
		}
		return []Value{""}, nil
	}
}

// InstallStringStubs models the parts of strings / unicode/utf8 / strconv the analysed code uses, by the host's own implementation.
func (in *Interp) InstallStringStubs() {
	str := func(v Value) string { s, _ := v.(string); return s }
	in.Stubs["strings.HasPrefix"] = func(in *Interp, _ Value, a []Value) ([]Value, error) {
		return []Value{strings.HasPrefix(str(a[0]), str(a[1]))}, nil
	}
	in.Stubs["strings.HasSuffix"] = func(in *Interp, _ Value, a []Value) ([]Value, error) {
		return []Value{strings.HasSuffix(str(a[0]), str(a[1]))}, nil
	}
	in.Stubs["strings.Split"] = func(in *Interp, _ Value, a []Value) ([]Value, error) {
		var out []Value
		for _, p := range strings.Split(a[0].(string), a[1].(string)) {
			out = append(out, p)
		}
		return []Value{&Slice{Elems: &out}}, nil
	}
	in.Stubs["strings.TrimPrefix"] = func(in *Interp, _ Value, a []Value) ([]Value, error) {
		return []Value{strings.TrimPrefix(a[0].(string), a[1].(string))}, nil
	}
	in.Stubs["strings.TrimSuffix"] = func(in *Interp, _ Value, a []Value) ([]Value, error) {
		return []Value{strings.TrimSuffix(a[0].(string), a[1].(string))}, nil
	}
	in.Stubs["strings.ReplaceAll"] = func(in *Interp, _ Value, a []Value) ([]Value, error) {
		return []Value{strings.ReplaceAll(a[0].(string), a[1].(string), a[2].(string))}, nil
	}
	in.Stubs["strings.Replace"] = func(in *Interp, _ Value, a []Value) ([]Value, error) {
		return []Value{strings.Replace(a[0].(string), a[1].(string), a[2].(string), int(a[3].(int64)))}, nil
	}
	in.Stubs["strconv.Atoi"] = func(in *Interp, _ Value, a []Value) ([]Value, error) {
		n, err := strconv.Atoi(a[0].(string))
		if err != nil {
			return []Value{int64(0), ErrVal{Tag: "strconv.Atoi"}}, nil
		}
		return []Value{int64(n), nil}, nil
	}
	in.Stubs["strings.Contains"] = func(in *Interp, _ Value, a []Value) ([]Value, error) {
		return []Value{strings.Contains(str(a[0]), str(a[1]))}, nil
	}
	in.Stubs["strings.ContainsRune"] = func(in *Interp, _ Value, a []Value) ([]Value, error) {
		r, _ := a[1].(int64)
		return []Value{strings.ContainsRune(str(a[0]), rune(r))}, nil
	}
	in.Stubs["strings.Index"] = func(in *Interp, _ Value, a []Value) ([]Value, error) {
		return []Value{int64(strings.Index(str(a[0]), str(a[1])))}, nil
	}
	in.Stubs["strings.LastIndex"] = func(in *Interp, _ Value, a []Value) ([]Value, error) {
		return []Value{int64(strings.LastIndex(str(a[0]), str(a[1])))}, nil
	}
	in.Stubs["strings.NewReplacer"] = func(in *Interp, _ Value, a []Value) ([]Value, error) {
		var pairs []Value
		if len(a) == 1 {
			if sl, ok := a[0].(*Slice); ok && sl != nil {
				pairs = *sl.Elems
			}
		} else {
			pairs = a
		}
		return []Value{&Obj{Name: "replacer", Fields: map[string]Value{"pairs": &Slice{Elems: &pairs}}, T: "strings.Replacer"}}, nil
	}
	in.Stubs["strings.Replacer.Replace"] = func(in *Interp, recv Value, a []Value) ([]Value, error) {
		o, _ := recv.(*Obj)
		var oldnew []string
		if o != nil {
			if sl, _ := o.Fields["pairs"].(*Slice); sl != nil {
				for _, p := range *sl.Elems {
					oldnew = append(oldnew, str(p))
				}
			}
		}
		return []Value{strings.NewReplacer(oldnew...).Replace(str(a[0]))}, nil
	}
	in.Stubs["unicode/utf8.DecodeRuneInString"] = func(in *Interp, _ Value, a []Value) ([]Value, error) {
		r, n := utf8.DecodeRuneInString(str(a[0]))
		return []Value{int64(r), int64(n)}, nil
	}
	in.Stubs["unicode/utf8.EncodeRune"] = func(in *Interp, _ Value, a []Value) ([]Value, error) {
		sl, _ := a[0].(*Slice)
		r, _ := a[1].(int64)
		var buf [utf8.UTFMax]byte
		n := utf8.EncodeRune(buf[:], rune(r))
		if sl != nil {
			for i := 0; i < n && i < len(*sl.Elems); i++ {
				(*sl.Elems)[i] = int64(buf[i])
			}
		}
		return []Value{int64(n)}, nil
	}
	in.Stubs["strconv.FormatInt"] = func(in *Interp, _ Value, a []Value) ([]Value, error) {
		n, _ := a[0].(int64)
		b, _ := a[1].(int64)
		return []Value{strconv.FormatInt(n, int(b))}, nil
	}
	in.Stubs["strings.Builder.WriteRune"] = func(in *Interp, recv Value, a []Value) ([]Value, error) {
		r, _ := a[0].(int64)
		return in.Stubs["strings.Builder.WriteString"](in, recv, []Value{string(rune(r))})
	}
	in.Stubs["strings.Builder.WriteByte"] = func(in *Interp, recv Value, a []Value) ([]Value, error) {
		r, _ := a[0].(int64)
		_, err := in.Stubs["strings.Builder.WriteString"](in, recv, []Value{string([]byte{byte(r)})})
		return []Value{nil}, err
	}
}

// InstallFloatStubs models math and strconv functions on float64 values by the host's implementation.
func (in *Interp) InstallFloatStubs() {
	fl := func(v Value) float64 { f, _ := v.(float64); return f }
	in.Stubs["math.IsInf"] = func(in *Interp, _ Value, a []Value) ([]Value, error) {
		s, _ := a[1].(int64)
		return []Value{math.IsInf(fl(a[0]), int(s))}, nil
	}
	in.Stubs["math.IsNaN"] = func(in *Interp, _ Value, a []Value) ([]Value, error) {
		return []Value{math.IsNaN(fl(a[0]))}, nil
	}
	in.Stubs["math.Float64bits"] = func(in *Interp, _ Value, a []Value) ([]Value, error) {
		return []Value{int64(math.Float64bits(fl(a[0])))}, nil
	}
	in.Stubs["math.Float64frombits"] = func(in *Interp, _ Value, a []Value) ([]Value, error) {
		n, _ := a[0].(int64)
		return []Value{math.Float64frombits(uint64(n))}, nil
	}
	in.Stubs["math.Signbit"] = func(in *Interp, _ Value, a []Value) ([]Value, error) {
		return []Value{math.Signbit(fl(a[0]))}, nil
	}
	in.Stubs["math.Trunc"] = func(in *Interp, _ Value, a []Value) ([]Value, error) {
		return []Value{math.Trunc(fl(a[0]))}, nil
	}
	for name, fn := range map[string]func(float64) float64{"Abs": math.Abs, "Floor": math.Floor, "Ceil": math.Ceil, "Round": math.Round, "RoundToEven": math.RoundToEven, "Sqrt": math.Sqrt, "Log10": math.Log10, "Log2": math.Log2, "Log": math.Log, "Exp": math.Exp} {
		fn := fn
		in.Stubs["math."+name] = func(in *Interp, _ Value, a []Value) ([]Value, error) {
			return []Value{fn(fl(a[0]))}, nil
		}
	}
	in.Stubs["math.Copysign"] = func(in *Interp, _ Value, a []Value) ([]Value, error) {
		return []Value{math.Copysign(fl(a[0]), fl(a[1]))}, nil
	}
	in.Stubs["math.Mod"] = func(in *Interp, _ Value, a []Value) ([]Value, error) {
		return []Value{math.Mod(fl(a[0]), fl(a[1]))}, nil
	}
	in.Stubs["math.Modf"] = func(in *Interp, _ Value, a []Value) ([]Value, error) {
		i, f := math.Modf(fl(a[0]))
		return []Value{i, f}, nil
	}
	in.Stubs["strconv.FormatFloat"] = func(in *Interp, _ Value, a []Value) ([]Value, error) {
		f, _ := a[1].(int64)
		p, _ := a[2].(int64)
		b, _ := a[3].(int64)
		return []Value{strconv.FormatFloat(fl(a[0]), byte(f), int(p), int(b))}, nil
	}
}

// NewVarPtr returns a pointer value to a fresh variable holding v (e.g. a *func field).
func NewVarPtr(v Value) *VarPtr { return &VarPtr{v: &variable{v}} }
