package ordabs

import (
	"fmt"
	"go/ast"
	"go/types"
	"sort"
)

// ZeroOf returns the zero value of a type in the interpreter's representation.
func ZeroOf(t types.Type) (Value, error) { return zeroOf(t) }

// CallValue calls a closure or stub value.
func (in *Interp) CallValue(fv Value, args []Value) ([]Value, error) {
	switch fn := fv.(type) {
	case *Closure:
		return in.callDecl(fn.Info, nil, fn.Lit.Type, fn.Lit.Body, fn.Env, nil, args)
	case *Stub:
		return fn.Fn(in, args)
	}
	return nil, &Unsupported{What: "call of non-function value"}
}

// StubSortSlice installs sort.Slice (a stable insertion sort driven by the
// interpreted less closure; the relative order of ties is the input order,
// which is one of the orders the real sort.Slice may produce).
func (in *Interp) StubSortSlice() {
	in.Stubs["sort.Slice"] = func(in *Interp, _ Value, args []Value) ([]Value, error) {
		sl, ok := args[0].(*Slice)
		if !ok || sl == nil {
			return nil, nil
		}
		n := len(*sl.Elems)
		idx := make([]int, n)
		for i := range idx {
			idx[i] = i
		}
		// The less closure indexes the slice being sorted, so sort a permutation
		// first against the unchanged slice, then permute.
		var cerr error
		sort.SliceStable(idx, func(a, b int) bool {
			r, err := in.CallValue(args[1], []Value{int64(idx[a]), int64(idx[b])})
			if err != nil {
				cerr = err
				return false
			}
			bv, _ := r[0].(bool)
			return bv
		})
		if cerr != nil {
			return nil, cerr
		}
		out := make([]Value, n)
		for i, j := range idx {
			out[i] = (*sl.Elems)[j]
		}
		copy(*sl.Elems, out)
		return nil, nil
	}
}

// Tuples enumerates all assignments of n variables over [0, k).
func Tuples(n, k int, fn func([]int64) bool) {
	cur := make([]int64, n)
	var rec func(i int) bool
	rec = func(i int) bool {
		if i == n {
			return fn(cur)
		}
		for v := 0; v < k; v++ {
			cur[i] = int64(v)
			if !rec(i + 1) {
				return false
			}
		}
		return true
	}
	rec(0)
}

// EvalExpr evaluates a single expression; free variables must be bound by Leaf.
func (in *Interp) EvalExpr(info *types.Info, e ast.Expr) (Value, error) {
	f := &frame{in: in, info: info, env: newEnv(nil)}
	return f.expr(e)
}

// KeyString is the canonical map key of a value.
func KeyString(v Value) string { return keyString(v) }

// InstallTimeStubs models the parts of package time the analysed code uses on TimeVal.
func (in *Interp) InstallTimeStubs() {
	tv := func(v Value) (TimeVal, error) {
		t, ok := v.(TimeVal)
		if !ok {
			return TimeVal{}, &Unsupported{What: "time method on non-time value"}
		}
		return t, nil
	}
	in.Stubs["time.Time.Add"] = func(in *Interp, recv Value, args []Value) ([]Value, error) {
		t, err := tv(recv)
		if err != nil {
			return nil, err
		}
		d, _ := args[0].(int64)
		return []Value{TimeVal{t.NS + d}}, nil
	}
	in.Stubs["time.Time.UnixNano"] = func(in *Interp, recv Value, args []Value) ([]Value, error) {
		t, err := tv(recv)
		if err != nil {
			return nil, err
		}
		return []Value{t.NS}, nil
	}
	in.Stubs["time.Time.UTC"] = func(in *Interp, recv Value, args []Value) ([]Value, error) {
		return []Value{recv}, nil
	}
	in.Stubs["time.Unix"] = func(in *Interp, _ Value, args []Value) ([]Value, error) {
		s, _ := args[0].(int64)
		n, _ := args[1].(int64)
		return []Value{TimeVal{s*1000000000 + n}}, nil
	}
	in.Stubs["time.Time.IsZero"] = func(in *Interp, recv Value, args []Value) ([]Value, error) {
		t, err := tv(recv)
		return []Value{t.NS == 0}, err
	}
	cmp := func(f func(a, b int64) bool) func(*Interp, Value, []Value) ([]Value, error) {
		return func(in *Interp, recv Value, args []Value) ([]Value, error) {
			a, err := tv(recv)
			if err != nil {
				return nil, err
			}
			b, err := tv(args[0])
			if err != nil {
				return nil, err
			}
			return []Value{f(a.NS, b.NS)}, nil
		}
	}
	in.Stubs["time.Time.Before"] = cmp(func(a, b int64) bool { return a < b })
	in.Stubs["time.Time.After"] = cmp(func(a, b int64) bool { return a > b })
	in.Stubs["time.Time.Equal"] = cmp(func(a, b int64) bool { return a == b })
}

// InstallErrorStubs models errors.New / fmt.Errorf / errors.Is as opaque error values.
func (in *Interp) InstallErrorStubs() {
	in.Stubs["errors.New"] = func(in *Interp, _ Value, args []Value) ([]Value, error) {
		s, _ := args[0].(string)
		return []Value{ErrVal{Tag: s}}, nil
	}
	in.Stubs["fmt.Sprintf"] = func(in *Interp, _ Value, args []Value) ([]Value, error) {
		format, _ := args[0].(string)
		var hs []any
		for _, a := range args[1:] {
			switch x := a.(type) {
			case int64, string, bool:
				hs = append(hs, x)
			default:
				hs = append(hs, "?")
			}
		}
		return []Value{fmt.Sprintf(format, hs...)}, nil
	}
	in.Stubs["fmt.Errorf"] = func(in *Interp, _ Value, args []Value) ([]Value, error) {
		for _, a := range args[1:] {
			if e, ok := a.(ErrVal); ok {
				return []Value{ErrVal{Tag: "wrapped:" + e.Tag}}, nil
			}
		}
		return []Value{ErrVal{Tag: "fmt.Errorf"}}, nil
	}
}

// InstallBuilderStubs models strings.Builder written through fmt.Fprintf / WriteString.
func (in *Interp) InstallBuilderStubs() {
	get := func(v Value) map[string]Value {
		switch x := v.(type) {
		case *Obj:
			if x != nil {
				return x.Fields
			}
		case *Rec:
			return x.Fields
		}
		return nil
	}
	appendTo := func(w Value, s string) {
		if f := get(w); f != nil {
			old, _ := f["__s"].(string)
			f["__s"] = old + s
		}
	}
	sprintf := in.Stubs["fmt.Sprintf"]
	in.Stubs["fmt.Fprintf"] = func(in *Interp, _ Value, args []Value) ([]Value, error) {
		out, err := sprintf(in, nil, args[1:])
		if err != nil {
			return nil, err
		}
		appendTo(args[0], out[0].(string))
		return []Value{int64(0), nil}, nil
	}
	in.Stubs["strings.Builder.WriteString"] = func(in *Interp, recv Value, args []Value) ([]Value, error) {
		s, _ := args[0].(string)
		appendTo(recv, s)
		return []Value{int64(len(s)), nil}, nil
	}
	in.Stubs["strings.Builder.String"] = func(in *Interp, recv Value, _ []Value) ([]Value, error) {
		if f := get(recv); f != nil {
			s, _ := f["__s"].(string)
			return []Value{s}, nil
		}
		return []Value{""}, nil
	}
}
