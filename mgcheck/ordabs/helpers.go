package ordabs

import (
	"go/ast"
	"go/types"
	"sort"
)

// ZeroOf returns the zero value of a type in the interpreter's representation.
func ZeroOf(t types.Type) (Value, error) { return zeroOf(t) }

// CallValue calls a closure or stub value.
func (in *Interp) CallValue(fv Value, args []Value) ([]Value, error) {
	switch fn := fv.(type) {
	case *Closure:
		return in.callDecl(fn.Info, nil, fn.Lit.Type, fn.Lit.Body, fn.Env, nil, args)
	case *Stub:
		return fn.Fn(in, args)
	}
	return nil, &Unsupported{What: "call of non-function value"}
}

// StubSortSlice installs sort.Slice (a stable insertion sort driven by the
// interpreted less closure; the relative order of ties is the input order,
// which is one of the orders the real sort.Slice may produce).
func (in *Interp) StubSortSlice() {
	in.Stubs["sort.Slice"] = func(in *Interp, _ Value, args []Value) ([]Value, error) {
		sl, ok := args[0].(*Slice)
		if !ok || sl == nil {
			return nil, nil
		}
		n := len(*sl.Elems)
		idx := make([]int, n)
		for i := range idx {
			idx[i] = i
		}
		// The less closure indexes the slice being sorted, so sort a permutation
		// first against the unchanged slice, then permute.
		var cerr error
		sort.SliceStable(idx, func(a, b int) bool {
			r, err := in.CallValue(args[1], []Value{int64(idx[a]), int64(idx[b])})
			if err != nil {
				cerr = err
				return false
			}
			bv, _ := r[0].(bool)
			return bv
		})
		if cerr != nil {
			return nil, cerr
		}
		out := make([]Value, n)
		for i, j := range idx {
			out[i] = (*sl.Elems)[j]
		}
		copy(*sl.Elems, out)
		return nil, nil
	}
}

// Tuples enumerates all assignments of n variables over [0, k).
func Tuples(n, k int, fn func([]int64) bool) {
	cur := make([]int64, n)
	var rec func(i int) bool
	rec = func(i int) bool {
		if i == n {
			return fn(cur)
		}
		for v := 0; v < k; v++ {
			cur[i] = int64(v)
			if !rec(i + 1) {
				return false
			}
		}
		return true
	}
	rec(0)
}

// EvalExpr evaluates a single expression; free variables must be bound by Leaf.
func (in *Interp) EvalExpr(info *types.Info, e ast.Expr) (Value, error) {
	f := &frame{in: in, info: info, env: newEnv(nil)}
	return f.expr(e)
}

// KeyString is the canonical map key of a value.
func KeyString(v Value) string { return keyString(v) }
