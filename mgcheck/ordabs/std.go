package ordabs

import (
	"sort"
	"strconv"
	"strings"
)

// Seq models an iterator value (iter.Seq / iter.Seq2) as the materialised
// sequence it would yield. Range statements accept it.
type Seq struct {
	Keys  []Value // for Seq2: the first component; nil for Seq
	Elems []Value
}

// InstallStd installs host implementations of the standard-library helpers a
// maintainer is likely to reach for when rewriting a hand-written loop
// (slices, maps, sort, strings, strconv, cmp). New installs them by default,
// so that replacing a loop by its library equivalent does not push a function
// out of the evaluator's fragment. Rules may override any of them.
func (in *Interp) InstallStd() {
	in.InstallErrorStubs()
	in.InstallStringStubs()
	in.InstallBuilderStubs()
	in.InstallFloatStubs()
	in.StubSortSlice()
	in.Stubs["sort.SliceStable"] = in.Stubs["sort.Slice"]

	sl := func(v Value) []Value {
		if s, ok := v.(*Slice); ok && s != nil {
			return *s.Elems
		}
		return nil
	}
	mk := func(xs []Value) *Slice { c := append([]Value{}, xs...); return &Slice{Elems: &c} }
	str := func(v Value) string { s, _ := v.(string); return s }
	truth := func(in *Interp, fn Value, args ...Value) (bool, error) {
		out, err := in.CallValue(fn, args)
		if err != nil {
			return false, err
		}
		b, _ := out[0].(bool)
		return b, nil
	}
	natLess := func(a, b Value) (bool, error) {
		switch x := a.(type) {
		case int64:
			y, ok := b.(int64)
			if ok {
				return x < y, nil
			}
		case string:
			y, ok := b.(string)
			if ok {
				return x < y, nil
			}
		case float64:
			y, ok := b.(float64)
			if ok {
				return x < y, nil
			}
		}
		return false, &Unsupported{What: "natural order of non-basic values"}
	}
	// stable sort of xs in place by less (errors are propagated)
	sortBy := func(xs []Value, less func(a, b Value) (bool, error)) error {
		var cerr error
		sort.SliceStable(xs, func(i, j int) bool {
			l, err := less(xs[i], xs[j])
			if err != nil {
				cerr = err
			}
			return l
		})
		return cerr
	}
	cmpLess := func(in *Interp, fn Value) func(a, b Value) (bool, error) {
		return func(a, b Value) (bool, error) {
			out, err := in.CallValue(fn, []Value{copyVal(a), copyVal(b)})
			if err != nil {
				return false, err
			}
			n, _ := out[0].(int64)
			return n < 0, nil
		}
	}

	in.Stubs["slices.Contains"] = func(in *Interp, _ Value, a []Value) ([]Value, error) {
		for _, x := range sl(a[0]) {
			if valuesEqual(x, a[1]) {
				return []Value{true}, nil
			}
		}
		return []Value{false}, nil
	}
	in.Stubs["slices.Index"] = func(in *Interp, _ Value, a []Value) ([]Value, error) {
		for i, x := range sl(a[0]) {
			if valuesEqual(x, a[1]) {
				return []Value{int64(i)}, nil
			}
		}
		return []Value{int64(-1)}, nil
	}
	in.Stubs["slices.IndexFunc"] = func(in *Interp, _ Value, a []Value) ([]Value, error) {
		for i, x := range sl(a[0]) {
			ok, err := truth(in, a[1], copyVal(x))
			if err != nil {
				return nil, err
			}
			if ok {
				return []Value{int64(i)}, nil
			}
		}
		return []Value{int64(-1)}, nil
	}
	in.Stubs["slices.ContainsFunc"] = func(in *Interp, _ Value, a []Value) ([]Value, error) {
		out, err := in.Stubs["slices.IndexFunc"](in, nil, a)
		if err != nil {
			return nil, err
		}
		return []Value{out[0].(int64) >= 0}, nil
	}
	in.Stubs["slices.Delete"] = func(in *Interp, _ Value, a []Value) ([]Value, error) {
		xs := sl(a[0])
		i, _ := a[1].(int64)
		j, _ := a[2].(int64)
		if i < 0 || j > int64(len(xs)) || i > j {
			return nil, &Panic{What: "slices.Delete: index out of range"}
		}
		// the real function shifts the tail down in the shared backing array
		s0, _ := a[0].(*Slice)
		out := append(append([]Value{}, xs[:i]...), xs[j:]...)
		if s0 != nil {
			copy(*s0.Elems, out)
		}
		return []Value{mk(out)}, nil
	}
	in.Stubs["slices.Insert"] = func(in *Interp, _ Value, a []Value) ([]Value, error) {
		xs := sl(a[0])
		i, _ := a[1].(int64)
		if i < 0 || i > int64(len(xs)) {
			return nil, &Panic{What: "slices.Insert: index out of range"}
		}
		var vs []Value
		if len(a) == 3 {
			if v, ok := a[2].(*Slice); ok {
				vs = sl(v)
			} else {
				vs = a[2:]
			}
		} else {
			vs = a[2:]
		}
		out := append(append(append([]Value{}, xs[:i]...), vs...), xs[i:]...)
		return []Value{mk(out)}, nil
	}
	in.Stubs["slices.Reverse"] = func(in *Interp, _ Value, a []Value) ([]Value, error) {
		xs := sl(a[0])
		for i, j := 0, len(xs)-1; i < j; i, j = i+1, j-1 {
			xs[i], xs[j] = xs[j], xs[i]
		}
		return nil, nil
	}
	in.Stubs["slices.Clone"] = func(in *Interp, _ Value, a []Value) ([]Value, error) {
		if s, ok := a[0].(*Slice); !ok || s == nil {
			return []Value{(*Slice)(nil)}, nil
		}
		out := make([]Value, 0, len(sl(a[0])))
		for _, x := range sl(a[0]) {
			out = append(out, copyVal(x))
		}
		return []Value{&Slice{Elems: &out}}, nil
	}
	in.Stubs["slices.Grow"] = func(in *Interp, _ Value, a []Value) ([]Value, error) { return []Value{a[0]}, nil }
	in.Stubs["slices.Clip"] = in.Stubs["slices.Grow"]
	in.Stubs["slices.Equal"] = func(in *Interp, _ Value, a []Value) ([]Value, error) {
		x, y := sl(a[0]), sl(a[1])
		if len(x) != len(y) {
			return []Value{false}, nil
		}
		for i := range x {
			if !valuesEqual(x[i], y[i]) {
				return []Value{false}, nil
			}
		}
		return []Value{true}, nil
	}
	in.Stubs["slices.EqualFunc"] = func(in *Interp, _ Value, a []Value) ([]Value, error) {
		x, y := sl(a[0]), sl(a[1])
		if len(x) != len(y) {
			return []Value{false}, nil
		}
		for i := range x {
			ok, err := truth(in, a[2], copyVal(x[i]), copyVal(y[i]))
			if err != nil {
				return nil, err
			}
			if !ok {
				return []Value{false}, nil
			}
		}
		return []Value{true}, nil
	}
	in.Stubs["slices.Sort"] = func(in *Interp, _ Value, a []Value) ([]Value, error) {
		return nil, sortBy(sl(a[0]), natLess)
	}
	in.Stubs["slices.SortFunc"] = func(in *Interp, _ Value, a []Value) ([]Value, error) {
		return nil, sortBy(sl(a[0]), cmpLess(in, a[1]))
	}
	in.Stubs["slices.SortStableFunc"] = in.Stubs["slices.SortFunc"]
	in.Stubs["slices.Compact"] = func(in *Interp, _ Value, a []Value) ([]Value, error) {
		var out []Value
		for i, x := range sl(a[0]) {
			if i == 0 || !valuesEqual(x, out[len(out)-1]) {
				out = append(out, x)
			}
		}
		return []Value{mk(out)}, nil
	}
	in.Stubs["slices.Concat"] = func(in *Interp, _ Value, a []Value) ([]Value, error) {
		var out []Value
		parts := a
		if len(a) == 1 {
			if s, ok := a[0].(*Slice); ok && s != nil && len(*s.Elems) > 0 {
				if _, nested := (*s.Elems)[0].(*Slice); nested {
					parts = *s.Elems
				}
			}
		}
		for _, p := range parts {
			out = append(out, sl(p)...)
		}
		return []Value{mk(out)}, nil
	}
	extreme := func(max bool) func(*Interp, Value, []Value) ([]Value, error) {
		return func(in *Interp, _ Value, a []Value) ([]Value, error) {
			xs := sl(a[0])
			if len(xs) == 0 {
				return nil, &Panic{What: "slices.Max/Min: empty list"}
			}
			best := xs[0]
			for _, x := range xs[1:] {
				l, err := natLess(best, x)
				if err != nil {
					return nil, err
				}
				g, _ := natLess(x, best)
				if (max && l) || (!max && g) {
					best = x
				}
			}
			return []Value{best}, nil
		}
	}
	in.Stubs["slices.Max"] = extreme(true)
	in.Stubs["slices.Min"] = extreme(false)
	seqOf := func(v Value) (*Seq, error) {
		switch x := v.(type) {
		case *Seq:
			return x, nil
		case *Slice:
			return &Seq{Elems: sl(x)}, nil
		}
		return nil, &Unsupported{What: "iterator value of unknown form"}
	}
	in.Stubs["slices.Collect"] = func(in *Interp, _ Value, a []Value) ([]Value, error) {
		s, err := seqOf(a[0])
		if err != nil {
			return nil, err
		}
		if len(s.Elems) == 0 {
			return []Value{(*Slice)(nil)}, nil
		}
		return []Value{mk(s.Elems)}, nil
	}
	in.Stubs["slices.Sorted"] = func(in *Interp, _ Value, a []Value) ([]Value, error) {
		s, err := seqOf(a[0])
		if err != nil {
			return nil, err
		}
		out := append([]Value{}, s.Elems...)
		if err := sortBy(out, natLess); err != nil {
			return nil, err
		}
		return []Value{mk(out)}, nil
	}
	in.Stubs["slices.SortedFunc"] = func(in *Interp, _ Value, a []Value) ([]Value, error) {
		s, err := seqOf(a[0])
		if err != nil {
			return nil, err
		}
		out := append([]Value{}, s.Elems...)
		if err := sortBy(out, cmpLess(in, a[1])); err != nil {
			return nil, err
		}
		return []Value{mk(out)}, nil
	}
	in.Stubs["slices.Values"] = func(in *Interp, _ Value, a []Value) ([]Value, error) {
		return []Value{&Seq{Elems: append([]Value{}, sl(a[0])...)}}, nil
	}
	mapSeq := func(in *Interp, v Value) ([]Value, []Value) {
		m, _ := v.(*Map)
		if m == nil {
			return nil, nil
		}
		var ks []string
		for k := range m.M {
			ks = append(ks, k)
		}
		sortStrings(ks)
		if in.ReverseMaps {
			for i, j := 0, len(ks)-1; i < j; i, j = i+1, j-1 {
				ks[i], ks[j] = ks[j], ks[i]
			}
		}
		var keys, vals []Value
		for _, k := range ks {
			keys = append(keys, m.Keys[k])
			vals = append(vals, m.M[k])
		}
		return keys, vals
	}
	in.Stubs["maps.Keys"] = func(in *Interp, _ Value, a []Value) ([]Value, error) {
		k, _ := mapSeq(in, a[0])
		return []Value{&Seq{Elems: k}}, nil
	}
	in.Stubs["maps.Values"] = func(in *Interp, _ Value, a []Value) ([]Value, error) {
		_, v := mapSeq(in, a[0])
		return []Value{&Seq{Elems: v}}, nil
	}
	in.Stubs["maps.All"] = func(in *Interp, _ Value, a []Value) ([]Value, error) {
		k, v := mapSeq(in, a[0])
		return []Value{&Seq{Keys: k, Elems: v}}, nil
	}
	in.Stubs["maps.Clone"] = func(in *Interp, _ Value, a []Value) ([]Value, error) {
		m, _ := a[0].(*Map)
		if m == nil {
			return []Value{(*Map)(nil)}, nil
		}
		out := NewMap()
		for k, v := range m.M {
			out.M[k], out.Keys[k] = copyVal(v), m.Keys[k]
		}
		return []Value{out}, nil
	}
	in.Stubs["maps.Copy"] = func(in *Interp, _ Value, a []Value) ([]Value, error) {
		dst, _ := a[0].(*Map)
		src, _ := a[1].(*Map)
		if src == nil {
			return nil, nil
		}
		if dst == nil {
			return nil, &Panic{What: "maps.Copy into a nil map"}
		}
		for k, v := range src.M {
			dst.M[k], dst.Keys[k] = copyVal(v), src.Keys[k]
		}
		return nil, nil
	}
	// sort.Sort / sort.Stable on a value of the module that implements sort.Interface: a stable insertion sort
	// that drives the value's own Len, Less and Swap, read from source
	sortIface := func(in *Interp, _ Value, a []Value) ([]Value, error) {
		recv := a[0]
		tag := ""
		switch x := recv.(type) {
		case *Rec:
			if x != nil {
				tag = x.T
			}
		case *Obj:
			if x != nil {
				tag = x.T
			}
		}
		i := strings.LastIndex(tag, ".")
		if i <= 0 {
			return nil, &Unsupported{What: "sort of a value without a known dynamic type"}
		}
		fLen, fLess, fSwap := in.Prog.Func(tag[:i], tag[i+1:]+".Len"), in.Prog.Func(tag[:i], tag[i+1:]+".Less"), in.Prog.Func(tag[:i], tag[i+1:]+".Swap")
		if fLen == nil || fLess == nil || fSwap == nil {
			return nil, &Unsupported{What: "sort.Interface methods of " + tag + " not found"}
		}
		out, err := in.Call(fLen, recv, nil)
		if err != nil {
			return nil, err
		}
		n, _ := out[0].(int64)
		for i := int64(1); i < n; i++ {
			for j := i; j > 0; j-- {
				lo, err := in.Call(fLess, recv, []Value{j, j - 1})
				if err != nil {
					return nil, err
				}
				if b, _ := lo[0].(bool); !b {
					break
				}
				if _, err := in.Call(fSwap, recv, []Value{j, j - 1}); err != nil {
					return nil, err
				}
			}
		}
		return nil, nil
	}
	in.Stubs["sort.Stable"] = sortIface
	in.Stubs["sort.Sort"] = sortIface
	// iter.Pull: the sequence is materialised, next hands the values out one by one
	in.Stubs["iter.Pull"] = func(in *Interp, _ Value, a []Value) ([]Value, error) {
		var vals []Value
		switch x := a[0].(type) {
		case *Seq:
			vals = append(vals, x.Elems...)
		default:
			collect := &Stub{Name: "yield", Fn: func(in *Interp, args []Value) ([]Value, error) {
				if len(args) > 0 {
					vals = append(vals, copyVal(args[0]))
				}
				return []Value{true}, nil
			}}
			if _, err := in.CallValue(a[0], []Value{collect}); err != nil {
				return nil, err
			}
		}
		i := 0
		next := &Stub{Name: "next", Fn: func(in *Interp, _ []Value) ([]Value, error) {
			if i < len(vals) {
				i++
				return []Value{vals[i-1], true}, nil
			}
			return []Value{nil, false}, nil
		}}
		stop := &Stub{Name: "stop", Fn: func(in *Interp, _ []Value) ([]Value, error) { return nil, nil }}
		return []Value{next, stop}, nil
	}
	in.Stubs["slices.AppendSeq"] = func(in *Interp, _ Value, a []Value) ([]Value, error) {
		s, err := seqOf(a[1])
		if err != nil {
			return nil, err
		}
		var base []Value
		if b, ok := a[0].(*Slice); ok && b != nil {
			base = *b.Elems
		}
		out := append(base, s.Elems...)
		return []Value{&Slice{Elems: &out}}, nil
	}
	in.Stubs["sort.Strings"] = in.Stubs["slices.Sort"]
	in.Stubs["sort.Ints"] = in.Stubs["slices.Sort"]
	in.Stubs["cmp.Compare"] = func(in *Interp, _ Value, a []Value) ([]Value, error) {
		l, err := natLess(a[0], a[1])
		if err != nil {
			return nil, err
		}
		g, _ := natLess(a[1], a[0])
		switch {
		case l:
			return []Value{int64(-1)}, nil
		case g:
			return []Value{int64(1)}, nil
		}
		return []Value{int64(0)}, nil
	}
	in.Stubs["cmp.Less"] = func(in *Interp, _ Value, a []Value) ([]Value, error) {
		l, err := natLess(a[0], a[1])
		return []Value{l}, err
	}
	in.Stubs["strings.Compare"] = in.Stubs["cmp.Compare"]

	in.Stubs["strings.Join"] = func(in *Interp, _ Value, a []Value) ([]Value, error) {
		var parts []string
		for _, x := range sl(a[0]) {
			parts = append(parts, str(x))
		}
		return []Value{strings.Join(parts, str(a[1]))}, nil
	}
	s1 := func(fn func(string) string) func(*Interp, Value, []Value) ([]Value, error) {
		return func(in *Interp, _ Value, a []Value) ([]Value, error) { return []Value{fn(str(a[0]))}, nil }
	}
	in.Stubs["strings.TrimSpace"] = s1(strings.TrimSpace)
	in.Stubs["strings.ToLower"] = s1(strings.ToLower)
	in.Stubs["strings.ToUpper"] = s1(strings.ToUpper)
	in.Stubs["strings.EqualFold"] = func(in *Interp, _ Value, a []Value) ([]Value, error) {
		return []Value{strings.EqualFold(str(a[0]), str(a[1]))}, nil
	}
	in.Stubs["strings.Count"] = func(in *Interp, _ Value, a []Value) ([]Value, error) {
		return []Value{int64(strings.Count(str(a[0]), str(a[1])))}, nil
	}
	in.Stubs["strings.Repeat"] = func(in *Interp, _ Value, a []Value) ([]Value, error) {
		n, _ := a[1].(int64)
		if n < 0 || n > 10000 {
			return nil, &Panic{What: "strings.Repeat: negative or huge count"}
		}
		return []Value{strings.Repeat(str(a[0]), int(n))}, nil
	}
	in.Stubs["strings.SplitN"] = func(in *Interp, _ Value, a []Value) ([]Value, error) {
		n, _ := a[2].(int64)
		var out []Value
		for _, p := range strings.SplitN(str(a[0]), str(a[1]), int(n)) {
			out = append(out, p)
		}
		return []Value{&Slice{Elems: &out}}, nil
	}
	in.Stubs["strings.Fields"] = func(in *Interp, _ Value, a []Value) ([]Value, error) {
		var out []Value
		for _, p := range strings.Fields(str(a[0])) {
			out = append(out, p)
		}
		return []Value{&Slice{Elems: &out}}, nil
	}
	in.Stubs["strings.Cut"] = func(in *Interp, _ Value, a []Value) ([]Value, error) {
		b, af, ok := strings.Cut(str(a[0]), str(a[1]))
		return []Value{b, af, ok}, nil
	}
	in.Stubs["strings.CutPrefix"] = func(in *Interp, _ Value, a []Value) ([]Value, error) {
		af, ok := strings.CutPrefix(str(a[0]), str(a[1]))
		return []Value{af, ok}, nil
	}
	in.Stubs["strings.CutSuffix"] = func(in *Interp, _ Value, a []Value) ([]Value, error) {
		bf, ok := strings.CutSuffix(str(a[0]), str(a[1]))
		return []Value{bf, ok}, nil
	}
	in.Stubs["strings.IndexByte"] = func(in *Interp, _ Value, a []Value) ([]Value, error) {
		c, _ := a[1].(int64)
		return []Value{int64(strings.IndexByte(str(a[0]), byte(c)))}, nil
	}
	in.Stubs["strings.IndexRune"] = func(in *Interp, _ Value, a []Value) ([]Value, error) {
		c, _ := a[1].(int64)
		return []Value{int64(strings.IndexRune(str(a[0]), rune(c)))}, nil
	}
	in.Stubs["strings.ContainsAny"] = func(in *Interp, _ Value, a []Value) ([]Value, error) {
		return []Value{strings.ContainsAny(str(a[0]), str(a[1]))}, nil
	}
	in.Stubs["strings.Trim"] = func(in *Interp, _ Value, a []Value) ([]Value, error) {
		return []Value{strings.Trim(str(a[0]), str(a[1]))}, nil
	}
	in.Stubs["strings.TrimLeft"] = func(in *Interp, _ Value, a []Value) ([]Value, error) {
		return []Value{strings.TrimLeft(str(a[0]), str(a[1]))}, nil
	}
	in.Stubs["strings.TrimRight"] = func(in *Interp, _ Value, a []Value) ([]Value, error) {
		return []Value{strings.TrimRight(str(a[0]), str(a[1]))}, nil
	}
	in.Stubs["strconv.Itoa"] = func(in *Interp, _ Value, a []Value) ([]Value, error) {
		n, _ := a[0].(int64)
		return []Value{strconv.FormatInt(n, 10)}, nil
	}
	in.Stubs["strconv.ParseInt"] = func(in *Interp, _ Value, a []Value) ([]Value, error) {
		b, _ := a[1].(int64)
		bits, _ := a[2].(int64)
		n, err := strconv.ParseInt(str(a[0]), int(b), int(bits))
		if err != nil {
			return []Value{n, ErrVal{Tag: "strconv.ParseInt"}}, nil
		}
		return []Value{n, nil}, nil
	}
	in.Stubs["strconv.Quote"] = s1(strconv.Quote)
	if _, ok := in.Stubs["errors.Is"]; !ok {
		in.Stubs["errors.Is"] = func(in *Interp, _ Value, a []Value) ([]Value, error) {
			x, ok1 := a[0].(ErrVal)
			y, ok2 := a[1].(ErrVal)
			return []Value{ok1 && ok2 && (x == y || strings.HasSuffix(x.Tag, y.Tag))}, nil
		}
	}
}
