// Package ordabs evaluates comparison-only Go functions read from the
// analysed source over small finite domains (all weak orderings of their
// integer inputs). It is an abstract interpreter for a loop-free fragment of
// Go: anything outside the fragment is reported as unsupported, never guessed.
package ordabs

import (
	"fmt"
	"strings"
	"go/ast"
	"go/constant"
	"go/token"
	"go/types"

	"mgcheck/core"
)

// Value is an interpreter value: int64, bool, string, *Obj (pointer to a heap
// struct, possibly nil), *Rec (struct value), *Closure, *Stub, ErrVal, nil
// (untyped nil / nil interface), *Slice.
type Value any

// Obj is a heap-allocated struct; pointer identity matters.
type Obj struct {
	Name   string
	Fields map[string]Value
	Opaque bool   // symbolic object: fields may not be read
	T      string // named type of the pointee, "" if unknown
}

// Rec is a struct value (copied on assignment).
type Rec struct {
	Fields map[string]Value
	T      string // named type ("ast.Atom"), "" if unknown
}

// TimeVal models a time.Time as nanoseconds.
type TimeVal struct{ NS int64 }

// Slice is a slice value with shared backing store.
type Slice struct{ Elems *[]Value }

// Map is a map value; keys are canonicalised with keyString.
type Map struct {
	M    map[string]Value
	Keys map[string]Value
}

// NewMap creates an empty map value.
func NewMap() *Map { return &Map{M: map[string]Value{}, Keys: map[string]Value{}} }

func keyString(v Value) string {
	switch x := v.(type) {
	case *Rec:
		ks := make([]string, 0, len(x.Fields))
		for k := range x.Fields {
			ks = append(ks, k)
		}
		sortStrings(ks)
		out := "{"
		for _, k := range ks {
			out += k + ":" + keyString(x.Fields[k]) + ","
		}
		return out + "}"
	case *Slice:
		if x == nil {
			return "[]"
		}
		out := "["
		for _, e := range *x.Elems {
			out += keyString(e) + ","
		}
		return out + "]"
	}
	return fmt.Sprintf("%T:%v", v, v)
}

func sortStrings(a []string) {
	for i := 1; i < len(a); i++ {
		for j := i; j > 0 && a[j] < a[j-1]; j-- {
			a[j], a[j-1] = a[j-1], a[j]
		}
	}
}

// ErrVal is a non-nil error value with an identity.
type ErrVal struct{ Tag string }

// Closure is a function literal with its environment.
type Closure struct {
	Lit  *ast.FuncLit
	Env  *env
	Info *types.Info
}

// Stub is a host function callable from interpreted code.
type Stub struct {
	Name string
	Fn   func(in *Interp, args []Value) ([]Value, error)
}

// Unsupported is returned for constructs outside the fragment.
type Unsupported struct {
	Pos  token.Pos
	What string
}

func (u *Unsupported) Error() string { return "unsupported construct: " + u.What }

// DivByZero is returned when interpreted code divides by zero (a run-time panic in Go).
type DivByZero struct{ Pos token.Pos }

func (d *DivByZero) Error() string { return "integer division by zero (the real code would panic)" }

// Panic is returned when interpreted code reaches a run-time panic other than
// a nil dereference or a division by zero (index or slice bounds, negative make).
type Panic struct {
	Pos  token.Pos
	What string
}

func (p *Panic) Error() string { return p.What + " (the real code would panic)" }

func panicf(pos token.Pos, format string, a ...any) error {
	return &Panic{Pos: pos, What: fmt.Sprintf(format, a...)}
}

// NilDeref is returned when interpreted code dereferences a nil pointer (a run-time panic in Go).
type NilDeref struct{ Pos token.Pos }

func (d *NilDeref) Error() string { return "nil pointer dereference (the real code would panic)" }

// VarPtr is a pointer to a local variable of basic type.
type VarPtr struct{ v *variable }

// Set stores through the pointer.
func (p *VarPtr) Set(v Value) { p.v.v = v }

// Get loads through the pointer.
func (p *VarPtr) Get() Value { return p.v.v }

// TypedNil is a nil pointer stored in an interface value: it is not equal to
// nil, and a type assertion to its pointer type succeeds and yields nil.
type TypedNil struct{ T string }

func unsup(pos token.Pos, format string, a ...any) error {
	return &Unsupported{Pos: pos, What: fmt.Sprintf(format, a...)}
}

// Interp interprets functions of one Program.
type Interp struct {
	Prog *core.Program
	// Stubs override calls by resolved callee name (core.ObjName form).
	Stubs map[string]func(in *Interp, recv Value, args []Value) ([]Value, error)
	// Events is an append-only log written by stubs.
	Events []string
	Fuel   int
	depth  int
	// Leaf, if set, is consulted first for every expression; it lets a rule
	// bind sub-expressions (field reads, calls) to abstract inputs.
	Leaf func(e ast.Expr) (Value, bool)
	// Globals gives values to package-level variables by core.ObjName.
	Globals map[string]Value
	// ReverseMaps makes range over a map run in descending key order (the
	// default is ascending), so a rule can evaluate two iteration orders.
	ReverseMaps bool
	pinned      map[*Rec]bool
	globalPtrs  map[string]*Obj
}

// ElemPtr is a pointer to a slice element.
type ElemPtr struct {
	S *Slice
	I int
}

func (p *ElemPtr) rec() (*Rec, bool) {
	if p == nil || p.S == nil || p.I < 0 || p.I >= len(*p.S.Elems) {
		return nil, false
	}
	r, ok := (*p.S.Elems)[p.I].(*Rec)
	return r, ok
}

// New creates an interpreter.
func New(p *core.Program) *Interp {
	in := &Interp{Prog: p, Stubs: map[string]func(*Interp, Value, []Value) ([]Value, error){}, Fuel: 100000}
	in.InstallStd()
	return in
}

// unhashable reports whether a map key would make the Go runtime panic: an
// interface key whose dynamic value is, or contains by value, a slice or a map.
func unhashable(v Value) bool {
	switch x := v.(type) {
	case *Slice:
		return true
	case *Map:
		return true
	case *Rec:
		if x != nil {
			for _, fv := range x.Fields {
				if unhashable(fv) {
					return true
				}
			}
		}
	}
	return false
}

// funcValue makes a callable value of a declared function or method (used as a
// value: stored in a table, passed as an argument). A stub registered under the
// function's name takes precedence, exactly as for a direct call.
func (in *Interp) funcValue(fn *types.Func, recv Value) Value {
	name := core.ObjName(fn)
	sig, _ := fn.Type().(*types.Signature)
	if sig == nil || (sig.Recv() != nil && recv == nil) {
		return nil
	}
	if sig.Recv() != nil {
		if _, isIface := sig.Recv().Type().Underlying().(*types.Interface); isIface {
			// method value of an interface: dispatch when called
			return &Stub{Name: name, Fn: func(in *Interp, args []Value) ([]Value, error) {
				if st, ok := in.Stubs[name]; ok {
					return st(in, recv, args)
				}
				if r, ok := recv.(*Rec); ok && r != nil && r.T != "" {
					if i := strings.LastIndex(r.T, "."); i > 0 {
						if st, ok := in.Stubs[r.T[:i]+"."+r.T[i+1:]+"."+fn.Name()]; ok {
							return st(in, recv, args)
						}
						if target := in.Prog.Func(r.T[:i], r.T[i+1:]+"."+fn.Name()); target != nil {
							return in.Call(target, recv, args)
						}
					}
				}
				return nil, &Unsupported{What: "method value " + name + " without a stub or a known dynamic type"}
			}}
		}
	}
	target := in.Prog.FuncOf(fn)
	if target == nil {
		if _, ok := in.Stubs[name]; !ok {
			return nil
		}
	}
	return &Stub{Name: name, Fn: func(in *Interp, args []Value) ([]Value, error) {
		if st, ok := in.Stubs[name]; ok {
			return st(in, recv, args)
		}
		if sig.Variadic() {
			n := sig.Params().Len() - 1
			if len(args) >= n {
				rest := append([]Value{}, args[n:]...)
				args = append(append([]Value{}, args[:n]...), &Slice{Elems: &rest})
			}
		}
		return in.Call(target, recv, args)
	}}
}

// global returns the value of a package-level variable: from Globals, or by
// evaluating its initializer when that is a constant-only composite literal.
func (in *Interp) global(o types.Object) (Value, bool) {
	name := core.ObjName(o)
	if v, ok := in.Globals[name]; ok {
		return v, true
	}
	rel := core.RelOf(o.Pkg())
	pkg := in.Prog.Pkg(rel)
	if pkg == nil {
		return nil, false
	}
	for _, file := range pkg.Syntax {
		for _, d := range file.Decls {
			gd, ok := d.(*ast.GenDecl)
			if !ok || gd.Tok != token.VAR {
				continue
			}
			for _, sp := range gd.Specs {
				vs := sp.(*ast.ValueSpec)
				for i, nm := range vs.Names {
					if pkg.TypesInfo.Defs[nm] != o || i >= len(vs.Values) {
						continue
					}
					fr := &frame{in: in, info: pkg.TypesInfo, env: newEnv(nil)}
					v, err := fr.expr(vs.Values[i])
					if err != nil {
						return nil, false
					}
					if in.Globals == nil {
						in.Globals = map[string]Value{}
					}
					in.Globals[name] = v
					return v, true
				}
			}
		}
	}
	return nil, false
}

// uniqueSliceMethod finds the method named m declared on a named slice type of the module, if there is exactly one.
func (in *Interp) uniqueSliceMethod(m string) *core.Func {
	var found *core.Func
	n := 0
	for _, rel := range in.Prog.RelPkgs() {
		pkg := in.Prog.Pkg(rel)
		scope := pkg.Types.Scope()
		for _, name := range scope.Names() {
			tn, ok := scope.Lookup(name).(*types.TypeName)
			if !ok {
				continue
			}
			if _, isSlice := tn.Type().Underlying().(*types.Slice); !isSlice {
				continue
			}
			if f := in.Prog.Func(rel, name+"."+m); f != nil {
				found = f
				n++
			}
		}
	}
	if n == 1 {
		return found
	}
	return nil
}

// Reset clears the event log and fuel.
func (in *Interp) Reset() { in.Events = in.Events[:0]; in.Fuel = 100000; in.depth = 0 }

// Emit appends an event.
func (in *Interp) Emit(format string, a ...any) { in.Events = append(in.Events, fmt.Sprintf(format, a...)) }

type variable struct{ v Value }

type env struct {
	vars   map[types.Object]*variable
	parent *env
}

func newEnv(parent *env) *env { return &env{vars: map[types.Object]*variable{}, parent: parent} }

func (e *env) lookup(o types.Object) *variable {
	for x := e; x != nil; x = x.parent {
		if v, ok := x.vars[o]; ok {
			return v
		}
	}
	return nil
}

func (e *env) define(o types.Object, v Value) { e.vars[o] = &variable{v} }

// copyVal implements value semantics for struct values.
func copyVal(v Value) Value {
	if r, ok := v.(*Rec); ok && r != nil {
		n := &Rec{Fields: make(map[string]Value, len(r.Fields)), T: r.T}
		for k, f := range r.Fields {
			n.Fields[k] = copyVal(f)
		}
		return n
	}
	return v
}

type ctl int

const (
	ctlNone ctl = iota
	ctlReturn
	ctlBreak
	ctlContinue
	ctlFallthrough
)

// deferred is a pending deferred call without arguments (the only form supported).
type deferred struct {
	call *ast.CallExpr
	env  *env
	run  func() error
}

type frame struct {
	in      *Interp
	info    *types.Info
	env     *env
	results []Value
	named   []types.Object // named results
	defers    []deferred
	label     string // label of a pending labelled break/continue
	nextLabel string // label attached to the statement about to run
}

// loopCtl decides what a loop does with the control signal of its body.
// It returns (stop the loop, propagate this signal to the caller).
func (f *frame) loopCtl(c ctl, my string) (stop bool, up ctl) {
	switch c {
	case ctlReturn:
		return true, ctlReturn
	case ctlBreak:
		if f.label != "" && f.label != my {
			return true, ctlBreak
		}
		f.label = ""
		return true, ctlNone
	case ctlContinue:
		if f.label != "" && f.label != my {
			return true, ctlContinue
		}
		f.label = ""
		return false, ctlNone
	}
	return false, ctlNone
}

// Call interprets fn with the given receiver (nil if none) and arguments.
func (in *Interp) Call(fn *core.Func, recv Value, args []Value) ([]Value, error) {
	return in.callDecl(fn.Pkg.TypesInfo, fn.Decl.Recv, fn.Decl.Type, fn.Decl.Body, nil, recv, args)
}

func (in *Interp) callDecl(info *types.Info, recvList *ast.FieldList, ftype *ast.FuncType, body *ast.BlockStmt, parent *env, recv Value, args []Value) ([]Value, error) {
	in.depth++
	defer func() { in.depth-- }()
	if in.depth > 40 {
		return nil, unsup(body.Pos(), "call depth exceeded (recursion must be stubbed)")
	}
	f := &frame{in: in, info: info, env: newEnv(parent)}
	if recvList != nil && len(recvList.List) > 0 && len(recvList.List[0].Names) > 0 {
		if o := info.Defs[recvList.List[0].Names[0]]; o != nil {
			f.env.define(o, copyVal(recv))
		}
	}
	i := 0
	if ftype.Params != nil {
		for _, fld := range ftype.Params.List {
			if len(fld.Names) == 0 {
				i++
				continue
			}
			for _, nm := range fld.Names {
				if i >= len(args) {
					return nil, unsup(body.Pos(), "too few arguments")
				}
				if o := info.Defs[nm]; o != nil {
					f.env.define(o, copyVal(args[i]))
				}
				i++
			}
		}
	}
	if ftype.Results != nil {
		for _, fld := range ftype.Results.List {
			for _, nm := range fld.Names {
				o := info.Defs[nm]
				z, err := zeroOf(info.TypeOf(fld.Type))
				if err != nil {
					return nil, unsup(fld.Pos(), "named result type")
				}
				f.env.define(o, z)
				f.named = append(f.named, o)
			}
		}
	}
	c, err := f.block(body, false)
	if err != nil {
		return nil, err
	}
	if len(f.defers) > 0 {
		if c == ctlReturn && len(f.named) > 0 && len(f.results) == len(f.named) {
			for i, o := range f.named {
				f.env.lookup(o).v = f.results[i]
			}
		}
		for i := len(f.defers) - 1; i >= 0; i-- {
			d := f.defers[i]
			if d.run != nil {
				if err := d.run(); err != nil {
					return nil, err
				}
				continue
			}
			f.env = d.env
			if _, err := f.call(d.call); err != nil {
				return nil, err
			}
		}
		if c == ctlReturn && len(f.named) > 0 && len(f.results) == len(f.named) {
			for i, o := range f.named {
				f.results[i] = f.env.lookup(o).v
			}
		}
	}
	if c == ctlReturn {
		return f.results, nil
	}
	if len(f.named) > 0 {
		var out []Value
		for _, o := range f.named {
			out = append(out, f.env.lookup(o).v)
		}
		return out, nil
	}
	return nil, nil
}

func zeroOf(t types.Type) (Value, error) {
	switch u := t.Underlying().(type) {
	case *types.Basic:
		switch {
		case u.Info()&types.IsInteger != 0:
			return int64(0), nil
		case u.Info()&types.IsFloat != 0:
			return float64(0), nil
		case u.Info()&types.IsBoolean != 0:
			return false, nil
		case u.Info()&types.IsString != 0:
			return "", nil
		}
	case *types.Pointer:
		return (*Obj)(nil), nil
	case *types.Interface, *types.Signature:
		return nil, nil
	case *types.Map:
		return (*Map)(nil), nil
	case *types.Slice:
		return (*Slice)(nil), nil
	case *types.Array:
		elems := make([]Value, u.Len())
		for i := range elems {
			z, err := zeroOf(u.Elem())
			if err != nil {
				return nil, err
			}
			elems[i] = z
		}
		return &Slice{Elems: &elems}, nil
	case *types.Struct:
		if core.TypeName(t) == "time.Time" {
			return TimeVal{}, nil
		}
		r := &Rec{Fields: map[string]Value{}, T: core.TypeName(t)}
		for i := 0; i < u.NumFields(); i++ {
			z, err := zeroOf(u.Field(i).Type())
			if err != nil {
				return nil, err
			}
			r.Fields[u.Field(i).Name()] = z
		}
		return r, nil
	}
	return nil, fmt.Errorf("no zero value for %v", t)
}

func (f *frame) block(b *ast.BlockStmt, scoped bool) (ctl, error) {
	if scoped {
		saved := f.env
		f.env = newEnv(saved)
		defer func() { f.env = saved }()
	}
	for _, s := range b.List {
		c, err := f.stmt(s)
		if err != nil || c != ctlNone {
			return c, err
		}
	}
	return ctlNone, nil
}

func (f *frame) stmt(s ast.Stmt) (ctl, error) {
	f.in.Fuel--
	if f.in.Fuel < 0 {
		return ctlNone, unsup(s.Pos(), "out of fuel (loop?)")
	}
	switch s := s.(type) {
	case *ast.BlockStmt:
		return f.block(s, true)
	case *ast.EmptyStmt:
		return ctlNone, nil
	case *ast.ExprStmt:
		_, err := f.exprMulti(s.X)
		return ctlNone, err
	case *ast.DeferStmt:
		if id, ok := s.Call.Fun.(*ast.Ident); ok && id.Name == "delete" && len(s.Call.Args) == 2 {
			if _, isBuiltin := f.info.Uses[id].(*types.Builtin); isBuiltin {
				// arguments are evaluated now, the deletion happens at return
				mv, err := f.expr(s.Call.Args[0])
				if err != nil {
					return ctlNone, err
				}
				kv, err := f.expr(s.Call.Args[1])
				if err != nil {
					return ctlNone, err
				}
				f.defers = append(f.defers, deferred{run: func() error {
					if m, ok := mv.(*Map); ok && m != nil {
						ks := keyString(kv)
						delete(m.M, ks)
						delete(m.Keys, ks)
					}
					return nil
				}})
				return ctlNone, nil
			}
		}
		if len(s.Call.Args) != 0 {
			return ctlNone, unsup(s.Pos(), "defer of a call with arguments")
		}
		f.defers = append(f.defers, deferred{call: s.Call, env: f.env})
		return ctlNone, nil
	case *ast.ReturnStmt:
		if len(s.Results) == 0 {
			for _, o := range f.named {
				f.results = append(f.results, f.env.lookup(o).v)
			}
			return ctlReturn, nil
		}
		if len(s.Results) == 1 {
			vs, err := f.exprMulti(s.Results[0])
			if err != nil {
				return ctlNone, err
			}
			f.results = vs
			return ctlReturn, nil
		}
		for _, r := range s.Results {
			v, err := f.expr(r)
			if err != nil {
				return ctlNone, err
			}
			f.results = append(f.results, copyVal(v))
		}
		return ctlReturn, nil
	case *ast.IfStmt:
		saved := f.env
		f.env = newEnv(saved)
		defer func() { f.env = saved }()
		if s.Init != nil {
			if c, err := f.stmt(s.Init); err != nil || c != ctlNone {
				return c, err
			}
		}
		cv, err := f.expr(s.Cond)
		if err != nil {
			return ctlNone, err
		}
		b, ok := cv.(bool)
		if !ok {
			return ctlNone, unsup(s.Cond.Pos(), "non-boolean condition")
		}
		if b {
			return f.block(s.Body, true)
		}
		if s.Else != nil {
			return f.stmt(s.Else)
		}
		return ctlNone, nil
	case *ast.AssignStmt:
		return ctlNone, f.assign(s)
	case *ast.IncDecStmt:
		v, err := f.expr(s.X)
		if err != nil {
			return ctlNone, err
		}
		n, ok := v.(int64)
		if !ok {
			return ctlNone, unsup(s.Pos(), "inc/dec of non-integer")
		}
		if s.Tok == token.INC {
			n++
		} else {
			n--
		}
		return ctlNone, f.store(s.X, n)
	case *ast.DeclStmt:
		gd, ok := s.Decl.(*ast.GenDecl)
		if ok && (gd.Tok == token.TYPE || gd.Tok == token.CONST) {
			return ctlNone, nil // local types and constants are resolved through go/types
		}
		if !ok || gd.Tok != token.VAR {
			return ctlNone, unsup(s.Pos(), "declaration")
		}
		for _, sp := range gd.Specs {
			vs := sp.(*ast.ValueSpec)
			for i, nm := range vs.Names {
				var v Value
				var err error
				if i < len(vs.Values) {
					v, err = f.expr(vs.Values[i])
				} else {
					v, err = zeroOf(f.info.TypeOf(nm))
				}
				if err != nil {
					return ctlNone, unsup(vs.Pos(), "var declaration: %v", err)
				}
				f.env.define(f.info.Defs[nm], copyVal(v))
			}
		}
		return ctlNone, nil
	case *ast.SwitchStmt:
		return f.switchStmt(s)
	case *ast.TypeSwitchStmt:
		return f.typeSwitch(s)
	case *ast.LabeledStmt:
		f.nextLabel = s.Label.Name
		return f.stmt(s.Stmt)
	case *ast.BranchStmt:
		if s.Label != nil {
			if s.Tok != token.BREAK && s.Tok != token.CONTINUE {
				return ctlNone, unsup(s.Pos(), "goto")
			}
			f.label = s.Label.Name
		}
		switch s.Tok {
		case token.BREAK:
			return ctlBreak, nil
		case token.CONTINUE:
			return ctlContinue, nil
		case token.FALLTHROUGH:
			return ctlFallthrough, nil
		}
		return ctlNone, unsup(s.Pos(), "branch %v", s.Tok)
	case *ast.ForStmt:
		my := f.nextLabel
		f.nextLabel = ""
		saved := f.env
		f.env = newEnv(saved)
		defer func() { f.env = saved }()
		if s.Init != nil {
			if c, err := f.stmt(s.Init); err != nil || c != ctlNone {
				return c, err
			}
		}
		for {
			if s.Cond != nil {
				cv, err := f.expr(s.Cond)
				if err != nil {
					return ctlNone, err
				}
				if b, _ := cv.(bool); !b {
					break
				}
			}
			c, err := f.block(s.Body, true)
			if err != nil {
				return ctlNone, err
			}
			if stop, up := f.loopCtl(c, my); stop {
				if up != ctlNone {
					return up, nil
				}
				break
			}
			if s.Post != nil {
				if _, err := f.stmt(s.Post); err != nil {
					return ctlNone, err
				}
			}
			f.in.Fuel--
			if f.in.Fuel < 0 {
				return ctlNone, unsup(s.Pos(), "out of fuel in loop")
			}
		}
		return ctlNone, nil
	case *ast.RangeStmt:
		my := f.nextLabel
		f.nextLabel = ""
		xv, err := f.expr(s.X)
		if err != nil {
			return ctlNone, err
		}
		var elems, keys []Value
		switch sl := xv.(type) {
		case *Slice:
			if sl != nil {
				elems = append(elems, *sl.Elems...)
			}
			for i := range elems {
				keys = append(keys, int64(i))
			}
		case *Map:
			// one fixed order (sorted by key); order sensitivity is the MAPORDER rule's business
			if sl != nil {
				var ks []string
				for k := range sl.M {
					ks = append(ks, k)
				}
				sortStrings(ks)
				if f.in.ReverseMaps {
					for i, j := 0, len(ks)-1; i < j; i, j = i+1, j-1 {
						ks[i], ks[j] = ks[j], ks[i]
					}
				}
				for _, k := range ks {
					keys = append(keys, sl.Keys[k])
					elems = append(elems, sl.M[k])
				}
			}
		case nil:
			// nil slice or map: no iterations
		case int64:
			// range over an integer: 0 .. n-1
			if sl > 100000 {
				return ctlNone, unsup(s.Pos(), "range over a huge integer")
			}
			for i := int64(0); i < sl; i++ {
				keys = append(keys, i)
				elems = append(elems, i)
			}
		case *Seq:
			// range over an iterator: one variable receives the element (or the key of a Seq2)
			if sl != nil {
				if sl.Keys != nil {
					keys = append(keys, sl.Keys...)
					elems = append(elems, sl.Elems...)
				} else {
					keys = append(keys, sl.Elems...)
					elems = append(elems, sl.Elems...)
				}
			}
		case string:
			for i, r := range sl {
				keys = append(keys, int64(i))
				elems = append(elems, int64(r))
			}
		case *Closure, *Stub:
			// range over a function (iter.Seq / iter.Seq2): the loop body becomes the yield function
			return f.rangeOverFunc(s, sl, my)
		default:
			return ctlNone, unsup(s.Pos(), "range over %T", xv)
		}
		for i, e := range elems {
			inner := newEnv(f.env)
			saved := f.env
			f.env = inner
			if id, ok := s.Key.(*ast.Ident); ok && id.Name != "_" {
				if s.Tok == token.DEFINE {
					inner.define(f.info.Defs[id], keys[i])
				} else if err := f.store(id, keys[i]); err != nil {
					f.env = saved
					return ctlNone, err
				}
			}
			if id, ok := s.Value.(*ast.Ident); ok && id.Name != "_" {
				if s.Tok == token.DEFINE {
					inner.define(f.info.Defs[id], copyVal(e))
				} else if err := f.store(id, copyVal(e)); err != nil {
					f.env = saved
					return ctlNone, err
				}
			}
			c, err := f.block(s.Body, true)
			f.env = saved
			if err != nil {
				return ctlNone, err
			}
			if stop, up := f.loopCtl(c, my); stop {
				if up != ctlNone {
					return up, nil
				}
				break
			}
		}
		return ctlNone, nil
	}
	return ctlNone, unsup(s.Pos(), "statement %T", s)
}

// rangeOverFunc runs `for k, v := range fn` for an iterator function: fn is called with a yield
// function that executes the loop body; break, return and outer control leave the loop by making yield return false.
func (f *frame) rangeOverFunc(s *ast.RangeStmt, fn Value, my string) (ctl, error) {
	pending := ctlNone
	yield := &Stub{Name: "yield", Fn: func(in *Interp, args []Value) ([]Value, error) {
		if pending != ctlNone {
			return nil, &Panic{What: "range function continued iteration after the loop body returned false"}
		}
		inner := newEnv(f.env)
		saved := f.env
		f.env = inner
		defer func() { f.env = saved }()
		bind := func(x ast.Expr, v Value) error {
			id, ok := x.(*ast.Ident)
			if !ok || id.Name == "_" {
				return nil
			}
			if s.Tok == token.DEFINE {
				inner.define(f.info.Defs[id], copyVal(v))
				return nil
			}
			return f.store(id, copyVal(v))
		}
		if s.Key != nil && len(args) > 0 {
			if err := bind(s.Key, args[0]); err != nil {
				return nil, err
			}
		}
		if s.Value != nil && len(args) > 1 {
			if err := bind(s.Value, args[1]); err != nil {
				return nil, err
			}
		}
		c, err := f.block(s.Body, true)
		if err != nil {
			return nil, err
		}
		in.Fuel--
		if in.Fuel < 0 {
			return nil, unsup(s.Pos(), "out of fuel in loop")
		}
		if stop, up := f.loopCtl(c, my); stop {
			pending = up
			if up == ctlNone {
				pending = ctlBreak
			}
			return []Value{false}, nil
		}
		return []Value{true}, nil
	}}
	if _, err := f.in.CallValue(fn, []Value{yield}); err != nil {
		return ctlNone, err
	}
	if pending == ctlBreak || pending == ctlNone {
		return ctlNone, nil
	}
	return pending, nil
}

func (f *frame) switchStmt(s *ast.SwitchStmt) (ctl, error) {
	saved := f.env
	f.env = newEnv(saved)
	defer func() { f.env = saved }()
	if s.Init != nil {
		if c, err := f.stmt(s.Init); err != nil || c != ctlNone {
			return c, err
		}
	}
	var tag Value = true
	if s.Tag != nil {
		v, err := f.expr(s.Tag)
		if err != nil {
			return ctlNone, err
		}
		tag = v
	}
	var deflt *ast.CaseClause
	matched := -1
	clauses := s.Body.List
	for i, cs := range clauses {
		cc := cs.(*ast.CaseClause)
		if cc.List == nil {
			deflt = cc
			continue
		}
		for _, e := range cc.List {
			v, err := f.expr(e)
			if err != nil {
				return ctlNone, err
			}
			if valuesEqual(tag, v) {
				matched = i
				break
			}
		}
		if matched >= 0 {
			break
		}
	}
	if matched < 0 {
		if deflt == nil {
			return ctlNone, nil
		}
		for i, cs := range clauses {
			if cs == deflt {
				matched = i
			}
		}
	}
	for i := matched; i < len(clauses); i++ {
		cc := clauses[i].(*ast.CaseClause)
		inner := newEnv(f.env)
		sv := f.env
		f.env = inner
		var c ctl
		var err error
		for _, st := range cc.Body {
			c, err = f.stmt(st)
			if err != nil || c != ctlNone {
				break
			}
		}
		f.env = sv
		if err != nil {
			return ctlNone, err
		}
		switch c {
		case ctlFallthrough:
			continue
		case ctlBreak:
			if f.label != "" {
				return ctlBreak, nil
			}
			return ctlNone, nil
		default:
			return c, nil
		}
	}
	return ctlNone, nil
}

func (f *frame) typeSwitch(s *ast.TypeSwitchStmt) (ctl, error) {
	saved := f.env
	f.env = newEnv(saved)
	defer func() { f.env = saved }()
	if s.Init != nil {
		if c, err := f.stmt(s.Init); err != nil || c != ctlNone {
			return c, err
		}
	}
	var ta *ast.TypeAssertExpr
	var bind *ast.Ident
	switch a := s.Assign.(type) {
	case *ast.AssignStmt:
		ta, _ = ast.Unparen(a.Rhs[0]).(*ast.TypeAssertExpr)
		bind, _ = a.Lhs[0].(*ast.Ident)
	case *ast.ExprStmt:
		ta, _ = ast.Unparen(a.X).(*ast.TypeAssertExpr)
	}
	if ta == nil {
		return ctlNone, unsup(s.Pos(), "type switch form")
	}
	v, err := f.expr(ta.X)
	if err != nil {
		return ctlNone, err
	}
	var chosen, deflt *ast.CaseClause
	for _, cs := range s.Body.List {
		cc := cs.(*ast.CaseClause)
		if cc.List == nil {
			deflt = cc
			continue
		}
		for _, te := range cc.List {
			if id, ok := te.(*ast.Ident); ok && id.Name == "nil" {
				if v == nil {
					chosen = cc
				}
				continue
			}
			is, known := dynIs(v, f.info.TypeOf(te))
			if !known {
				return ctlNone, unsup(s.Pos(), "type switch on %T", v)
			}
			if is {
				chosen = cc
				break
			}
		}
		if chosen != nil {
			break
		}
	}
	if chosen == nil {
		chosen = deflt
	}
	if chosen == nil {
		return ctlNone, nil
	}
	inner := newEnv(f.env)
	if bind != nil {
		if o := f.info.Implicits[chosen]; o != nil {
			if _, isTN := v.(TypedNil); isTN {
				if _, isPtr := o.Type().(*types.Pointer); isPtr {
					v = nil
				}
			}
			inner.define(o, v)
		}
	}
	sv := f.env
	f.env = inner
	defer func() { f.env = sv }()
	for _, st := range chosen.Body {
		c, err := f.stmt(st)
		if err != nil {
			return ctlNone, err
		}
		if c == ctlBreak && f.label == "" {
			return ctlNone, nil
		}
		if c != ctlNone {
			return c, nil
		}
	}
	return ctlNone, nil
}

func valuesEqual(a, b Value) bool {
	switch x := a.(type) {
	case int64:
		y, ok := b.(int64)
		return ok && x == y
	case bool:
		y, ok := b.(bool)
		return ok && x == y
	case float64:
		y, ok := b.(float64)
		return ok && x == y
	case string:
		y, ok := b.(string)
		return ok && x == y
	case *Obj:
		switch y := b.(type) {
		case *Obj:
			return x == y
		case nil:
			return x == nil
		}
		return false
	case nil:
		switch y := b.(type) {
		case nil:
			return true
		case *Obj:
			return y == nil
		case *Slice:
			return y == nil
		case *Map:
			return y == nil
		case ErrVal:
			return false
		}
		return false
	case *Map:
		if b == nil {
			return x == nil
		}
		return false
	case ErrVal:
		y, ok := b.(ErrVal)
		return ok && x == y
	case TypedNil:
		y, ok := b.(TypedNil)
		return ok && x == y
	case TimeVal:
		y, ok := b.(TimeVal)
		return ok && x == y
	case *Rec:
		y, ok := b.(*Rec)
		if !ok || len(x.Fields) != len(y.Fields) {
			return false
		}
		for k, v := range x.Fields {
			if !valuesEqual(v, y.Fields[k]) {
				return false
			}
		}
		return true
	case *Slice:
		if b == nil {
			return x == nil
		}
	}
	return false
}

func (f *frame) assign(s *ast.AssignStmt) error {
	if s.Tok != token.ASSIGN && s.Tok != token.DEFINE {
		// op-assign
		if len(s.Lhs) != 1 || len(s.Rhs) != 1 {
			return unsup(s.Pos(), "op-assign arity")
		}
		l, err := f.expr(s.Lhs[0])
		if err != nil {
			return err
		}
		r, err := f.expr(s.Rhs[0])
		if err != nil {
			return err
		}
		var op token.Token
		switch s.Tok {
		case token.ADD_ASSIGN:
			op = token.ADD
		case token.SUB_ASSIGN:
			op = token.SUB
		case token.MUL_ASSIGN:
			op = token.MUL
		case token.QUO_ASSIGN:
			op = token.QUO
		case token.REM_ASSIGN:
			op = token.REM
		default:
			return unsup(s.Pos(), "op-assign %v", s.Tok)
		}
		v, err := binop(s.Pos(), op, l, r)
		if err != nil {
			return err
		}
		return f.store(s.Lhs[0], v)
	}
	var vals []Value
	if ta, ok := ast.Unparen(s.Rhs[0]).(*ast.TypeAssertExpr); ok && len(s.Rhs) == 1 && len(s.Lhs) == 2 && ta.Type != nil {
		v, err := f.expr(ta.X)
		if err != nil {
			return err
		}
		is, known := dynIs(v, f.info.TypeOf(ta.Type))
		if !known {
			return unsup(s.Pos(), "type assertion on %T", v)
		}
		if is {
			if _, isTN := v.(TypedNil); isTN {
				if _, isPtr := f.info.TypeOf(ta.Type).(*types.Pointer); isPtr {
					v = nil
				}
			}
			vals = []Value{v, true}
		} else {
			z, err := zeroOf(f.info.TypeOf(ta.Type))
			if err != nil {
				z = nil
			}
			vals = []Value{z, false}
		}
	} else if ix, ok := ast.Unparen(s.Rhs[0]).(*ast.IndexExpr); ok && len(s.Rhs) == 1 && len(s.Lhs) == 2 {
		xv, err := f.expr(ix.X)
		if err != nil {
			return err
		}
		kv, err := f.expr(ix.Index)
		if err != nil {
			return err
		}
		m, isMap := xv.(*Map)
		if !isMap {
			return unsup(s.Pos(), "comma-ok index on %T", xv)
		}
		if unhashable(kv) {
			return panicf(s.Pos(), "runtime error: hash of unhashable type (a map key holding a slice)")
		}
		var v Value
		found := false
		if m != nil {
			v, found = m.M[keyString(kv)]
		}
		if !found {
			mt, _ := f.info.TypeOf(ix.X).Underlying().(*types.Map)
			if mt == nil {
				return unsup(s.Pos(), "map type")
			}
			z, err := zeroOf(mt.Elem())
			if err != nil {
				return unsup(s.Pos(), "map element zero value")
			}
			v = z
		}
		vals = []Value{v, found}
	} else if len(s.Rhs) == 1 && len(s.Lhs) > 1 {
		vs, err := f.exprMulti(s.Rhs[0])
		if err != nil {
			return err
		}
		if len(vs) != len(s.Lhs) {
			return unsup(s.Pos(), "assignment count mismatch")
		}
		vals = vs
	} else {
		for _, r := range s.Rhs {
			v, err := f.expr(r)
			if err != nil {
				return err
			}
			vals = append(vals, copyVal(v))
		}
	}
	for i, l := range s.Lhs {
		if id, ok := l.(*ast.Ident); ok {
			if id.Name == "_" {
				continue
			}
			if s.Tok == token.DEFINE {
				if o := f.info.Defs[id]; o != nil {
					f.env.define(o, vals[i])
					continue
				}
			}
		}
		if err := f.store(l, vals[i]); err != nil {
			return err
		}
	}
	return nil
}

// store assigns to an addressable expression.
func (f *frame) store(l ast.Expr, v Value) error {
	switch l := ast.Unparen(l).(type) {
	case *ast.Ident:
		o := f.info.Uses[l]
		if o == nil {
			o = f.info.Defs[l]
		}
		vr := f.env.lookup(o)
		if vr == nil {
			return unsup(l.Pos(), "assignment to unknown variable %s", l.Name)
		}
		vr.v = copyVal(v)
		return nil
	case *ast.SelectorExpr:
		base, err := f.lvalueBase(l.X)
		if err != nil {
			return err
		}
		if sel := f.info.Selections[l]; sel != nil {
			for _, emb := range embeddedPath(sel) {
				switch x := base.(type) {
				case *Obj:
					if x == nil || x.Opaque {
						return unsup(l.Pos(), "embedded field of nil/symbolic object")
					}
					base = x.Fields[emb]
				case *Rec:
					base = x.Fields[emb]
				}
			}
		}
		switch b := base.(type) {
		case *Obj:
			if b == nil {
				return unsup(l.Pos(), "nil pointer field store")
			}
			if b.Opaque {
				return unsup(l.Pos(), "store into symbolic object %s", b.Name)
			}
			b.Fields[l.Sel.Name] = copyVal(v)
			return nil
		case *Rec:
			b.Fields[l.Sel.Name] = copyVal(v)
			return nil
		case *ElemPtr:
			if r, ok := b.rec(); ok {
				r.Fields[l.Sel.Name] = copyVal(v)
				return nil
			}
		}
		return unsup(l.Pos(), "field store on %T", base)
	case *ast.StarExpr:
		pv, err := f.expr(l.X)
		if err != nil {
			return err
		}
		if o, ok := pv.(*Obj); ok && o != nil {
			if r, ok := v.(*Rec); ok {
				for k, fv := range r.Fields {
					o.Fields[k] = copyVal(fv)
				}
				return nil
			}
		}
		if vp, ok := pv.(*VarPtr); ok && vp != nil {
			vp.Set(copyVal(v))
			return nil
		}
		return unsup(l.Pos(), "store through pointer")
	case *ast.IndexExpr:
		xv, err := f.expr(l.X)
		if err != nil {
			return err
		}
		iv, err := f.expr(l.Index)
		if err != nil {
			return err
		}
		if m, ok := xv.(*Map); ok && m != nil {
			if unhashable(iv) {
				return panicf(l.Pos(), "runtime error: hash of unhashable type (a map key holding a slice)")
			}
			ks := keyString(iv)
			m.M[ks] = copyVal(v)
			m.Keys[ks] = iv
			return nil
		}
		sl, ok1 := xv.(*Slice)
		idx, ok2 := iv.(int64)
		if ok2 && (ok1 || xv == nil) && (sl == nil || idx < 0 || int(idx) >= len(*sl.Elems)) {
			return panicf(l.Pos(), "index %d out of range in a store", idx)
		}
		if !ok1 || !ok2 {
			return unsup(l.Pos(), "index store")
		}
		if cur, ok := (*sl.Elems)[idx].(*Rec); ok && cur != nil && f.in.pinned[cur] {
			if nv, ok := copyVal(v).(*Rec); ok && nv != nil {
				for k := range cur.Fields {
					delete(cur.Fields, k)
				}
				for k, fv := range nv.Fields {
					cur.Fields[k] = fv
				}
				cur.T = nv.T
				return nil
			}
		}
		(*sl.Elems)[idx] = copyVal(v)
		return nil
	}
	return unsup(l.Pos(), "assignment target %T", l)
}

// lvalueBase evaluates the base of a field store without copying struct values.
func (f *frame) lvalueBase(e ast.Expr) (Value, error) {
	switch e := ast.Unparen(e).(type) {
	case *ast.Ident:
		o := f.info.Uses[e]
		vr := f.env.lookup(o)
		if vr == nil {
			return nil, unsup(e.Pos(), "unknown variable %s", e.Name)
		}
		return vr.v, nil
	case *ast.SelectorExpr:
		b, err := f.lvalueBase(e.X)
		if err != nil {
			return nil, err
		}
		if sel := f.info.Selections[e]; sel != nil {
			for _, emb := range embeddedPath(sel) {
				switch x := b.(type) {
				case *Obj:
					if x == nil || x.Opaque {
						return nil, unsup(e.Pos(), "embedded field of nil/symbolic object")
					}
					b = x.Fields[emb]
				case *Rec:
					b = x.Fields[emb]
				}
			}
		}
		switch b := b.(type) {
		case *Obj:
			if b == nil || b.Opaque {
				return nil, unsup(e.Pos(), "field of nil/symbolic object")
			}
			return b.Fields[e.Sel.Name], nil
		case *Rec:
			return b.Fields[e.Sel.Name], nil
		case *ElemPtr:
			if r, ok := b.rec(); ok {
				return r.Fields[e.Sel.Name], nil
			}
		}
	case *ast.StarExpr:
		return f.expr(e.X)
	}
	return f.expr(e)
}

func (f *frame) expr(e ast.Expr) (Value, error) {
	vs, err := f.exprMulti(e)
	if err != nil {
		return nil, err
	}
	if len(vs) != 1 {
		return nil, unsup(e.Pos(), "expression yields %d values", len(vs))
	}
	return vs[0], nil
}

func constVal(tv types.TypeAndValue) (Value, bool) {
	if tv.Value == nil {
		return nil, false
	}
	switch tv.Value.Kind() {
	case constant.Int:
		if b, ok := tv.Type.Underlying().(*types.Basic); ok && b.Info()&types.IsFloat != 0 {
			f, _ := constant.Float64Val(tv.Value)
			return f, true
		}
		if n, ok := constant.Int64Val(tv.Value); ok {
			return n, true
		}
		if u, ok := constant.Uint64Val(tv.Value); ok {
			return int64(u), true
		}
	case constant.Bool:
		return constant.BoolVal(tv.Value), true
	case constant.String:
		return constant.StringVal(tv.Value), true
	case constant.Float:
		if b, ok := tv.Type.Underlying().(*types.Basic); ok && b.Info()&types.IsFloat != 0 {
			f, _ := constant.Float64Val(tv.Value)
			return f, true
		}
	}
	// an integer constant used at a floating-point type
	if tv.Value.Kind() == constant.Int {
		if b, ok := tv.Type.Underlying().(*types.Basic); ok && b.Info()&types.IsFloat != 0 {
			f, _ := constant.Float64Val(tv.Value)
			return f, true
		}
	}
	return nil, false
}

func (f *frame) exprMulti(e ast.Expr) ([]Value, error) {
	f.in.Fuel--
	if f.in.Fuel < 0 {
		return nil, unsup(e.Pos(), "out of fuel")
	}
	if f.in.Leaf != nil {
		if v, ok := f.in.Leaf(e); ok {
			return []Value{v}, nil
		}
	}
	if tv, ok := f.info.Types[e]; ok {
		if v, ok := constVal(tv); ok {
			return []Value{v}, nil
		}
	}
	one := func(v Value, err error) ([]Value, error) {
		if err != nil {
			return nil, err
		}
		return []Value{v}, nil
	}
	switch e := e.(type) {
	case *ast.ParenExpr:
		return f.exprMulti(e.X)
	case *ast.Ident:
		o := f.info.Uses[e]
		if o == nil {
			o = f.info.Defs[e]
		}
		if _, isNil := o.(*types.Nil); isNil {
			return []Value{nil}, nil
		}
		if vr := f.env.lookup(o); vr != nil {
			return []Value{vr.v}, nil
		}
		if fn, isFn := o.(*types.Func); isFn {
			if v := f.in.funcValue(fn, nil); v != nil {
				return []Value{v}, nil
			}
		}
		if o != nil && o.Parent() != nil && o.Pkg() != nil && o.Parent() == o.Pkg().Scope() {
			if v, ok := f.in.global(o); ok {
				return []Value{v}, nil
			}
		}
		return nil, unsup(e.Pos(), "identifier %s has no value in the abstract state", e.Name)
	case *ast.BasicLit:
		return nil, unsup(e.Pos(), "literal %s", e.Value)
	case *ast.SelectorExpr:
		if sel := f.info.Selections[e]; sel != nil && sel.Kind() == types.FieldVal {
			b, err := f.expr(e.X)
			if err != nil {
				return nil, err
			}
			// promoted field: walk through the embedded structs first
			for _, emb := range embeddedPath(sel) {
				switch x := b.(type) {
				case *Obj:
					if x == nil || x.Opaque {
						return nil, unsup(e.Pos(), "embedded field of nil/symbolic object")
					}
					b = x.Fields[emb]
				case *Rec:
					b = x.Fields[emb]
				default:
					return nil, unsup(e.Pos(), "embedded field on %T", b)
				}
			}
			switch b := b.(type) {
			case *Obj:
				if b == nil {
					return nil, &NilDeref{Pos: e.Pos()}
				}
				if b.Opaque {
					return nil, unsup(e.Pos(), "read of field %s of symbolic object %s", e.Sel.Name, b.Name)
				}
				v, ok := b.Fields[e.Sel.Name]
				if !ok {
					return nil, unsup(e.Pos(), "object has no field %s", e.Sel.Name)
				}
				return []Value{v}, nil
			case *Rec:
				v, ok := b.Fields[e.Sel.Name]
				if !ok {
					return nil, unsup(e.Pos(), "struct has no field %s", e.Sel.Name)
				}
				return []Value{v}, nil
			case *ElemPtr:
				if r, ok := b.rec(); ok {
					if v, ok := r.Fields[e.Sel.Name]; ok {
						return []Value{v}, nil
					}
				}
				return nil, unsup(e.Pos(), "field %s through element pointer", e.Sel.Name)
			}
			return nil, unsup(e.Pos(), "field selection on %T", b)
		}
		if fn, isFn := f.info.Uses[e.Sel].(*types.Func); isFn {
			if sel := f.info.Selections[e]; sel != nil && sel.Kind() == types.MethodVal {
				// method value x.M: bind the receiver now
				rv, err := f.expr(e.X)
				if err != nil {
					return nil, err
				}
				if v := f.in.funcValue(fn, copyVal(rv)); v != nil {
					return []Value{v}, nil
				}
			} else if sel != nil && sel.Kind() == types.MethodExpr {
				// method expression T.M: a function whose first argument is the receiver
				inner := fn
				return []Value{&Stub{Name: core.ObjName(inner), Fn: func(in *Interp, args []Value) ([]Value, error) {
					if len(args) == 0 {
						return nil, &Unsupported{What: "method expression called without a receiver"}
					}
					v := in.funcValue(inner, args[0])
					if v == nil {
						return nil, &Unsupported{What: "method expression " + core.ObjName(inner) + " cannot be resolved"}
					}
					return in.CallValue(v, args[1:])
				}}}, nil
			} else if sel == nil {
				if v := f.in.funcValue(fn, nil); v != nil {
					return []Value{v}, nil
				}
			}
		}
		if o := f.info.Uses[e.Sel]; o != nil && o.Pkg() != nil && o.Parent() == o.Pkg().Scope() {
			if v, ok := f.in.global(o); ok {
				return []Value{v}, nil
			}
		}
		return nil, unsup(e.Pos(), "selector %s", types.ExprString(e))
	case *ast.StarExpr:
		v, err := f.expr(e.X)
		if err != nil {
			return nil, err
		}
		if o, ok := v.(*Obj); ok && o != nil && !o.Opaque {
			return []Value{&Rec{Fields: o.Fields, T: o.T}}, nil
		}
		if vp, ok := v.(*VarPtr); ok && vp != nil {
			return []Value{vp.Get()}, nil
		}
		if o, ok := v.(*Obj); (ok && o == nil) || v == nil {
			return nil, &NilDeref{Pos: e.Pos()}
		}
		return nil, unsup(e.Pos(), "dereference")
	case *ast.UnaryExpr:
		switch e.Op {
		case token.NOT:
			v, err := f.expr(e.X)
			if err != nil {
				return nil, err
			}
			b, ok := v.(bool)
			if !ok {
				return nil, unsup(e.Pos(), "! on non-bool")
			}
			return []Value{!b}, nil
		case token.SUB:
			v, err := f.expr(e.X)
			if err != nil {
				return nil, err
			}
			if fl, ok := v.(float64); ok {
				return []Value{-fl}, nil
			}
			n, ok := v.(int64)
			if !ok {
				return nil, unsup(e.Pos(), "- on non-int")
			}
			return []Value{-n}, nil
		case token.AND:
			if cl, ok := ast.Unparen(e.X).(*ast.CompositeLit); ok {
				r, err := f.compositeLit(cl)
				if err != nil {
					return nil, err
				}
				if rec, ok := r.(*Rec); ok {
					return []Value{&Obj{Name: "new", Fields: rec.Fields, T: rec.T}}, nil
				}
			}
			if id, ok := ast.Unparen(e.X).(*ast.Ident); ok {
				if vr := f.env.lookup(f.info.Uses[id]); vr != nil {
					if rec, ok := vr.v.(*Rec); ok && rec != nil {
						// pointer to a local struct variable: share its fields
						return []Value{&Obj{Name: "&" + id.Name, Fields: rec.Fields, T: rec.T}}, nil
					}
					switch vr.v.(type) {
					case int64, string, bool, float64:
						return []Value{&VarPtr{v: vr}}, nil
					}
				}
			}
			if ix, ok := ast.Unparen(e.X).(*ast.IndexExpr); ok {
				xv, err := f.expr(ix.X)
				if err != nil {
					return nil, err
				}
				iv, err := f.expr(ix.Index)
				if err != nil {
					return nil, err
				}
				sl, ok1 := xv.(*Slice)
				idx, ok2 := iv.(int64)
				if ok1 && ok2 && sl != nil && idx >= 0 && int(idx) < len(*sl.Elems) {
					if rec, ok := (*sl.Elems)[idx].(*Rec); ok && rec != nil {
						// pointer to a struct element: share its fields; later stores to the
						// slot are done in place (see store) so the alias stays exact
						if f.in.pinned == nil {
							f.in.pinned = map[*Rec]bool{}
						}
						f.in.pinned[rec] = true
						return []Value{&Obj{Name: "&elem", Fields: rec.Fields, T: rec.T}}, nil
					}
					return []Value{&ElemPtr{S: sl, I: int(idx)}}, nil
				}
			}
			gid, _ := ast.Unparen(e.X).(*ast.Ident)
			if se, ok := ast.Unparen(e.X).(*ast.SelectorExpr); ok && f.info.Selections[se] == nil {
				gid = se.Sel
			}
			if id := gid; id != nil {
				if o, isVar := f.info.Uses[id].(*types.Var); isVar && o.Pkg() != nil && o.Parent() == o.Pkg().Scope() {
					if gv, ok := f.in.global(o); ok {
						if rec, ok := gv.(*Rec); ok && rec != nil {
							name := core.ObjName(o)
							if f.in.globalPtrs == nil {
								f.in.globalPtrs = map[string]*Obj{}
							}
							if p := f.in.globalPtrs[name]; p != nil {
								return []Value{p}, nil
							}
							p := &Obj{Name: "&" + name, Fields: rec.Fields, T: rec.T}
							f.in.globalPtrs[name] = p
							return []Value{p}, nil
						}
					}
				}
			}
			if se, ok := ast.Unparen(e.X).(*ast.SelectorExpr); ok && f.info.Selections[se] != nil {
				// pointer to a struct-typed field: share the field's record
				if v, err := f.lvalueBase(se); err == nil {
					if rec, ok := v.(*Rec); ok && rec != nil {
						return []Value{&Obj{Name: "&field", Fields: rec.Fields, T: rec.T}}, nil
					}
				}
			}
			return nil, unsup(e.Pos(), "address-of")
		}
		return nil, unsup(e.Pos(), "unary %v", e.Op)
	case *ast.BinaryExpr:
		if e.Op == token.LAND || e.Op == token.LOR {
			l, err := f.expr(e.X)
			if err != nil {
				return nil, err
			}
			lb, ok := l.(bool)
			if !ok {
				return nil, unsup(e.Pos(), "logical op on non-bool")
			}
			if e.Op == token.LAND && !lb {
				return []Value{false}, nil
			}
			if e.Op == token.LOR && lb {
				return []Value{true}, nil
			}
			r, err := f.expr(e.Y)
			if err != nil {
				return nil, err
			}
			rb, ok := r.(bool)
			if !ok {
				return nil, unsup(e.Pos(), "logical op on non-bool")
			}
			return []Value{rb}, nil
		}
		l, err := f.expr(e.X)
		if err != nil {
			return nil, err
		}
		r, err := f.expr(e.Y)
		if err != nil {
			return nil, err
		}
		if isUnsigned(f.info.TypeOf(e.X)) {
			if a, ok := l.(int64); ok {
				if b, ok := r.(int64); ok {
					if v, handled := unsignedOp(e.Op, uint64(a), uint64(b), f.info.TypeOf(e.X)); handled {
						return []Value{v}, nil
					}
				}
			}
		}
		if e.Op == token.SHL || e.Op == token.SHR {
			a, ok1 := l.(int64)
			b, ok2 := r.(int64)
			if ok1 && ok2 && b >= 0 {
				if e.Op == token.SHL {
					return []Value{a << uint(b)}, nil
				}
				return []Value{a >> uint(b)}, nil
			}
		}
		return one(binop(e.Pos(), e.Op, l, r))
	case *ast.CompositeLit:
		return one(f.compositeLit(e))
	case *ast.FuncLit:
		return []Value{&Closure{Lit: e, Env: f.env, Info: f.info}}, nil
	case *ast.IndexExpr:
		xv, err := f.expr(e.X)
		if err != nil {
			return nil, err
		}
		iv, err := f.expr(e.Index)
		if err != nil {
			return nil, err
		}
		if str, ok := xv.(string); ok {
			idx, ok := iv.(int64)
			if !ok || idx < 0 || int(idx) >= len(str) {
				return nil, panicf(e.Pos(), "string index %v out of range for length %d", iv, len(str))
			}
			return []Value{int64(str[idx])}, nil
		}
		if m, ok := xv.(*Map); ok {
			if unhashable(iv) {
				return nil, panicf(e.Pos(), "runtime error: hash of unhashable type (a map key holding a slice)")
			}
			if m != nil {
				if v, ok := m.M[keyString(iv)]; ok {
					return []Value{v}, nil
				}
			}
			mt, _ := f.info.TypeOf(e.X).Underlying().(*types.Map)
			if mt == nil {
				return nil, unsup(e.Pos(), "map index type")
			}
			z, err := zeroOf(mt.Elem())
			if err != nil {
				return nil, unsup(e.Pos(), "map element zero value")
			}
			return []Value{z}, nil
		}
		sl, ok1 := xv.(*Slice)
		idx, ok2 := iv.(int64)
		if ok2 && (ok1 || xv == nil) && (sl == nil || idx < 0 || int(idx) >= len(*sl.Elems)) {
			n := 0
			if sl != nil {
				n = len(*sl.Elems)
			}
			return nil, panicf(e.Pos(), "index %d out of range with length %d", idx, n)
		}
		if !ok1 || !ok2 {
			return nil, unsup(e.Pos(), "index %v of %T", iv, xv)
		}
		return []Value{(*sl.Elems)[idx]}, nil
	case *ast.SliceExpr:
		xv, err := f.expr(e.X)
		if err != nil {
			return nil, err
		}
		if str, isStr := xv.(string); isStr {
			lo, hi := 0, len(str)
			if e.Low != nil {
				v, err := f.expr(e.Low)
				if err != nil {
					return nil, err
				}
				lo = int(v.(int64))
			}
			if e.High != nil {
				v, err := f.expr(e.High)
				if err != nil {
					return nil, err
				}
				hi = int(v.(int64))
			}
			if lo < 0 || hi > len(str) || lo > hi {
				return nil, panicf(e.Pos(), "string slice [%d:%d] out of range for length %d", lo, hi, len(str))
			}
			return []Value{str[lo:hi]}, nil
		}
		sl, ok := xv.(*Slice)
		if !ok {
			return nil, unsup(e.Pos(), "slice expression on %T", xv)
		}
		n := 0
		if sl != nil {
			n = len(*sl.Elems)
		}
		lo, hi := 0, n
		if e.Low != nil {
			v, err := f.expr(e.Low)
			if err != nil {
				return nil, err
			}
			lo = int(v.(int64))
		}
		if e.High != nil {
			v, err := f.expr(e.High)
			if err != nil {
				return nil, err
			}
			hi = int(v.(int64))
		}
		hcap := 0
		if sl != nil {
			hcap = cap(*sl.Elems)
		}
		if e.High == nil {
			hi = n
		}
		if lo < 0 || hi > hcap || lo > hi {
			return nil, panicf(e.Pos(), "slice bounds out of range [%d:%d] with capacity %d", lo, hi, hcap)
		}
		max := hcap
		if e.Slice3 && e.Max != nil {
			v, err := f.expr(e.Max)
			if err != nil {
				return nil, err
			}
			max = int(v.(int64))
			if max < hi || max > hcap {
				return nil, panicf(e.Pos(), "slice bounds out of range [::%d] with capacity %d", max, hcap)
			}
		}
		var part []Value
		if sl != nil {
			part = (*sl.Elems)[lo:hi:max]
		}
		return []Value{&Slice{Elems: &part}}, nil
	case *ast.CallExpr:
		return f.call(e)
	case *ast.TypeAssertExpr:
		v, err := f.expr(e.X)
		if err != nil {
			return nil, err
		}
		if e.Type == nil {
			return nil, unsup(e.Pos(), "type switch guard outside switch")
		}
		ok, known := dynIs(v, f.info.TypeOf(e.Type))
		if !known {
			return nil, unsup(e.Pos(), "type assertion on %T", v)
		}
		if !ok {
			return nil, unsup(e.Pos(), "forced type assertion fails in the abstract state (would panic)")
		}
		if _, isTN := v.(TypedNil); isTN {
			if _, isPtr := f.info.TypeOf(e.Type).(*types.Pointer); isPtr {
				v = nil
			}
		}
		return []Value{v}, nil
	}
	return nil, unsup(e.Pos(), "expression %T", e)
}

// embeddedPath returns the names of the embedded fields a selection passes through.
func embeddedPath(sel *types.Selection) []string {
	idx := sel.Index()
	if len(idx) <= 1 {
		return nil
	}
	var out []string
	t := sel.Recv()
	for _, i := range idx[:len(idx)-1] {
		if p, ok := t.Underlying().(*types.Pointer); ok {
			t = p.Elem()
		}
		st, ok := t.Underlying().(*types.Struct)
		if !ok {
			return out
		}
		out = append(out, st.Field(i).Name())
		t = st.Field(i).Type()
	}
	return out
}

func isUnsigned(t types.Type) bool {
	if t == nil {
		return false
	}
	b, ok := t.Underlying().(*types.Basic)
	return ok && b.Info()&types.IsUnsigned != 0
}

// unsignedOp implements the operators whose result differs between signed and unsigned operands.
func unsignedOp(op token.Token, a, b uint64, t types.Type) (Value, bool) {
	mask := uint64(1<<64 - 1)
	if bt, ok := t.Underlying().(*types.Basic); ok {
		switch bt.Kind() {
		case types.Uint8:
			mask = 0xff
		case types.Uint16:
			mask = 0xffff
		case types.Uint32:
			mask = 0xffffffff
		}
	}
	switch op {
	case token.LSS:
		return a < b, true
	case token.LEQ:
		return a <= b, true
	case token.GTR:
		return a > b, true
	case token.GEQ:
		return a >= b, true
	case token.QUO:
		if b == 0 {
			return nil, false
		}
		return int64(a / b), true
	case token.REM:
		if b == 0 {
			return nil, false
		}
		return int64(a % b), true
	case token.SHR:
		return int64(a >> b), true
	case token.SHL:
		return int64((a << b) & mask), true
	case token.ADD:
		return int64((a + b) & mask), true
	case token.SUB:
		return int64((a - b) & mask), true
	case token.MUL:
		return int64((a * b) & mask), true
	}
	return nil, false
}

// dynIs reports whether the dynamic type of v is t (ok) and whether that is decidable (known).
func dynIs(v Value, t types.Type) (ok, known bool) {
	name := core.TypeName(t)
	if tn, isTN := v.(TypedNil); isTN {
		if _, isIface := t.Underlying().(*types.Interface); isIface {
			return true, true
		}
		return tn.T == name, true
	}
	if _, isPtr := t.(*types.Pointer); isPtr {
		switch x := v.(type) {
		case *Obj:
			if x == nil {
				return false, true
			}
			if x.T == "" {
				return false, false
			}
			return x.T == name, true
		default:
			return false, true
		}
	}
	if _, isObj := v.(*Obj); isObj {
		return false, true // a pointer value never has a non-pointer, non-interface dynamic type
	}
	if _, isIface := t.Underlying().(*types.Interface); isIface {
		return v != nil, true
	}
	switch x := v.(type) {
	case *Rec:
		if x == nil || x.T == "" || name == "" {
			return false, false
		}
		return x.T == name, true
	case nil:
		return false, true
	case TimeVal:
		return name == "time.Time", true
	case ErrVal:
		return false, true
	}
	return false, false
}

func binop(pos token.Pos, op token.Token, l, r Value) (Value, error) {
	switch op {
	case token.EQL:
		return valuesEqual(l, r), nil
	case token.NEQ:
		return !valuesEqual(l, r), nil
	}
	if ls, ok := l.(string); ok {
		if rs, ok := r.(string); ok {
			switch op {
			case token.ADD:
				return ls + rs, nil
			case token.LSS:
				return ls < rs, nil
			case token.LEQ:
				return ls <= rs, nil
			case token.GTR:
				return ls > rs, nil
			case token.GEQ:
				return ls >= rs, nil
			}
		}
	}
	if lf, ok := l.(float64); ok {
		if rf, ok := r.(float64); ok {
			switch op {
			case token.ADD:
				return lf + rf, nil
			case token.SUB:
				return lf - rf, nil
			case token.MUL:
				return lf * rf, nil
			case token.QUO:
				return lf / rf, nil
			case token.LSS:
				return lf < rf, nil
			case token.LEQ:
				return lf <= rf, nil
			case token.GTR:
				return lf > rf, nil
			case token.GEQ:
				return lf >= rf, nil
			}
		}
	}
	a, ok1 := l.(int64)
	b, ok2 := r.(int64)
	if !ok1 || !ok2 {
		return nil, unsup(pos, "operator %v on %T, %T", op, l, r)
	}
	switch op {
	case token.LSS:
		return a < b, nil
	case token.LEQ:
		return a <= b, nil
	case token.GTR:
		return a > b, nil
	case token.GEQ:
		return a >= b, nil
	case token.ADD:
		return a + b, nil
	case token.SUB:
		return a - b, nil
	case token.MUL:
		return a * b, nil
	case token.OR:
		return a | b, nil
	case token.AND:
		return a & b, nil
	case token.XOR:
		return a ^ b, nil
	case token.AND_NOT:
		return a &^ b, nil
	case token.QUO, token.REM:
		if b == 0 {
			return nil, &DivByZero{Pos: pos}
		}
		if b == -1 {
			// Go: x / -1 == -x (wraps at MinInt64), x % -1 == 0; the host would trap on MinInt64 / -1
			if op == token.QUO {
				return -a, nil
			}
			return int64(0), nil
		}
		if op == token.QUO {
			return a / b, nil
		}
		return a % b, nil
	}
	return nil, unsup(pos, "operator %v", op)
}

func (f *frame) compositeLit(e *ast.CompositeLit) (Value, error) {
	t := f.info.TypeOf(e)
	st, ok := t.Underlying().(*types.Struct)
	if !ok {
		_, isArray := t.Underlying().(*types.Array)
		if _, isSlice := t.Underlying().(*types.Slice); isSlice || isArray {
			// (an array literal is modelled as a slice of fixed length: the analysed code only reads such tables)
			var elems []Value
			for _, el := range e.Elts {
				v, err := f.expr(el)
				if err != nil {
					return nil, err
				}
				elems = append(elems, copyVal(v))
			}
			return &Slice{Elems: &elems}, nil
		}
		if _, isMap := t.Underlying().(*types.Map); isMap {
			m := NewMap()
			for _, el := range e.Elts {
				kv, ok := el.(*ast.KeyValueExpr)
				if !ok {
					return nil, unsup(e.Pos(), "map literal element")
				}
				kk, err := f.expr(kv.Key)
				if err != nil {
					return nil, err
				}
				vv, err := f.expr(kv.Value)
				if err != nil {
					return nil, err
				}
				ks := keyString(kk)
				m.M[ks], m.Keys[ks] = copyVal(vv), kk
			}
			return m, nil
		}
		return nil, unsup(e.Pos(), "composite literal of %v", t)
	}
	zv, err := zeroOf(t)
	if err != nil {
		return nil, unsup(e.Pos(), "zero value of %v", t)
	}
	r, isRec := zv.(*Rec)
	if !isRec {
		return nil, unsup(e.Pos(), "composite literal of %v", t)
	}
	for i, el := range e.Elts {
		if kv, ok := el.(*ast.KeyValueExpr); ok {
			v, err := f.expr(kv.Value)
			if err != nil {
				return nil, err
			}
			r.Fields[kv.Key.(*ast.Ident).Name] = copyVal(v)
		} else {
			v, err := f.expr(el)
			if err != nil {
				return nil, err
			}
			r.Fields[st.Field(i).Name()] = copyVal(v)
		}
	}
	return r, nil
}

// pack gathers the trailing arguments of a call to a variadic source function into a slice.
func (f *frame) pack(e *ast.CallExpr, args []Value) []Value {
	sig, ok := f.info.TypeOf(e.Fun).(*types.Signature)
	if !ok || !sig.Variadic() || e.Ellipsis.IsValid() {
		return args
	}
	n := sig.Params().Len() - 1
	if len(args) < n {
		return args
	}
	rest := append([]Value(nil), args[n:]...)
	var packed Value = (*Slice)(nil)
	if len(rest) > 0 {
		packed = &Slice{Elems: &rest}
	}
	return append(append([]Value(nil), args[:n]...), packed)
}

// toParam models the conversion of an argument to an interface-typed
// parameter: a nil pointer becomes a non-nil interface holding a typed nil.
func (f *frame) toParam(e *ast.CallExpr, i int, a ast.Expr, v Value) Value {
	switch x := v.(type) {
	case nil:
	case *Obj:
		if x != nil {
			return v
		}
	default:
		return v
	}
	pt, ok := f.info.TypeOf(a).(*types.Pointer)
	if !ok {
		return v
	}
	sig, ok := f.info.TypeOf(e.Fun).(*types.Signature)
	if !ok || sig.Params().Len() == 0 {
		return v
	}
	if i >= sig.Params().Len() {
		i = sig.Params().Len() - 1
	}
	t := sig.Params().At(i).Type()
	if sig.Variadic() && i == sig.Params().Len()-1 {
		if st, ok := t.(*types.Slice); ok {
			t = st.Elem()
		}
	}
	if _, isIface := t.Underlying().(*types.Interface); !isIface {
		return v
	}
	return TypedNil{T: core.TypeName(pt)}
}

func (f *frame) call(e *ast.CallExpr) ([]Value, error) {
	// conversions
	if tv, ok := f.info.Types[e.Fun]; ok && tv.IsType() {
		if len(e.Args) != 1 {
			return nil, unsup(e.Pos(), "conversion arity")
		}
		v, err := f.expr(e.Args[0])
		if err != nil {
			return nil, err
		}
		target := tv.Type.Underlying()
		if bt, ok := target.(*types.Basic); ok {
			if fl, isF := v.(float64); isF {
				if bt.Info()&types.IsFloat != 0 {
					return []Value{fl}, nil
				}
				if bt.Info()&types.IsInteger != 0 {
					return []Value{int64(fl)}, nil
				}
			}
			if n, isI := v.(int64); isI && bt.Info()&types.IsFloat != 0 {
				return []Value{float64(n)}, nil
			}
			switch x := v.(type) {
			case *Slice:
				if bt.Info()&types.IsString != 0 {
					var bs []byte
					if x != nil {
						for _, el := range *x.Elems {
							n, _ := el.(int64)
							bs = append(bs, byte(n))
						}
					}
					return []Value{string(bs)}, nil
				}
			case int64:
				switch {
				case bt.Info()&types.IsString != 0:
					return []Value{string(rune(x))}, nil
				case bt.Kind() == types.Uint8:
					return []Value{int64(uint8(x))}, nil
				case bt.Kind() == types.Uint16:
					return []Value{int64(uint16(x))}, nil
				case bt.Kind() == types.Uint32:
					return []Value{int64(uint32(x))}, nil
				case bt.Kind() == types.Int32:
					return []Value{int64(int32(x))}, nil
				case bt.Kind() == types.Int8:
					return []Value{int64(int8(x))}, nil
				case bt.Kind() == types.Int16:
					return []Value{int64(int16(x))}, nil
				}
			}
		}
		if st, ok := target.(*types.Slice); ok {
			if str, isStr := v.(string); isStr {
				if eb, ok := st.Elem().Underlying().(*types.Basic); ok && eb.Kind() == types.Uint8 {
					elems := make([]Value, len(str))
					for i := 0; i < len(str); i++ {
						elems[i] = int64(str[i])
					}
					return []Value{&Slice{Elems: &elems}}, nil
				}
			}
		}
		switch v.(type) {
		case int64, bool, string:
			return []Value{v}, nil
		case nil:
			z, err := zeroOf(tv.Type)
			if err == nil {
				return []Value{z}, nil
			}
		case *Slice, *Map, *Rec, *Obj:
			return []Value{v}, nil // conversion between identical underlying types
		}
		return nil, unsup(e.Pos(), "conversion of %T", v)
	}
	callee := core.Callee(f.info, e)
	var args []Value
	evalArgs := func() error {
		for _, a := range e.Args {
			v, err := f.expr(a)
			if err != nil {
				return err
			}
			args = append(args, f.toParam(e, len(args), a, copyVal(v)))
		}
		return nil
	}
	if b, ok := callee.(*types.Builtin); ok {
		switch b.Name() {
		case "len":
			v, err := f.expr(e.Args[0])
			if err != nil {
				return nil, err
			}
			switch s := v.(type) {
			case *Slice:
				if s == nil {
					return []Value{int64(0)}, nil
				}
				return []Value{int64(len(*s.Elems))}, nil
			case string:
				return []Value{int64(len(s))}, nil
			case *Map:
				if s == nil {
					return []Value{int64(0)}, nil
				}
				return []Value{int64(len(s.M))}, nil
			case nil:
				return []Value{int64(0)}, nil
			}
			return nil, unsup(e.Pos(), "len of %T", v)
		case "cap":
			v, err := f.expr(e.Args[0])
			if err != nil {
				return nil, err
			}
			if s, ok := v.(*Slice); ok {
				if s == nil {
					return []Value{int64(0)}, nil
				}
				return []Value{int64(cap(*s.Elems))}, nil
			}
			if v == nil {
				return []Value{int64(0)}, nil
			}
			return nil, unsup(e.Pos(), "cap of %T", v)
		case "copy":
			if err := evalArgs(); err != nil {
				return nil, err
			}
			dst, ok1 := args[0].(*Slice)
			n := 0
			switch src := args[1].(type) {
			case *Slice:
				if ok1 && dst != nil && src != nil {
					for n < len(*dst.Elems) && n < len(*src.Elems) {
						(*dst.Elems)[n] = copyVal((*src.Elems)[n])
						n++
					}
				}
			case string:
				if ok1 && dst != nil {
					for n < len(*dst.Elems) && n < len(src) {
						(*dst.Elems)[n] = int64(src[n])
						n++
					}
				}
			case nil:
			default:
				return nil, unsup(e.Pos(), "copy from %T", args[1])
			}
			return []Value{int64(n)}, nil
		case "make":
			switch mt := f.info.TypeOf(e.Args[0]).Underlying().(type) {
			case *types.Map:
				return []Value{NewMap()}, nil
			case *types.Slice:
				n := int64(0)
				if len(e.Args) > 1 {
					v, err := f.expr(e.Args[1])
					if err != nil {
						return nil, err
					}
					n, _ = v.(int64)
				}
				capacity := n
				if len(e.Args) > 2 {
					v, err := f.expr(e.Args[2])
					if err != nil {
						return nil, err
					}
					capacity, _ = v.(int64)
					if capacity < n {
						return nil, panicf(e.Pos(), "make([]T, %d, %d): cap out of range", n, capacity)
					}
				}
				if n < 0 {
					return nil, panicf(e.Pos(), "make([]T, %d): negative length", n)
				}
				if n > 1000 || capacity > 100000 {
					return nil, unsup(e.Pos(), "make([]T, %d, %d): huge length", n, capacity)
				}
				elems := make([]Value, n, capacity)
				for i := range elems {
					z, err := zeroOf(mt.Elem())
					if err != nil {
						return nil, unsup(e.Pos(), "make: element zero value")
					}
					elems[i] = z
				}
				return []Value{&Slice{Elems: &elems}}, nil
			}
			return nil, unsup(e.Pos(), "make of %v", f.info.TypeOf(e.Args[0]))
		case "max", "min":
			if err := evalArgs(); err != nil {
				return nil, err
			}
			if _, isInt := args[0].(int64); !isInt {
				// floats and strings: natural order
				bestV := args[0]
				for _, a := range args[1:] {
					var less bool
					switch x := a.(type) {
					case float64:
						y, ok := bestV.(float64)
						if !ok {
							return nil, unsup(e.Pos(), "%s of mixed values", b.Name())
						}
						less = x < y
						if b.Name() == "max" {
							less = x > y
						}
					case string:
						y, ok := bestV.(string)
						if !ok {
							return nil, unsup(e.Pos(), "%s of mixed values", b.Name())
						}
						less = x < y
						if b.Name() == "max" {
							less = x > y
						}
					default:
						return nil, unsup(e.Pos(), "%s of %T", b.Name(), a)
					}
					if less {
						bestV = a
					}
				}
				return []Value{bestV}, nil
			}
			best, ok := args[0].(int64)
			if !ok {
				return nil, unsup(e.Pos(), "%s of non-integers", b.Name())
			}
			for _, a := range args[1:] {
				x, ok := a.(int64)
				if !ok {
					return nil, unsup(e.Pos(), "%s of non-integers", b.Name())
				}
				if (b.Name() == "max" && x > best) || (b.Name() == "min" && x < best) {
					best = x
				}
			}
			return []Value{best}, nil
		case "clear":
			if err := evalArgs(); err != nil {
				return nil, err
			}
			switch x := args[0].(type) {
			case *Map:
				if x != nil {
					for k := range x.M {
						delete(x.M, k)
						delete(x.Keys, k)
					}
				}
			case *Slice:
				if x != nil {
					st, _ := f.info.TypeOf(e.Args[0]).Underlying().(*types.Slice)
					for i := range *x.Elems {
						var z Value
						if st != nil {
							z, _ = zeroOf(st.Elem())
						}
						(*x.Elems)[i] = z
					}
				}
			}
			return nil, nil
		case "delete":
			if err := evalArgs(); err != nil {
				return nil, err
			}
			if m, ok := args[0].(*Map); ok && m != nil {
				delete(m.M, keyString(args[1]))
				delete(m.Keys, keyString(args[1]))
			}
			return nil, nil
		case "append":
			if err := evalArgs(); err != nil {
				return nil, err
			}
			// Go's own semantics, by the host's append on the shared backing array: when the capacity allows, the new
			// elements are written in place and are visible through every slice that shares the array (growth of the
			// capacity follows the host runtime, which is the runtime of the analysed program)
			var elems []Value
			if s, ok := args[0].(*Slice); ok && s != nil {
				elems = *s.Elems
			}
			if e.Ellipsis.IsValid() {
				if len(args) != 2 {
					return nil, unsup(e.Pos(), "append with ... arity")
				}
				if s, ok := args[1].(*Slice); ok && s != nil {
					for _, x := range *s.Elems {
						elems = append(elems, copyVal(x))
					}
				}
				if str, ok := args[1].(string); ok {
					for i := 0; i < len(str); i++ {
						elems = append(elems, int64(str[i]))
					}
				}
			} else {
				elems = append(elems, args[1:]...)
			}
			return []Value{&Slice{Elems: &elems}}, nil
		}
		return nil, unsup(e.Pos(), "builtin %s", b.Name())
	}
	if _, isVar := callee.(*types.Var); isVar {
		callee = nil
	}
	if callee == nil {
		// call of a function value
		fv, err := f.expr(e.Fun)
		if err != nil {
			return nil, err
		}
		if err := evalArgs(); err != nil {
			return nil, err
		}
		switch fn := fv.(type) {
		case *Closure:
			return f.in.callDecl(fn.Info, nil, fn.Lit.Type, fn.Lit.Body, fn.Env, nil, f.pack(e, args))
		case *Stub:
			return fn.Fn(f.in, args)
		}
		return nil, unsup(e.Pos(), "call of %T", fv)
	}
	name := core.ObjName(callee)
	var recv Value
	fnObj, _ := callee.(*types.Func)
	if fnObj != nil {
		if sig := fnObj.Type().(*types.Signature); sig.Recv() != nil {
			sel, ok := ast.Unparen(e.Fun).(*ast.SelectorExpr)
			if !ok {
				return nil, unsup(e.Pos(), "method expression")
			}
			rv, err := f.expr(sel.X)
			if err != nil {
				return nil, err
			}
			recv = rv
		}
	}
	if fnObj != nil && recv != nil {
		if sel, ok := ast.Unparen(e.Fun).(*ast.SelectorExpr); ok {
			if s := f.info.Selections[sel]; s != nil && s.Kind() == types.MethodVal {
				for _, emb := range embeddedPath(s) {
					switch x := recv.(type) {
					case *Obj:
						if x != nil && !x.Opaque {
							recv = x.Fields[emb]
						}
					case *Rec:
						recv = x.Fields[emb]
					}
				}
			}
		}
	}
	if err := evalArgs(); err != nil {
		return nil, err
	}
	if st, ok := f.in.Stubs[name]; ok {
		return st(f.in, recv, args)
	}
	if fnObj != nil {
		if sig := fnObj.Type().(*types.Signature); sig.Recv() != nil {
			if _, isIface := sig.Recv().Type().Underlying().(*types.Interface); isIface {
				// interface method: dispatch on the dynamic type tag of the receiver
				if r, ok := recv.(*Rec); ok && r != nil && r.T != "" {
					if i := strings.LastIndex(r.T, "."); i > 0 {
						dyn := r.T[:i] + "." + r.T[i+1:] + "." + fnObj.Name()
						if st, ok := f.in.Stubs[dyn]; ok {
							return st(f.in, recv, args)
						}
						if target := f.in.Prog.Func(r.T[:i], r.T[i+1:]+"."+fnObj.Name()); target != nil {
							return f.in.Call(target, recv, f.pack(e, args))
						}
					}
				}
				if _, isSlice := recv.(*Slice); isSlice {
					// untagged slice value: dispatch if exactly one named slice type of the module has this method
					if target := f.in.uniqueSliceMethod(fnObj.Name()); target != nil {
						return f.in.Call(target, recv, f.pack(e, args))
					}
				}
				return nil, unsup(e.Pos(), "interface method %s on %T without a known dynamic type", name, recv)
			}
		}
	}
	// closures held in variables resolve to *types.Var, handled above (callee==nil);
	// here: a function or method declared in the repository.
	if fnObj != nil {
		if rel := core.RelOf(fnObj.Pkg()); rel != "" {
			nm := fnObj.Name()
			if sig := fnObj.Type().(*types.Signature); sig.Recv() != nil {
				t := sig.Recv().Type()
				if p, ok := t.(*types.Pointer); ok {
					t = p.Elem()
				}
				if n, ok := t.(*types.Named); ok {
					nm = n.Obj().Name() + "." + nm
				}
			}
			if target := f.in.Prog.Func(rel, nm); target != nil {
				// pointer receiver called on a struct value or vice versa
				if o, ok := recv.(*Obj); ok && o != nil && target.Decl.Recv != nil {
					if _, isPtr := target.Decl.Recv.List[0].Type.(*ast.StarExpr); !isPtr {
						recv = &Rec{Fields: o.Fields, T: o.T}
					}
				}
				if r, ok := recv.(*Rec); ok && r != nil && target.Decl.Recv != nil {
					if _, isPtr := target.Decl.Recv.List[0].Type.(*ast.StarExpr); isPtr {
						// method with pointer receiver on an addressable value: the callee mutates the caller's variable
						recv = &Obj{Name: "&recv", Fields: r.Fields, T: r.T}
					}
				}
				return f.in.Call(target, recv, f.pack(e, args))
			}
		}
	}
	return nil, unsup(e.Pos(), "call to %s (no stub, no source)", name)
}
