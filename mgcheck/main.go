// mgcheck decides structural obligations of the properties in
// /verif/properties.jsonl on /repo's current source. See /verif/DESIGN.md.
package main

import (
	"fmt"
	"os"
	"path/filepath"
	"sort"

	"mgcheck/core"
	"mgcheck/props"
)

func usage() {
	fmt.Fprintln(os.Stderr, "usage: mgcheck <property-id> <quick|thorough> [-repo dir] [-verif dir] [-quiet]")
	var ids []string
	for id := range props.Registry {
		ids = append(ids, id)
	}
	sort.Strings(ids)
	fmt.Fprintln(os.Stderr, "properties:", ids)
	os.Exit(2)
}

func main() {
	if len(os.Args) < 3 {
		usage()
	}
	id, tier := os.Args[1], os.Args[2]
	repo, verif, quiet := "/repo", "/verif", false
	for i := 3; i < len(os.Args); i++ {
		switch os.Args[i] {
		case "-repo":
			i++
			repo = os.Args[i]
		case "-verif":
			i++
			verif = os.Args[i]
		case "-quiet":
			quiet = true
		default:
			usage()
		}
	}
	repo, _ = filepath.Abs(repo)
	if id == "all" {
		// matrix mode (used by tools/seedmatrix.sh): one load, every property, quiet
		prog, err := core.Load(repo, "", "")
		if err != nil {
			fmt.Printf("LOAD-ERROR %v\n", err)
			os.Exit(1)
		}
		var ids []string
		for k := range props.Registry {
			ids = append(ids, k)
		}
		sort.Strings(ids)
		for _, k := range ids {
			func() {
				ctx := core.NewCtx(prog, k, tier, verif)
				ctx.Quiet = true
				defer func() {
					if r := recover(); r != nil {
						fmt.Printf("PROP %s 1 checker-panic %v\n", k, r)
					}
				}()
				props.Registry[k](ctx)
				rc := ctx.Finish()
				fmt.Printf("PROP %s %d\n", k, rc)
			}()
		}
		os.Exit(0)
	}
	fn, ok := props.Registry[id]
	if !ok || (tier != "quick" && tier != "thorough") {
		usage()
	}
	os.Exit(run(id, tier, repo, verif, quiet, fn))
}

func run(id, tier, repo, verif string, quiet bool, fn func(*core.Ctx)) (code int) {
	prog, err := core.Load(repo, "", "")
	ctx := core.NewCtx(prog, id, tier, verif)
	ctx.Quiet = quiet
	if err != nil {
		// A tree that does not load or type-check cannot be decided: failure.
		fmt.Printf("UNRESOLVED rule=load: %v\n", err)
		if !quiet {
			os.MkdirAll(filepath.Join(verif, "replay", id), 0o755)
			p := filepath.Join(verif, "replay", id, "load.json")
			os.WriteFile(p, []byte(fmt.Sprintf("{\"property\":%q,\"rule\":\"load\",\"error\":%q}\n", id, err.Error())), 0o644)
			fmt.Printf("VIOLATION property=%s replay=%s\n", id, p)
		}
		return 1
	}
	defer func() {
		if r := recover(); r != nil {
			fmt.Printf("UNRESOLVED rule=checker-panic: %v\n", r)
			if !quiet {
				os.MkdirAll(filepath.Join(verif, "replay", id), 0o755)
				p := filepath.Join(verif, "replay", id, "panic.json")
				os.WriteFile(p, []byte(fmt.Sprintf("{\"property\":%q,\"rule\":\"checker-panic\",\"error\":%q}\n", id, fmt.Sprint(r))), 0o644)
				fmt.Printf("VIOLATION property=%s replay=%s\n", id, p)
			}
			code = 1
		}
	}()
	fn(ctx)
	return ctx.Finish()
}
