package core

import (
	"bufio"
	"encoding/json"
	"fmt"
	"go/token"
	"os"
	"path/filepath"
	"sort"
	"strconv"
	"strings"
	"time"
)

// Status of an obligation.
const (
	Discharged = "discharged"
	Violated   = "violated"
	Unresolved = "unresolved"
)

// Obligation is one (rule, construct) pair decided on the current source.
type Obligation struct {
	Rule       string `json:"rule"`
	Construct  string `json:"construct"`
	Pos        string `json:"pos"`
	Status     string `json:"status"`
	Detail     string `json:"detail,omitempty"`
	Known      bool   `json:"known_finding,omitempty"`
	Nontrivial bool   `json:"-"`
}

// Key identifies an obligation independent of line numbers.
func (o Obligation) Key() string { return o.Rule + " " + o.Construct }

// Ctx collects the obligations of one property check run.
type Ctx struct {
	Prog      *Program
	Prop      string
	Tier      string
	Obls      []Obligation
	Info      []string
	rules     map[string]string
	ruleOrder []string
	floors    map[string]int
	assume    []string
	funcs     map[string]bool
	start     time.Time
	VerifDir  string
	Quiet     bool // self-test mode: no files written, no lines printed
	extraCov  map[string]any
	alias     map[string]string
}

// Under runs fn with every rule name in from recorded as rule to: a property can
// repeat the obligations of a neighbouring property (whose functions carry their
// own rule names) under a rule of its own.
func (c *Ctx) Under(to string, from []string, fn func()) {
	old := c.alias
	c.alias = map[string]string{}
	for k, v := range old {
		c.alias[k] = v
	}
	for _, f := range from {
		c.alias[f] = to
	}
	defer func() { c.alias = old }()
	fn()
}

func (c *Ctx) ruleName(name string) string {
	if a, ok := c.alias[name]; ok {
		return a
	}
	return name
}

// NewCtx starts a run.
func NewCtx(prog *Program, prop, tier, verifDir string) *Ctx {
	return &Ctx{Prog: prog, Prop: prop, Tier: tier, rules: map[string]string{}, floors: map[string]int{}, funcs: map[string]bool{}, start: time.Now(), VerifDir: verifDir, extraCov: map[string]any{}}
}

// Rule registers a rule with the sentence that states it, and the minimum
// number of instances confirmed by hand (a rule matching fewer sites fails).
func (c *Ctx) Rule(name, text string, floor int) {
	if a, ok := c.alias[name]; ok {
		if _, have := c.rules[a]; have {
			return // the alias target carries its own text
		}
		name = a
	}
	if _, ok := c.rules[name]; !ok {
		c.ruleOrder = append(c.ruleOrder, name)
	}
	c.rules[name] = text
	c.floors[name] = floor
}

// Assume records an assumption of the check.
func (c *Ctx) Assume(s string) { c.assume = append(c.assume, s) }

// Cover records an extra coverage key.
func (c *Ctx) Cover(k string, v any) { c.extraCov[k] = v }

// Note records an informational line for the evidence file.
func (c *Ctx) Note(format string, a ...any) { c.Info = append(c.Info, fmt.Sprintf(format, a...)) }

// Touch records that a function was analysed.
func (c *Ctx) Touch(f *Func) {
	if f != nil {
		c.funcs[f.Name] = true
	}
}

func (c *Ctx) add(rule, construct string, pos token.Pos, status string, nontrivial bool, detail string) {
	rule = c.ruleName(rule)
	if _, ok := c.rules[rule]; !ok {
		panic("rule not registered: " + rule)
	}
	ps := "-"
	if c.Prog != nil {
		ps = c.Prog.Pos(pos)
	}
	c.Obls = append(c.Obls, Obligation{Rule: rule, Construct: construct, Pos: ps, Status: status, Detail: detail, Nontrivial: nontrivial})
}

// OK discharges an obligation.
func (c *Ctx) OK(rule, construct string, pos token.Pos, format string, a ...any) {
	c.add(rule, construct, pos, Discharged, true, fmt.Sprintf(format, a...))
}

// Bad records a violated obligation.
func (c *Ctx) Bad(rule, construct string, pos token.Pos, format string, a ...any) {
	c.add(rule, construct, pos, Violated, true, fmt.Sprintf(format, a...))
}

// Unres records an obligation that could not be decided (anchor missing,
// code outside the rule's fragment). It counts as a failure.
func (c *Ctx) Unres(rule, construct string, pos token.Pos, format string, a ...any) {
	c.add(rule, construct, pos, Unresolved, true, fmt.Sprintf(format, a...))
}

// Check is OK or Bad depending on cond.
func (c *Ctx) Check(cond bool, rule, construct string, pos token.Pos, okDetail, badDetail string) bool {
	if cond {
		c.OK(rule, construct, pos, "%s", okDetail)
	} else {
		c.Bad(rule, construct, pos, "%s", badDetail)
	}
	return cond
}

// MustFunc resolves an anchored function; a missing anchor is recorded as
// unresolved under the given rule.
func (c *Ctx) MustFunc(rule, rel, name string) *Func {
	f := c.Prog.Func(rel, name)
	if f == nil {
		c.Unres(rule, filepath.Base(rel)+"."+name, token.NoPos, "anchor-unresolved: function %s.%s not found (renamed or deleted); the rule cannot be evaluated", rel, name)
		return nil
	}
	c.Touch(f)
	return f
}

// Finding is one line of known_findings.txt.
type Finding struct {
	Kind      string // "finding" or "fixed"
	Property  string
	Rule      string
	Construct string
	Text      string
}

// LoadFindings parses known_findings.txt.
func LoadFindings(path string) ([]Finding, error) {
	f, err := os.Open(path)
	if err != nil {
		if os.IsNotExist(err) {
			return nil, nil
		}
		return nil, err
	}
	defer f.Close()
	var out []Finding
	sc := bufio.NewScanner(f)
	sc.Buffer(make([]byte, 1<<20), 1<<20)
	for sc.Scan() {
		line := strings.TrimSpace(sc.Text())
		if line == "" || strings.HasPrefix(line, "#") {
			continue
		}
		var fd Finding
		switch {
		case strings.HasPrefix(line, "finding:"):
			fd.Kind = "finding"
			line = strings.TrimSpace(strings.TrimPrefix(line, "finding:"))
		case strings.HasPrefix(line, "fixed:"):
			fd.Kind = "fixed"
			line = strings.TrimSpace(strings.TrimPrefix(line, "fixed:"))
		default:
			return nil, fmt.Errorf("known_findings: unparsable line %q", line)
		}
		rest := line
		for {
			rest = strings.TrimSpace(rest)
			var k, v string
			if i := strings.IndexByte(rest, ' '); i >= 0 {
				k, v = rest[:i], rest[i+1:]
			} else {
				k, v = rest, ""
			}
			if strings.HasPrefix(k, "property=") {
				fd.Property = strings.TrimPrefix(k, "property=")
			} else if strings.HasPrefix(k, "rule=") {
				fd.Rule = strings.TrimPrefix(k, "rule=")
			} else if strings.HasPrefix(k, "construct=") {
				fd.Construct = strings.TrimPrefix(k, "construct=")
			} else {
				break
			}
			rest = v
		}
		fd.Text = rest
		out = append(out, fd)
	}
	return out, sc.Err()
}

// Evidence is the JSON written to evidence/<id>.json.
type Evidence struct {
	PropertyID  string         `json:"property_id"`
	Tier        string         `json:"tier"`
	Seed        int            `json:"seed"`
	Level       string         `json:"level"`
	Coverage    map[string]any `json:"coverage"`
	Assumptions []string       `json:"assumptions"`
	WallS       float64        `json:"wall_s"`
	Violations  int            `json:"violations"`
}

// Failures returns the obligations that are violated or unresolved,
// including floor failures, after marking known findings.
func (c *Ctx) finalize() (fails []Obligation, known []Obligation, stale []Finding) {
	// instance floors
	count := map[string]int{}
	for _, o := range c.Obls {
		count[o.Rule]++
	}
	for _, r := range c.ruleOrder {
		if count[r] < c.floors[r] {
			c.Obls = append(c.Obls, Obligation{Rule: r, Construct: "instance-floor", Pos: "-", Status: Unresolved, Nontrivial: true,
				Detail: fmt.Sprintf("rule matched %d instance(s), fewer than the %d confirmed by hand on the reference tree: the rule has lost its anchors and would pass vacuously", count[r], c.floors[r])})
		}
	}
	// duplicate keys get a numeric suffix so that each is addressable
	seen := map[string]int{}
	for i := range c.Obls {
		k := c.Obls[i].Key()
		seen[k]++
		if seen[k] > 1 {
			c.Obls[i].Construct += "#" + strconv.Itoa(seen[k])
		}
	}
	findings, err := LoadFindings(filepath.Join(c.VerifDir, "known_findings.txt"))
	if err != nil {
		c.Obls = append(c.Obls, Obligation{Rule: "known-findings-file", Construct: "known_findings.txt", Pos: "-", Status: Unresolved, Detail: err.Error()})
	}
	used := map[int]bool{}
	for i := range c.Obls {
		o := &c.Obls[i]
		if o.Status == Discharged {
			continue
		}
		if o.Status == Violated {
			for j, f := range findings {
				if f.Kind == "finding" && f.Property == c.Prop && f.Rule == o.Rule && f.Construct == o.Construct {
					o.Known = true
					used[j] = true
				}
			}
		}
		if o.Known {
			known = append(known, *o)
		} else {
			fails = append(fails, *o)
		}
	}
	for j, f := range findings {
		if f.Kind == "finding" && f.Property == c.Prop && !used[j] {
			stale = append(stale, f)
		}
	}
	return
}

// Finish writes evidence and replay files, prints the verdict lines and
// returns the process exit code.
func (c *Ctx) Finish() int {
	fails, known, stale := c.finalize()
	if c.Quiet {
		for _, o := range fails {
			fmt.Printf("  %s rule=%s construct=%s at %s: %s\n", strings.ToUpper(o.Status), o.Rule, o.Construct, o.Pos, o.Detail)
		}
		if len(fails) > 0 {
			return 1
		}
		return 0
	}
	discharged, nontriv := 0, map[string]bool{}
	for _, o := range c.Obls {
		if o.Status == Discharged {
			discharged++
			if o.Nontrivial {
				nontriv[o.Construct] = true
			}
		}
	}
	var expl []string
	for _, r := range c.ruleOrder {
		expl = append(expl, r+": "+c.rules[r])
	}
	samples := []any{}
	for _, o := range c.Obls {
		samples = append(samples, o)
	}
	var funcs []string
	for f := range c.funcs {
		funcs = append(funcs, f)
	}
	sort.Strings(funcs)
	var staleTxt []string
	for _, f := range stale {
		staleTxt = append(staleTxt, fmt.Sprintf("listed finding no longer violated (stale): rule=%s construct=%s", f.Rule, f.Construct))
	}
	seed, _ := strconv.Atoi(os.Getenv("VERIF_SEED"))
	cov := map[string]any{
		"explanation": "Static analysis of /repo's type-checked source (go/packages, go/ast, go/types, go/cfg; an abstract evaluator for functions read from that source). " +
			"Each obligation is a (rule, construct) pair; all must be discharged. Obligations decide structural necessary conditions of the property, not the behaviour as a whole. Rules: " + strings.Join(expl, " | "),
		"obligations":         len(c.Obls),
		"discharged":          discharged,
		"evaluations":         len(c.Obls),
		"distinct_nontrivial": len(nontriv),
		"rule":                "one case = one (rule, construct) obligation evaluated on the current source; distinct_nontrivial counts distinct constructs with at least one discharged obligation",
		"samples":             samples,
		"known_findings":      len(known),
		"functions_analysed":  funcs,
		"packages_loaded":     len(c.Prog.RelPkgs()),
		"files_sha256_8":      c.Prog.Files,
		"informational":       append(c.Info, staleTxt...),
		"exhaustive":          false,
	}
	for k, v := range c.extraCov {
		cov[k] = v
	}
	ev := Evidence{PropertyID: c.Prop, Tier: c.Tier, Seed: seed, Level: "other", Coverage: cov,
		Assumptions: append([]string{"go/types and go/cfg model the Go specification faithfully", "the Go toolchain at /opt/veriftools/go1.26.8 type-checks the tree exactly as the build does (no build-tagged files exist in the module)"}, c.assume...),
		WallS: time.Since(c.start).Seconds(), Violations: len(fails)}
	evDir := filepath.Join(c.VerifDir, "evidence")
	os.MkdirAll(evDir, 0o755)
	b, _ := json.MarshalIndent(ev, "", " ")
	if err := os.WriteFile(filepath.Join(evDir, c.Prop+".json"), append(b, '\n'), 0o644); err != nil {
		fmt.Fprintf(os.Stderr, "cannot write evidence: %v\n", err)
		return 2
	}
	fmt.Printf("%s %s: %d obligations, %d discharged, %d known finding(s), %d failure(s); %d functions analysed; %.1fs\n",
		c.Prop, c.Tier, len(c.Obls), discharged, len(known), len(fails), len(funcs), time.Since(c.start).Seconds())
	for _, o := range known {
		fmt.Printf("KNOWN-FINDING: property=%s rule=%s construct=%s at %s: %s\n", c.Prop, o.Rule, o.Construct, o.Pos, o.Detail)
	}
	for _, s := range staleTxt {
		fmt.Println("note: " + s)
	}
	if len(fails) == 0 {
		return 0
	}
	rpDir := filepath.Join(c.VerifDir, "replay", c.Prop)
	os.RemoveAll(rpDir)
	os.MkdirAll(rpDir, 0o755)
	for i, o := range fails {
		path := filepath.Join(rpDir, fmt.Sprintf("%02d.json", i+1))
		rb, _ := json.MarshalIndent(map[string]any{"property": c.Prop, "obligation": o, "rule_text": c.rules[o.Rule],
			"how_to_replay": fmt.Sprintf("cd /verif && ./run.sh %s %s   # re-analyses /repo's current source; this obligation is reported again while the construct is unchanged", c.Prop, c.Tier)}, "", " ")
		os.WriteFile(path, append(rb, '\n'), 0o644)
		fmt.Printf("%s rule=%s construct=%s at %s: %s\n", strings.ToUpper(o.Status), o.Rule, o.Construct, o.Pos, o.Detail)
		fmt.Printf("VIOLATION property=%s replay=%s\n", c.Prop, path)
	}
	return 1
}
