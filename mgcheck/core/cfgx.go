package core

import (
	"go/ast"
	"go/token"
	"go/types"

	"golang.org/x/tools/go/cfg"
)

// Graph is the control-flow graph of one function body (closures are
// separate graphs).
type Graph struct {
	CFG  *cfg.CFG
	Info *types.Info
	Fset *token.FileSet
	idom []int
}

// NoReturnCallees are calls after which control does not continue.
var noReturn = map[string]bool{"os.Exit": true, "log.Fatal": true, "log.Fatalf": true,
	"github.com/golang/glog.Fatal": true, "github.com/golang/glog.Fatalf": true, "github.com/golang/glog.Exit": true, "github.com/golang/glog.Exitf": true}

// BuildCFG builds the CFG of a function body.
func BuildCFG(fset *token.FileSet, info *types.Info, body *ast.BlockStmt) *Graph {
	g := &Graph{Info: info, Fset: fset}
	g.CFG = cfg.New(body, func(call *ast.CallExpr) bool {
		if id, ok := call.Fun.(*ast.Ident); ok && id.Name == "panic" {
			if _, isB := info.Uses[id].(*types.Builtin); isB {
				return false
			}
		}
		return !noReturn[CallName(info, call)]
	})
	return g
}

// CFGOf builds the CFG of f.
func (p *Program) CFGOf(f *Func) *Graph {
	return BuildCFG(p.Fset, f.Pkg.TypesInfo, f.Decl.Body)
}

// Ref addresses one node of the graph.
type Ref struct {
	B *cfg.Block
	I int
}

// Node returns the AST node.
func (r Ref) Node() ast.Node { return r.B.Nodes[r.I] }

// Each calls fn for every live node.
func (g *Graph) Each(fn func(Ref)) {
	for _, b := range g.CFG.Blocks {
		if !b.Live {
			continue
		}
		for i := range b.Nodes {
			fn(Ref{b, i})
		}
	}
}

// Find returns the nodes satisfying pred.
func (g *Graph) Find(pred func(ast.Node) bool) []Ref {
	var out []Ref
	g.Each(func(r Ref) {
		if pred(r.Node()) {
			out = append(out, r)
		}
	})
	return out
}

// Reach searches forward from the given start points (exclusive: the search
// begins after each start node; use Entry() to begin at function entry) for a
// node satisfying target, never continuing past a node satisfying avoid.
// The avoid test is applied before the target test on the same node only if
// avoidFirst is set. It returns the first target found and the line trail.
func (g *Graph) Reach(starts []Ref, target, avoid func(ast.Node) bool, avoidFirst bool) (Ref, bool) {
	type key struct {
		b *cfg.Block
	}
	seen := map[*cfg.Block]bool{}
	var found Ref
	ok := false
	var scan func(b *cfg.Block, from int)
	scan = func(b *cfg.Block, from int) {
		if ok {
			return
		}
		for i := from; i < len(b.Nodes); i++ {
			n := b.Nodes[i]
			if avoidFirst && avoid != nil && avoid(n) {
				return
			}
			if target(n) {
				found, ok = Ref{b, i}, true
				return
			}
			if avoid != nil && avoid(n) {
				return
			}
		}
		for _, s := range b.Succs {
			if !seen[s] {
				seen[s] = true
				scan(s, 0)
			}
		}
	}
	for _, st := range starts {
		if st.B == nil {
			continue
		}
		scan(st.B, st.I+1)
	}
	_ = key{}
	return found, ok
}

// Entry is the pseudo start reference (before the first node).
func (g *Graph) Entry() Ref {
	if len(g.CFG.Blocks) == 0 {
		return Ref{}
	}
	return Ref{g.CFG.Blocks[0], -1}
}

// Returns lists the return statements; a function that falls off its end
// has an implicit return that is reported with a nil node via FallsOff.
func (g *Graph) Returns() []Ref {
	return g.Find(func(n ast.Node) bool { _, ok := n.(*ast.ReturnStmt); return ok })
}

// dominators over blocks (simple iterative algorithm).
func (g *Graph) computeDom() {
	if g.idom != nil {
		return
	}
	bs := g.CFG.Blocks
	n := len(bs)
	preds := make([][]int, n)
	for _, b := range bs {
		for _, s := range b.Succs {
			preds[s.Index] = append(preds[s.Index], int(b.Index))
		}
	}
	// reverse postorder
	order := []int{}
	seen := make([]bool, n)
	var dfs func(i int)
	dfs = func(i int) {
		seen[i] = true
		for _, s := range bs[i].Succs {
			if !seen[s.Index] {
				dfs(int(s.Index))
			}
		}
		order = append(order, i)
	}
	dfs(0)
	rpo := make([]int, n)
	for i := range rpo {
		rpo[i] = -1
	}
	for i, j := 0, len(order)-1; j >= 0; i, j = i+1, j-1 {
		rpo[order[j]] = i
	}
	idom := make([]int, n)
	for i := range idom {
		idom[i] = -1
	}
	idom[0] = 0
	intersect := func(a, b int) int {
		for a != b {
			for rpo[a] > rpo[b] {
				a = idom[a]
			}
			for rpo[b] > rpo[a] {
				b = idom[b]
			}
		}
		return a
	}
	changed := true
	for changed {
		changed = false
		for j := len(order) - 1; j >= 0; j-- {
			b := order[j]
			if b == 0 {
				continue
			}
			nd := -1
			for _, p := range preds[b] {
				if idom[p] == -1 {
					continue
				}
				if nd == -1 {
					nd = p
				} else {
					nd = intersect(p, nd)
				}
			}
			if nd != -1 && idom[b] != nd {
				idom[b] = nd
				changed = true
			}
		}
	}
	g.idom = idom
}

// Dominates reports whether block a dominates block b.
func (g *Graph) Dominates(a, b *cfg.Block) bool {
	g.computeDom()
	x := int(b.Index)
	for {
		if x == int(a.Index) {
			return true
		}
		if x <= 0 || g.idom[x] == -1 || g.idom[x] == x {
			return x == int(a.Index)
		}
		x = g.idom[x]
	}
}

// RefDominates reports whether node a executes before node b on every path
// from entry to b.
func (g *Graph) RefDominates(a, b Ref) bool {
	if a.B == b.B {
		return a.I < b.I
	}
	return g.Dominates(a.B, b.B)
}

// Cond is a branch condition known on the way to a block.
type Cond struct {
	Expr ast.Expr
	True bool
}

// PathConds returns the if-conditions that are decided on every path from
// entry to block b (walks the dominator chain; a condition counts when
// exactly one successor of the branching block dominates b).
func (g *Graph) PathConds(b *cfg.Block) []Cond {
	g.computeDom()
	var out []Cond
	x := int(b.Index)
	for x > 0 {
		d := g.idom[x]
		if d < 0 || d == x {
			break
		}
		db := g.CFG.Blocks[d]
		if len(db.Succs) == 2 && len(db.Nodes) > 0 {
			if e, ok := db.Nodes[len(db.Nodes)-1].(ast.Expr); ok {
				t, f := db.Succs[0], db.Succs[1]
				td := g.Dominates(t, b) && singlePred(g, t, db)
				fd := g.Dominates(f, b) && singlePred(g, f, db)
				if td && !fd {
					out = append(out, Cond{e, true})
				} else if fd && !td {
					out = append(out, Cond{e, false})
				}
			}
		}
		x = d
	}
	return out
}

// singlePred: s is entered only from p (so dominance by s implies the branch was taken).
func singlePred(g *Graph, s, p *cfg.Block) bool {
	cnt := 0
	for _, b := range g.CFG.Blocks {
		for _, x := range b.Succs {
			if x == s {
				cnt++
				if b != p {
					return false
				}
			}
		}
	}
	return cnt >= 1
}

// BlockOf finds the reference of the CFG node that contains pos.
func (g *Graph) RefAt(pos token.Pos) (Ref, bool) {
	var best Ref
	ok := false
	g.Each(func(r Ref) {
		n := r.Node()
		if n.Pos() <= pos && pos < n.End() {
			if !ok || (n.End()-n.Pos()) < (best.Node().End()-best.Node().Pos()) {
				best, ok = r, true
			}
		}
	})
	return best, ok
}
