// Package core holds the loader, lookup helpers, obligation bookkeeping and
// evidence/report writers shared by all property checks.
package core

import (
	"crypto/sha256"
	"encoding/hex"
	"fmt"
	"go/ast"
	"go/token"
	"go/types"
	"os"
	"path/filepath"
	"sort"
	"strings"

	"golang.org/x/tools/go/packages"
)

// ModulePath is the module path of the analysed repository.
const ModulePath = "codeberg.org/TauCeti/mangle-go"

// Program is the type-checked source of the repository under analysis.
type Program struct {
	Dir   string
	Fset  *token.FileSet
	Pkgs  []*packages.Package
	byRel map[string]*packages.Package // "engine" -> package
	Files map[string]string            // relative file -> sha256 (analysed files)
	GOOS, GOARCH string
}

// Load type-checks every package of the module rooted at dir from source.
// Any loader or type error is returned: the checks refuse to decide on a
// tree they could not fully analyse.
func Load(dir, goos, goarch string) (*Program, error) {
	env := os.Environ()
	if goos != "" {
		env = append(env, "GOOS="+goos)
	}
	if goarch != "" {
		env = append(env, "GOARCH="+goarch)
	}
	fset := token.NewFileSet()
	cfg := &packages.Config{
		Mode: packages.NeedName | packages.NeedFiles | packages.NeedCompiledGoFiles | packages.NeedImports |
			packages.NeedTypes | packages.NeedTypesSizes | packages.NeedSyntax | packages.NeedTypesInfo | packages.NeedModule,
		Dir:  dir,
		Fset: fset,
		Env:  env,
	}
	pkgs, err := packages.Load(cfg, "./...")
	if err != nil {
		return nil, fmt.Errorf("packages.Load: %w", err)
	}
	if len(pkgs) == 0 {
		return nil, fmt.Errorf("no packages loaded from %s", dir)
	}
	p := &Program{Dir: dir, Fset: fset, Pkgs: pkgs, byRel: map[string]*packages.Package{}, Files: map[string]string{}, GOOS: goos, GOARCH: goarch}
	var errs []string
	for _, pkg := range pkgs {
		for _, e := range pkg.Errors {
			errs = append(errs, e.Error())
		}
		if !strings.HasPrefix(pkg.PkgPath, ModulePath) {
			continue
		}
		rel := strings.TrimPrefix(strings.TrimPrefix(pkg.PkgPath, ModulePath), "/")
		if rel == "" {
			rel = "."
		}
		p.byRel[rel] = pkg
		for _, f := range pkg.CompiledGoFiles {
			r, err := filepath.Rel(dir, f)
			if err != nil || strings.HasPrefix(r, "..") {
				continue
			}
			b, err := os.ReadFile(f)
			if err != nil {
				errs = append(errs, err.Error())
				continue
			}
			h := sha256.Sum256(b)
			p.Files[r] = hex.EncodeToString(h[:8])
		}
	}
	if len(errs) > 0 {
		sort.Strings(errs)
		if len(errs) > 10 {
			errs = errs[:10]
		}
		return nil, fmt.Errorf("load/type errors: %s", strings.Join(errs, "; "))
	}
	if len(p.byRel) < 10 {
		return nil, fmt.Errorf("only %d module packages loaded from %s (expected the whole module)", len(p.byRel), dir)
	}
	return p, nil
}

// Pkg returns the package with the given module-relative path, or nil.
func (p *Program) Pkg(rel string) *packages.Package { return p.byRel[rel] }

// RelPkgs lists the module-relative package paths, sorted.
func (p *Program) RelPkgs() []string {
	var out []string
	for k := range p.byRel {
		out = append(out, k)
	}
	sort.Strings(out)
	return out
}

// Pos renders a position as repo-relative file:line.
func (p *Program) Pos(pos token.Pos) string {
	if !pos.IsValid() {
		return "-"
	}
	ps := p.Fset.Position(pos)
	r, err := filepath.Rel(p.Dir, ps.Filename)
	if err != nil {
		r = ps.Filename
	}
	return fmt.Sprintf("%s:%d", r, ps.Line)
}

// Func is a function or method declaration with its package.
type Func struct {
	Pkg  *packages.Package
	Decl *ast.FuncDecl
	Obj  *types.Func
	Name string // "engine.(*engine).eval" style display name
}

func recvTypeName(fd *ast.FuncDecl) (name string, ptr bool) {
	if fd.Recv == nil || len(fd.Recv.List) == 0 {
		return "", false
	}
	t := fd.Recv.List[0].Type
	if s, ok := t.(*ast.StarExpr); ok {
		ptr = true
		t = s.X
	}
	if ix, ok := t.(*ast.IndexExpr); ok {
		t = ix.X
	}
	if id, ok := t.(*ast.Ident); ok {
		return id.Name, ptr
	}
	return "", ptr
}

// FuncDisplayName returns e.g. "engine.(*engine).eval" or "engine.makeDeltaRules".
func FuncDisplayName(rel string, fd *ast.FuncDecl) string {
	base := filepath.Base(rel)
	rn, ptr := recvTypeName(fd)
	if rn == "" {
		return base + "." + fd.Name.Name
	}
	if ptr {
		return fmt.Sprintf("%s.(*%s).%s", base, rn, fd.Name.Name)
	}
	return fmt.Sprintf("%s.%s.%s", base, rn, fd.Name.Name)
}

// Func looks up a function by package (module-relative) and name. A method
// is written "Recv.Name" (pointer-ness of the receiver is ignored).
func (p *Program) Func(rel, name string) *Func {
	pkg := p.byRel[rel]
	if pkg == nil {
		return nil
	}
	recv, fn := "", name
	if i := strings.LastIndex(name, "."); i >= 0 {
		recv, fn = name[:i], name[i+1:]
	}
	for _, f := range pkg.Syntax {
		for _, d := range f.Decls {
			fd, ok := d.(*ast.FuncDecl)
			if !ok || fd.Name.Name != fn || fd.Body == nil {
				continue
			}
			rn, _ := recvTypeName(fd)
			if rn != recv {
				continue
			}
			obj, _ := pkg.TypesInfo.Defs[fd.Name].(*types.Func)
			return &Func{Pkg: pkg, Decl: fd, Obj: obj, Name: FuncDisplayName(rel, fd)}
		}
	}
	return nil
}

// AllFuncs returns every function declaration with a body in the package.
func (p *Program) AllFuncs(rel string) []*Func {
	pkg := p.byRel[rel]
	if pkg == nil {
		return nil
	}
	var out []*Func
	for _, f := range pkg.Syntax {
		for _, d := range f.Decls {
			fd, ok := d.(*ast.FuncDecl)
			if !ok || fd.Body == nil {
				continue
			}
			obj, _ := pkg.TypesInfo.Defs[fd.Name].(*types.Func)
			out = append(out, &Func{Pkg: pkg, Decl: fd, Obj: obj, Name: FuncDisplayName(rel, fd)})
		}
	}
	return out
}

// RelOf returns the module-relative path of a types.Package ("" if foreign).
func RelOf(pkg *types.Package) string {
	if pkg == nil {
		return ""
	}
	if pkg.Path() == ModulePath {
		return "."
	}
	if strings.HasPrefix(pkg.Path(), ModulePath+"/") {
		return strings.TrimPrefix(pkg.Path(), ModulePath+"/")
	}
	return ""
}

// Named looks up a package-level named type.
func (p *Program) Named(rel, name string) *types.Named {
	pkg := p.byRel[rel]
	if pkg == nil {
		return nil
	}
	obj := pkg.Types.Scope().Lookup(name)
	if obj == nil {
		return nil
	}
	tn, ok := obj.(*types.TypeName)
	if !ok {
		return nil
	}
	n, _ := tn.Type().(*types.Named)
	return n
}

// Object looks up any package-level object.
func (p *Program) Object(rel, name string) types.Object {
	pkg := p.byRel[rel]
	if pkg == nil {
		return nil
	}
	return pkg.Types.Scope().Lookup(name)
}

// IsGenerated reports whether the file of pos is in parse/gen.
func (p *Program) IsGenerated(pos token.Pos) bool {
	return strings.Contains(p.Fset.Position(pos).Filename, "/parse/gen/")
}
