package core

import (
	"bytes"
	"go/ast"
	"go/printer"
	"go/token"
	"go/types"
	"strings"

	"golang.org/x/tools/go/types/typeutil"
)

// Callee resolves the called object of a call expression (function, method,
// interface method or builtin); nil for calls of function values.
func Callee(info *types.Info, call *ast.CallExpr) types.Object {
	return typeutil.Callee(info, call)
}

// ObjName renders a function object as "<relpkg>.<Recv>.<Name>" or
// "<relpkg>.<Name>"; foreign packages keep their full path ("sort.Slice").
func ObjName(obj types.Object) string {
	if obj == nil {
		return ""
	}
	pkg := ""
	if obj.Pkg() != nil {
		if r := RelOf(obj.Pkg()); r != "" {
			pkg = r
		} else {
			pkg = obj.Pkg().Path()
		}
	}
	if fn, ok := obj.(*types.Func); ok {
		if sig, ok := fn.Type().(*types.Signature); ok && sig.Recv() != nil {
			t := sig.Recv().Type()
			if p, ok := t.(*types.Pointer); ok {
				t = p.Elem()
			}
			if n, ok := t.(*types.Named); ok {
				return pkg + "." + n.Obj().Name() + "." + fn.Name()
			}
			if a, ok := t.(*types.Alias); ok {
				return pkg + "." + a.Obj().Name() + "." + fn.Name()
			}
		}
	}
	if pkg == "" {
		return obj.Name()
	}
	return pkg + "." + obj.Name()
}

// CallName is ObjName(Callee(call)), or "" when unresolved.
func CallName(info *types.Info, call *ast.CallExpr) string {
	return ObjName(Callee(info, call))
}

// IsCallTo reports whether n is a call expression resolving to one of names.
func IsCallTo(info *types.Info, n ast.Node, names ...string) bool {
	call, ok := n.(*ast.CallExpr)
	if !ok {
		return false
	}
	cn := CallName(info, call)
	for _, nm := range names {
		if cn == nm {
			return true
		}
	}
	return false
}

// Walk visits the subtree of n; FuncLit bodies are skipped unless intoLits.
func Walk(n ast.Node, intoLits bool, fn func(ast.Node) bool) {
	if n == nil {
		return
	}
	ast.Inspect(n, func(m ast.Node) bool {
		if m == nil {
			return false
		}
		if _, ok := m.(*ast.FuncLit); ok && !intoLits && m != n {
			return false
		}
		return fn(m)
	})
}

// ContainsCall reports whether the subtree (closures excluded unless intoLits) calls one of names.
func ContainsCall(info *types.Info, n ast.Node, intoLits bool, names ...string) bool {
	found := false
	Walk(n, intoLits, func(m ast.Node) bool {
		if IsCallTo(info, m, names...) {
			found = true
		}
		return !found
	})
	return found
}

// FindCalls returns the calls to names in the subtree.
func FindCalls(info *types.Info, n ast.Node, intoLits bool, names ...string) []*ast.CallExpr {
	var out []*ast.CallExpr
	Walk(n, intoLits, func(m ast.Node) bool {
		if IsCallTo(info, m, names...) {
			out = append(out, m.(*ast.CallExpr))
		}
		return true
	})
	return out
}

// FieldSel resolves a selector to a struct field and returns "Owner.field"
// where Owner is the named struct type declaring it ("" otherwise).
func FieldSel(info *types.Info, e ast.Expr) string {
	sel, ok := ast.Unparen(e).(*ast.SelectorExpr)
	if !ok {
		return ""
	}
	s := info.Selections[sel]
	if s == nil || s.Kind() != types.FieldVal {
		return ""
	}
	v, ok := s.Obj().(*types.Var)
	if !ok {
		return ""
	}
	t := s.Recv()
	// walk embedded path to the struct that declares the field
	idx := s.Index()
	for i := 0; i < len(idx)-1; i++ {
		t = derefStruct(t).Field(idx[i]).Type()
	}
	if p, ok := t.(*types.Pointer); ok {
		t = p.Elem()
	}
	if n, ok := t.(*types.Named); ok {
		return n.Obj().Name() + "." + v.Name()
	}
	return "?." + v.Name()
}

func derefStruct(t types.Type) *types.Struct {
	if p, ok := t.Underlying().(*types.Pointer); ok {
		t = p.Elem()
	}
	s, _ := t.Underlying().(*types.Struct)
	return s
}

// MentionsField reports whether the subtree mentions field "Owner.field".
func MentionsField(info *types.Info, n ast.Node, intoLits bool, fields ...string) bool {
	found := false
	Walk(n, intoLits, func(m ast.Node) bool {
		if e, ok := m.(ast.Expr); ok {
			fs := FieldSel(info, e)
			for _, f := range fields {
				if fs == f {
					found = true
				}
			}
		}
		return !found
	})
	return found
}

// AssignsField reports whether stmt n assigns (=, :=, op=, ++/--) to the field.
func AssignsField(info *types.Info, n ast.Node, field string) bool {
	switch s := n.(type) {
	case *ast.AssignStmt:
		for _, l := range s.Lhs {
			if FieldSel(info, l) == field {
				return true
			}
		}
	case *ast.IncDecStmt:
		return FieldSel(info, s.X) == field
	}
	return false
}

// Src renders a node as source text on one line.
func Src(fset *token.FileSet, n ast.Node) string {
	if n == nil {
		return ""
	}
	var b bytes.Buffer
	printer.Fprint(&b, fset, n)
	s := b.String()
	s = strings.Join(strings.Fields(s), " ")
	if len(s) > 160 {
		s = s[:157] + "..."
	}
	return s
}

// SrcFull renders a node as source text on one line without truncation.
func SrcFull(fset *token.FileSet, n ast.Node) string {
	if n == nil {
		return ""
	}
	var b bytes.Buffer
	printer.Fprint(&b, fset, n)
	return strings.Join(strings.Fields(b.String()), " ")
}

// TypeName renders the named type of t as "<relpkg>.<Name>" ("" if unnamed).
func TypeName(t types.Type) string {
	if t == nil {
		return ""
	}
	if p, ok := t.(*types.Pointer); ok {
		t = p.Elem()
	}
	switch n := t.(type) {
	case *types.Named:
		if n.Obj().Pkg() == nil {
			return n.Obj().Name()
		}
		if r := RelOf(n.Obj().Pkg()); r != "" {
			return r + "." + n.Obj().Name()
		}
		return n.Obj().Pkg().Path() + "." + n.Obj().Name()
	case *types.Alias:
		return TypeName(types.Unalias(n))
	}
	return ""
}

// IsNilIdent reports whether e is the predeclared nil.
func IsNilIdent(info *types.Info, e ast.Expr) bool {
	id, ok := ast.Unparen(e).(*ast.Ident)
	if !ok {
		return false
	}
	_, isNil := info.Uses[id].(*types.Nil)
	return isNil
}

// ReturnsNonNilError reports whether ret's last result is syntactically a
// non-nil error: not the nil identifier. (A variable named err counts as
// non-nil only under the caller's path knowledge; see cfgx.)
func LastResult(ret *ast.ReturnStmt) ast.Expr {
	if ret == nil || len(ret.Results) == 0 {
		return nil
	}
	return ret.Results[len(ret.Results)-1]
}

// TypeSwitchInfo describes one type switch.
type TypeSwitchInfo struct {
	Stmt     *ast.TypeSwitchStmt
	TagExpr  ast.Expr
	TagType  types.Type
	Cases    map[string]*ast.CaseClause // type name -> clause
	Default  *ast.CaseClause
	CaseList []string
}

// TypeSwitches lists the type switches in the subtree (closures included).
func TypeSwitches(info *types.Info, n ast.Node) []*TypeSwitchInfo {
	var out []*TypeSwitchInfo
	ast.Inspect(n, func(m ast.Node) bool {
		ts, ok := m.(*ast.TypeSwitchStmt)
		if !ok {
			return true
		}
		ti := &TypeSwitchInfo{Stmt: ts, Cases: map[string]*ast.CaseClause{}}
		var ta *ast.TypeAssertExpr
		switch a := ts.Assign.(type) {
		case *ast.AssignStmt:
			ta, _ = ast.Unparen(a.Rhs[0]).(*ast.TypeAssertExpr)
		case *ast.ExprStmt:
			ta, _ = ast.Unparen(a.X).(*ast.TypeAssertExpr)
		}
		if ta != nil {
			ti.TagExpr = ta.X
			ti.TagType = info.TypeOf(ta.X)
		}
		for _, s := range ts.Body.List {
			cc := s.(*ast.CaseClause)
			if cc.List == nil {
				ti.Default = cc
				continue
			}
			for _, e := range cc.List {
				name := TypeName(info.TypeOf(e))
				if name == "" {
					name = types.ExprString(e)
				}
				if _, isPtr := info.TypeOf(e).(*types.Pointer); isPtr {
					name = "*" + name
				}
				ti.Cases[name] = cc
				ti.CaseList = append(ti.CaseList, name)
			}
		}
		out = append(out, ti)
		return true
	})
	return out
}

// FuncOf returns the declaration of a function object of the module, or nil.
func (p *Program) FuncOf(obj *types.Func) *Func {
	if obj == nil {
		return nil
	}
	rel := RelOf(obj.Pkg())
	if rel == "" {
		return nil
	}
	name := obj.Name()
	if sig, ok := obj.Type().(*types.Signature); ok && sig.Recv() != nil {
		t := sig.Recv().Type()
		if pt, ok := t.(*types.Pointer); ok {
			t = pt.Elem()
		}
		if n, ok := t.(*types.Named); ok {
			name = n.Obj().Name() + "." + name
		} else {
			return nil
		}
	}
	return p.Func(rel, name)
}

// StaticCallees returns the module functions that f calls statically
// (function and concrete-method calls resolved through go/types), including
// calls inside function literals, in source order without duplicates.
func (p *Program) StaticCallees(f *Func) []*Func {
	var out []*Func
	seen := map[string]bool{}
	ast.Inspect(f.Decl.Body, func(n ast.Node) bool {
		call, ok := n.(*ast.CallExpr)
		if !ok {
			return true
		}
		fn, _ := Callee(f.Pkg.TypesInfo, call).(*types.Func)
		if g := p.FuncOf(fn); g != nil && !seen[g.Name] {
			seen[g.Name] = true
			out = append(out, g)
		}
		return true
	})
	return out
}

// ReachableFuncs returns the functions reachable from the roots through
// static calls, restricted to the packages in rels (nil: the whole module),
// keyed by display name.
func (p *Program) ReachableFuncs(roots []*Func, rels map[string]bool) map[string]*Func {
	out := map[string]*Func{}
	var work []*Func
	for _, r := range roots {
		if r != nil && out[r.Name] == nil {
			out[r.Name] = r
			work = append(work, r)
		}
	}
	for len(work) > 0 {
		f := work[len(work)-1]
		work = work[:len(work)-1]
		for _, g := range p.StaticCallees(f) {
			if rels != nil && !rels[RelOf(g.Pkg.Types)] {
				continue
			}
			if out[g.Name] == nil {
				out[g.Name] = g
				work = append(work, g)
			}
		}
	}
	return out
}
