package props

import (
	"fmt"

	"mgcheck/core"
	"mgcheck/ordabs"
)

func init() { register("C12", checkC12) }

const (
	rC12Sound = "ORDABS.conformance-sound-for-membership"
	rC12Upper = "ORDABS.upper-bound-contains"
	rC12Lower = "ORDABS.lower-bound-within"
)

func tname(s string) hTerm { return hv(s) }

// typeUniverse returns closed first-order type expressions of depth <= 1 over a small base.
func typeUniverse() []hTerm {
	base := []hTerm{tname("/any"), tname("/name"), tname("/number"), tname("/string"), tname("/duration"), tname("/foo"), tname("/foo/bar"), tname("/foobar")}
	in := []hTerm{tname("/any"), tname("/number"), tname("/name"), tname("/foo"), tname("/foo/bar"), tname("/foobar")}
	out := append([]hTerm{}, base...)
	for _, b := range in {
		out = append(out, hf("fn:List", b))
	}
	for _, a := range []hTerm{tname("/number"), tname("/foo"), tname("/foo/bar")} {
		for _, b := range []hTerm{tname("/string"), tname("/any")} {
			out = append(out, hf("fn:Pair", a, b))
		}
	}
	for _, kx := range []hTerm{tname("/name"), tname("/foo"), tname("/foo/bar"), tname("/any")} {
		for _, v := range []hTerm{tname("/number"), tname("/any")} {
			out = append(out, hf("fn:Map", kx, v))
		}
	}
	for _, v := range []hTerm{tname("/number"), tname("/any"), tname("/foo"), tname("/foo/bar")} {
		out = append(out, hf("fn:Struct", tname("/a"), v))
	}
	for _, v := range []hTerm{tname("/number"), tname("/string")} {
		out = append(out, hf("fn:Struct", tname("/a"), tname("/number"), hf("fn:opt", tname("/b"), v)))
	}
	us := []hTerm{tname("/number"), tname("/string"), tname("/foo"), tname("/foo/bar"), tname("/foobar")}
	for i := range us {
		for j := i + 1; j < len(us); j++ {
			out = append(out, hf("fn:Union", us[i], us[j]))
		}
	}
	out = append(out, hf("fn:Union/parsed", tname("/number"), tname("/foo")), hf("fn:Union/parsed", tname("/string"), tname("/foo/bar")))
	out = append(out, hf("fn:Singleton", tname("/foo/x")), hf("fn:Singleton", hc(1)))
	// required against optional fields of the same name, optional against optional
	out = append(out, hf("fn:Struct", tname("/a"), tname("/string")),
		hf("fn:Struct", hf("fn:opt", tname("/a"), tname("/number"))),
		hf("fn:Struct", hf("fn:opt", tname("/a"), tname("/string"))),
		hf("fn:Struct", tname("/a"), tname("/number"), hf("fn:opt", tname("/b"), tname("/any"))))
	// tagged unions (a variant without fields that is not the last one; variants with a field)
	out = append(out,
		hf("fn:TaggedUnion", tname("/kind"), tname("/start"), hf("fn:Struct"), tname("/stop"), hf("fn:Struct", tname("/a"), tname("/number"))),
		hf("fn:TaggedUnion", tname("/kind"), tname("/start"), hf("fn:Struct"), tname("/mid"), hf("fn:Struct"), tname("/stop"), hf("fn:Struct", tname("/a"), tname("/number"))),
		hf("fn:Struct", tname("/kind"), hf("fn:Singleton", tname("/start"))),
		hf("fn:Struct", tname("/kind"), hf("fn:Singleton", tname("/stop")), tname("/a"), tname("/number")))
	return out
}

func constUniverse(k *typeKit) []*ordabs.Rec {
	n, s := k.name, k.str
	one, two := k.num(1), k.num(2)
	return []*ordabs.Rec{
		n("/foo/x"), n("/foo/bar/y"), n("/foobar/z"), n("/q"), n("/foo"), n("/duration/x"), n("/number/x"),
		one, two, s("s"), k.raw("DurationType", "", 5, nil, nil), k.raw("TimeType", "", 5, nil, nil), k.raw("Float64Type", "", 4607182418800017408, nil, nil),
		k.list(), k.list(one), k.list(n("/foo/x")), k.list(n("/foobar/z")), k.list(n("/foo/bar/y"), n("/foo/x")),
		k.pair(one, s("s")), k.pair(n("/foo/x"), one), k.pair(n("/foo/bar/y"), s("s")), k.pair(n("/foobar/z"), s("s")),
		k.mapc(), k.mapc(n("/foo/x"), one), k.mapc(n("/q"), one), k.mapc(n("/foobar/z"), s("s")), k.mapc(n("/foo/bar/y"), one), k.mapc(one, one),
		k.structc(n("/kind"), n("/start")), k.structc(n("/kind"), n("/mid")), k.structc(n("/kind"), n("/stop"), n("/a"), one), k.structc(n("/kind"), n("/other")), k.structc(),
		k.structc(n("/a"), one), k.structc(n("/a"), n("/foo/x")), k.structc(n("/a"), n("/foo/bar/y")), k.structc(n("/a"), one, n("/b"), s("s")), k.structc(n("/a"), one, n("/b"), one), k.structc(n("/a"), s("s")),
	}
}

// structLike: struct types and tagged unions (unions of struct types).
func structLike(t hTerm) bool { return t.name == "fn:Struct" || t.name == "fn:TaggedUnion" }

// typeLabels returns the field labels a struct-like type mentions (required or optional, in any variant).
func typeLabels(t hTerm) map[string]bool {
	out := map[string]bool{}
	var fromStruct func(s hTerm)
	fromStruct = func(s hTerm) {
		for i := 0; i < len(s.args); i++ {
			a := s.args[i]
			if a.kind == "fn" && a.name == "fn:opt" {
				if len(a.args) > 0 {
					out[a.args[0].name] = true
				}
				continue
			}
			out[a.name] = true
			i++ // skip the field's type
		}
	}
	switch t.name {
	case "fn:Struct":
		fromStruct(t)
	case "fn:TaggedUnion":
		if len(t.args) > 0 {
			out[t.args[0].name] = true
		}
		for i := 2; i < len(t.args); i += 2 {
			fromStruct(t.args[i])
		}
	}
	return out
}

// hasLabelOutside: the constant is a struct value with a field whose label is not in labels (the witness of a
// width-subtyping violation: closed-record membership rejects it, the width rule of conformance ignores it).
func hasLabelOutside(k *typeKit, cst *ordabs.Rec, labels map[string]bool) bool {
	if t, _ := cst.Fields["Type"].(int64); t != k.tag["StructShape"] {
		return false
	}
	fst, _ := cst.Fields["fst"].(*ordabs.Obj)
	snd, _ := cst.Fields["snd"].(*ordabs.Obj)
	for fst != nil {
		if lab, _ := fst.Fields["fst"].(*ordabs.Obj); lab != nil {
			if !labels[fmt.Sprint(lab.Fields["Symbol"])] {
				return true
			}
		}
		if snd == nil {
			break
		}
		fst, _ = snd.Fields["fst"].(*ordabs.Obj)
		snd, _ = snd.Fields["snd"].(*ordabs.Obj)
	}
	return false
}

// tagOutside: the constant is a struct value whose tag field holds a name that is not one of the tagged union's tags.
func tagOutside(k *typeKit, cst *ordabs.Rec, tu hTerm) bool {
	if t, _ := cst.Fields["Type"].(int64); t != k.tag["StructShape"] || len(tu.args) == 0 {
		return false
	}
	tags := map[string]bool{}
	for i := 1; i < len(tu.args); i += 2 {
		tags[tu.args[i].name] = true
	}
	fst, _ := cst.Fields["fst"].(*ordabs.Obj)
	snd, _ := cst.Fields["snd"].(*ordabs.Obj)
	for fst != nil {
		lab, _ := fst.Fields["fst"].(*ordabs.Obj)
		val, _ := fst.Fields["snd"].(*ordabs.Obj)
		if lab != nil && val != nil && fmt.Sprint(lab.Fields["Symbol"]) == tu.args[0].name {
			return !tags[fmt.Sprint(val.Fields["Symbol"])]
		}
		if snd == nil {
			break
		}
		fst, _ = snd.Fields["fst"].(*ordabs.Obj)
		snd, _ = snd.Fields["snd"].(*ordabs.Obj)
	}
	return false
}

func checkC12(c *core.Ctx) {
	c.Rule(rC12Sound, "SetConforms and TypeHandle.HasType are read from source and evaluated over a universe of about 55 closed type expressions (base types, name-prefix types that are string prefixes of one another, list, pair, map, struct with and without optional fields, unions, singletons) and 34 constants of every shape: whenever conformance S <: T is affirmed, every constant that is a member of S is a member of T", 3)
	c.Rule(rC12Upper, "UpperBound of every pair of these types contains every member of either", 1)
	c.Rule(rC12Lower, "LowerBound of every pair of these types contains only constants that are members of both", 1)
	c12Evaluate(c, rC12Sound, rC12Upper, rC12Lower)
}

func c12Evaluate(c *core.Ctx, rSound, rUpper, rLower string) {
	conf := c.MustFunc(rSound, "symbols", "SetConforms")
	has := c.MustFunc(rSound, "symbols", "TypeHandle.HasType")
	c.MustFunc(rSound, "symbols", "TypeConforms")
	c.MustFunc(rSound, "symbols", "hasBaseType")
	k := newTypeKit(c, rSound)
	if conf == nil || has == nil || !k.ok {
		return
	}
	in := k.newTypeInterp()
	types := typeUniverse()
	consts := constUniverse(k)
	tv := make([]ordabs.Value, len(types))
	for i, t := range types {
		tv[i] = k.typ(t)
	}
	// membership table
	member := make([][]bool, len(types))
	hasType := func(tval ordabs.Value, cst *ordabs.Rec) (bool, error) {
		th := &ordabs.Rec{Fields: map[string]ordabs.Value{"expr": tval, "ctx": (*ordabs.Map)(nil)}, T: "symbols.TypeHandle"}
		in.Reset()
		in.Fuel = 400000
		out, err := in.Call(has, th, []ordabs.Value{cst})
		if err != nil {
			return false, err
		}
		b, _ := out[0].(bool)
		return b, nil
	}
	for i := range types {
		member[i] = make([]bool, len(consts))
		for j, cst := range consts {
			b, err := hasType(tv[i], cst)
			if !runORD(c, rSound, has.Name, has, err) {
				return
			}
			member[i][j] = b
		}
	}
	c.Cover("types", len(types))
	c.Cover("constants", len(consts))
	// sanity of the universe: every constant is a member of /any and of at least one other type
	nonTrivial := 0
	for i := range types {
		for j := range consts {
			if member[i][j] && types[i].String() != "/any" {
				nonTrivial++
			}
		}
	}
	// known finding: map keys are contravariant in TypeConforms although membership is covariant
	var soundBad, mapBad, structBad, tagBad string
	affirmed := 0
	for i := range types {
		for j := range types {
			in.Reset()
			in.Fuel = 400000
			out, err := in.Call(conf, nil, []ordabs.Value{(*ordabs.Map)(nil), tv[i], tv[j]})
			if !runORD(c, rSound, conf.Name, conf, err) {
				return
			}
			if b, _ := out[0].(bool); !b {
				continue
			}
			affirmed++
			for x := range consts {
				if member[i][x] && !member[j][x] {
					msg := fmt.Sprintf("%s <: %s is affirmed, but %s is a member of the first and not of the second", types[i], types[j], k.render(consts[x]))
					switch {
					case types[i].name == "fn:Map" && types[j].name == "fn:Map":
						if mapBad == "" {
							mapBad = msg
						}
					case types[j].name == "fn:TaggedUnion" && structLike(types[i]) && tagOutside(k, consts[x], types[j]):
						// the right-hand tagged union is compared with its tag widened to /name
						if tagBad == "" {
							tagBad = msg
						}
					case structLike(types[i]) && structLike(types[j]) && hasLabelOutside(k, consts[x], typeLabels(types[j])):
						// the left type mentions a field the right one does not: the width rule
						if structBad == "" {
							structBad = msg
						}
					default:
						if soundBad == "" {
							soundBad = msg
						}
					}
				}
			}
		}
	}
	c.Cover("conformances_affirmed", affirmed)
	c.Check(soundBad == "" && nonTrivial > 100, rSound, conf.Name, conf.Decl.Pos(), fmt.Sprintf("%d affirmed conformances among %d pairs, all sound for the %d constants (%d non-trivial memberships)", affirmed, len(types)*len(types), len(consts), nonTrivial), soundBad)
	c.Check(mapBad == "", rSound, conf.Name+":map-key-variance", conf.Decl.Pos(), "map types are compared covariantly in the key", mapBad)
	c.Check(structBad == "", rSound, conf.Name+":struct-width", conf.Decl.Pos(), "struct conformance agrees with struct membership", structBad)
	c.Check(tagBad == "", rSound, conf.Name+":tagged-union-tag", conf.Decl.Pos(), "conformance to a tagged union respects its set of tags", tagBad)

	// bounds
	if rUpper == "" {
		return
	}
	up := c.MustFunc(rUpper, "symbols", "UpperBound")
	lo := c.MustFunc(rLower, "symbols", "LowerBound")
	c.MustFunc(rLower, "symbols", "intersectType")
	if up == nil || lo == nil {
		return
	}
	upBad, loBad := "", ""
	n := 0
	for i := range types {
		for j := range types {
			if (types[i].name == "fn:TaggedUnion" && types[j].name == "fn:TaggedUnion" && types[i].String() != types[j].String()) ||
				(types[i].name == "fn:Map" && types[j].name == "fn:Map") || (structLike(types[i]) && structLike(types[j]) && fmt.Sprint(sortedKeys(typeLabels(types[i]))) != fmt.Sprint(sortedKeys(typeLabels(types[j])))) {
				continue // bounds of two map types / two struct types inherit the two recorded conformance findings
			}
			args := []ordabs.Value{tv[i], tv[j]}
			in.Reset()
			in.Fuel = 800000
			out, err := in.Call(up, nil, []ordabs.Value{(*ordabs.Map)(nil), &ordabs.Slice{Elems: &args}})
			if !runORD(c, rUpper, up.Name, up, err) {
				return
			}
			ub := out[0]
			in.Reset()
			in.Fuel = 800000
			out, err = in.Call(lo, nil, []ordabs.Value{(*ordabs.Map)(nil), &ordabs.Slice{Elems: &args}})
			if !runORD(c, rLower, lo.Name, lo, err) {
				return
			}
			lb := out[0]
			n++
			for x, cst := range consts {
				if member[i][x] || member[j][x] {
					b, err := hasType(ub, cst)
					if !runORD(c, rUpper, up.Name, up, err) {
						return
					}
					if !b && upBad == "" {
						upBad = fmt.Sprintf("UpperBound(%s, %s) does not contain %s, a member of one of them", types[i], types[j], k.render(cst))
					}
				}
				b, err := hasType(lb, cst)
				if !runORD(c, rLower, lo.Name, lo, err) {
					return
				}
				if b && !(member[i][x] && member[j][x]) && loBad == "" {
					loBad = fmt.Sprintf("LowerBound(%s, %s) contains %s, which is not a member of both", types[i], types[j], k.render(cst))
				}
			}
		}
	}
	c.Check(upBad == "", rUpper, up.Name, up.Decl.Pos(), fmt.Sprintf("contains all members on %d type pairs", n), upBad)
	c.Check(loBad == "", rLower, lo.Name, lo.Decl.Pos(), fmt.Sprintf("contains only common members on %d type pairs", n), loBad)
}
