package props

import (
	"fmt"

	"mgcheck/core"
	"mgcheck/ordabs"
)

const (
	rC10Unesc = "ORDABS.unescape-total"
	rC10File  = "ORDABS.fact-file-readers-total"
	rC10Bound = "ORDABS.bound-rows-match-arity"
	rC10Wire  = "ORDABS.decls-checked-before-desugaring"
)

func c10Abstract(c *core.Ctx) {
	c.Rule(rC10Unesc, "ast.Unescape / unescapeCharPrefix are read from source and evaluated on every string of up to four characters over an alphabet that contains every character the decoder branches on (backslash, x, u, braces, hex and non-hex letters, quotes, a 2-byte rune, an invalid byte), and on every truncation and one-character corruption of each escape form, in text and bytes mode: each evaluation returns (index, slice and conversion panics are reported)", 2)
	c.Rule(rC10File, "readHeader, readPred, ReadInto, NewSimpleColumnStore and SimpleColumnStore.GetFacts are evaluated on every sequence of up to four lines over an alphabet of well-formed, truncated and corrupted header and column lines (empty line, negative and huge counts, non-numeric fields, bad predicate names, bad percent escapes): each evaluation returns", 2)
	c.Rule(rC10Bound, "declChecker.checkBound is evaluated for every combination of declared arity 0..3 and bound-row length 0..4: it records an error exactly when they differ; symbols' desugaring of one declaration is evaluated on every accepted combination and returns", 2)
	c.Rule(rC10Wire, "Analyzer.Analyze, read from source and evaluated with recording stages: CheckDecl sees every user declaration, and a declaration it rejects (at any position) stops Analyze before anything reaches symbols.CheckAndDesugar (whose row indexing relies on rows matching the arity)", 1)
	c10Unescape(c)
	c10Files(c)
	c10Bounds(c)
	c10Descriptors(c)
	c10Modes(c)
	c10MergeDelta(c)
	c.Rule("ORDABS.inference-takes-every-literal-shape", "bounds checking (newBoundsAnalyzer, BoundsCheck and the type inference below them), read from source and evaluated on the small-program family, among it rules that read their body through a temporal literal with an operator and without an interval annotation: it returns on every program - no nil interval is dereferenced (obligation shared with C11)", 1)
	c.Under("ORDABS.inference-takes-every-literal-shape", []string{rC11Infer}, func() { c11Inference(c) })
	c10FunctionPositions(c)
	c.Rule("ORDABS.group-by-keys-are-variables", "the grouping code asserts that every group_by key is a variable: RewriteClause and CheckRule, read from source and evaluated on aggregating clauses whose group_by names a constant next to a variable (every one- and two-premise body of the C04 family), reject every such clause (obligation shared with C04)", 2)
	c.Under("ORDABS.group-by-keys-are-variables", []string{rC04Perm, rC04Safe, rC04Eval}, func() {
		c04OnlyHead, c04FnClass = 6, false
		defer func() { c04OnlyHead, c04FnClass = -1, true }()
		c04Corpus(c)
	})
}

func c10Unescape(c *core.Ctx) {
	un := c.MustFunc(rC10Unesc, "ast", "Unescape")
	c.MustFunc(rC10Unesc, "ast", "unescapeCharPrefix")
	if un == nil {
		return
	}
	in := ordabs.New(c.Prog)
	in.InstallErrorStubs()
	in.InstallStringStubs()
	alpha := []string{`\`, "x", "u", "{", "}", "0", "f", "g", "F", `"`, "n", "é", "\xff", "\n"}
	var inputs []string
	var gen func(prefix string, n int)
	gen = func(prefix string, n int) {
		inputs = append(inputs, prefix)
		if n == 0 {
			return
		}
		for _, a := range alpha {
			gen(prefix+a, n-1)
		}
	}
	gen("", 4)
	// truncations and corruptions of the long forms
	for _, full := range []string{`\x41`, `\u{0041}`, `\u{1f600}`, `\u{10ffff}`, `\u{ffffff}`, `\u{110000}`, `\u{d800}`, `\u{00000041}`, `a\u{41}b`, `\u{}`, `\u{g}`, "\\\n", `\'`, `\"`, `\\`, `\t`, `\q`} {
		for i := 0; i <= len(full); i++ {
			inputs = append(inputs, full[:i])
			for _, a := range []string{"g", "{", "}", `\`, "\xff"} {
				if i < len(full) {
					inputs = append(inputs, full[:i]+a+full[i+1:])
				}
			}
		}
	}
	for _, bytesMode := range []bool{false, true} {
		mode := map[bool]string{false: "text", true: "bytes"}[bytesMode]
		ok := true
		for _, s := range inputs {
			in.Reset()
			in.Fuel = 200000
			_, err := in.Call(un, nil, []ordabs.Value{s, bytesMode})
			if err != nil {
				if !runORD(c, rC10Unesc, fmt.Sprintf("%s:%s:input=%q", un.Name, mode, s), un, err) {
					ok = false
					break
				}
			}
		}
		if ok {
			c.OK(rC10Unesc, un.Name+":"+mode, un.Decl.Pos(), "%d inputs, every evaluation returns", len(inputs))
		}
	}
}

func c10Files(c *core.Ctx) {
	r := newC19Rig(c, rC10File, false)
	if !r.ok {
		return
	}
	lines := []string{"", "0", "1", "2", "-1", "99999999999999999999", "x", "p 1 1", "p 1 2", "p 0 1", "p 0 0", "p 2 1", "p -1 1", "p 1 -1", "p 1", "p 1 1 1", "p x 1", "p 1 99999999999", "P! 1 1", "/a", "/%zz", "/", "\"s\"", "p 100000 1"}
	r.vals = map[string]*ordabs.Rec{}
	for _, t := range []*ct{{kind: "name", s: "/a"}, {kind: "str", s: "s"}} {
		v := r.k.build(rC10File, t, false)
		if v == nil {
			return
		}
		r.vals[r.k.str(rC10File, v)] = v
	}
	var seqs [][]string
	var gen func(prefix []string, n int)
	gen = func(prefix []string, n int) {
		seqs = append(seqs, append([]string(nil), prefix...))
		if n == 0 {
			return
		}
		for _, l := range lines {
			gen(append(prefix, l), n-1)
		}
	}
	gen(nil, 3)
	// longer files around the interesting headers
	for _, hdr := range [][]string{{"1", "p 1 2"}, {"2", "p 1 1", "q 2 1"}, {"2", "p 0 1", "q 1 2"}, {"1", "p 2 2"}} {
		for _, body := range [][]string{{}, {"/a"}, {"/a", ""}, {"/a", "/a"}, {"", ""}, {"/a", "/a", "/a"}, {"/a", "/%zz", "/a", "/a"}, {"/a", "/a", "/a", "/a", "/a"}} {
			seqs = append(seqs, append(append([]string(nil), hdr...), body...))
		}
	}
	sc := &ordabs.Rec{T: "factstore.SimpleColumn", Fields: map[string]ordabs.Value{"Deterministic": false}}
	okEager, okLazy := true, true
	queries := 0
	for _, seq := range seqs {
		if okEager {
			r.added = nil
			r.in.Reset()
			r.in.Fuel = 1000000
			_, err := r.in.Call(r.readI, sc, []ordabs.Value{linesValue(seq), &ordabs.Obj{Name: "target", Opaque: true}})
			if err != nil && !runORD(c, rC10File, fmt.Sprintf("%s:file=%q", r.readI.Name, seq), r.readI, err) {
				okEager = false
			}
		}
		if !okLazy {
			continue
		}
		input := &ordabs.Stub{Fn: func(in *ordabs.Interp, _ []ordabs.Value) ([]ordabs.Value, error) {
			return []ordabs.Value{linesValue(seq), nil}, nil
		}}
		r.in.Reset()
		out, err := r.in.Call(r.newSt, nil, []ordabs.Value{input})
		if err != nil {
			if !runORD(c, rC10File, fmt.Sprintf("%s:file=%q", r.newSt.Name, seq), r.newSt, err) {
				okLazy = false
			}
			continue
		}
		st, _ := out[0].(*ordabs.Obj)
		if out[1] != nil || st == nil {
			continue
		}
		for _, q := range []struct {
			sym   string
			arity int
		}{{"p", 1}, {"p", 0}, {"p", 2}, {"q", 1}, {"q", 2}, {"p", 3}} {
			var args []ordabs.Value
			for i := 0; i < q.arity && i < 3; i++ {
				args = append(args, &ordabs.Rec{T: "ast.Variable", Fields: map[string]ordabs.Value{"Symbol": fmt.Sprintf("X%d", i)}})
			}
			var av ordabs.Value
			if args != nil {
				av = &ordabs.Slice{Elems: &args}
			}
			atom := &ordabs.Rec{T: "ast.Atom", Fields: map[string]ordabs.Value{
				"Predicate": &ordabs.Rec{T: "ast.PredicateSym", Fields: map[string]ordabs.Value{"Symbol": q.sym, "Arity": int64(q.arity)}}, "Args": av}}
			cb := &ordabs.Stub{Fn: func(in *ordabs.Interp, a []ordabs.Value) ([]ordabs.Value, error) { return []ordabs.Value{nil}, nil }}
			r.in.Reset()
			r.in.Fuel = 1000000
			_, err := r.in.Call(r.getF, st, []ordabs.Value{atom, cb})
			queries++
			if err != nil && !runORD(c, rC10File, fmt.Sprintf("%s:file=%q:query=%s/%d", r.getF.Name, seq, q.sym, q.arity), r.getF, err) {
				okLazy = false
				break
			}
		}
	}
	if okEager {
		c.OK(rC10File, r.readI.Name, r.readI.Decl.Pos(), "%d line sequences, every evaluation returns", len(seqs))
	}
	if okLazy {
		c.OK(rC10File, r.getF.Name, r.getF.Decl.Pos(), "%d line sequences, %d queries, every evaluation returns", len(seqs), queries)
	}
}

func c10Bounds(c *core.Ctx) {
	chk := c.MustFunc(rC10Bound, "analysis", "declChecker.checkBound")
	des := c.MustFunc(rC10Bound, "symbols", "desugar.desugarOneDecl")
	if chk == nil || des == nil {
		return
	}
	k := &astKit{c: c, ok: true}
	in := ordabs.New(c.Prog)
	in.InstallErrorStubs()
	in.Stubs["symbols.WellformedBound"] = func(in *ordabs.Interp, _ ordabs.Value, _ []ordabs.Value) ([]ordabs.Value, error) {
		return []ordabs.Value{nil}, nil
	}
	in.Stubs["ast.NewBoundDecl"] = func(in *ordabs.Interp, _ ordabs.Value, a []ordabs.Value) ([]ordabs.Value, error) {
		var bs ordabs.Value
		if len(a) > 0 {
			bs = a[0]
		}
		return []ordabs.Value{&ordabs.Rec{T: "ast.BoundDecl", Fields: map[string]ordabs.Value{"Bounds": bs}}}, nil
	}
	in.Stubs["ast.NewAtom"] = func(in *ordabs.Interp, _ ordabs.Value, a []ordabs.Value) ([]ordabs.Value, error) {
		return []ordabs.Value{k.atom("desugared", 0)}, nil
	}
	in.Stubs["symbols.unique"] = func(in *ordabs.Interp, _ ordabs.Value, a []ordabs.Value) ([]ordabs.Value, error) {
		return []ordabs.Value{a[1]}, nil
	}
	bound := func() ordabs.Value {
		return &ordabs.Rec{T: "ast.Constant", Fields: map[string]ordabs.Value{"Type": int64(0), "Symbol": "/any", "NumValue": int64(0), "fst": (*ordabs.Obj)(nil), "snd": (*ordabs.Obj)(nil)}}
	}
	row := func(n int) *ordabs.Rec {
		es := []ordabs.Value{}
		for i := 0; i < n; i++ {
			es = append(es, bound())
		}
		return &ordabs.Rec{T: "ast.BoundDecl", Fields: map[string]ordabs.Value{"Bounds": &ordabs.Slice{Elems: &es}}}
	}
	bad := ""
	okDes := true
	n := 0
	for arity := 0; arity <= 3; arity++ {
		for rl := 0; rl <= 4; rl++ {
			atom := k.atom("p", int64(arity))
			var vars []ordabs.Value
			for i := 0; i < arity; i++ {
				vars = append(vars, &ordabs.Rec{T: "ast.Variable", Fields: map[string]ordabs.Value{"Symbol": fmt.Sprintf("X%d", i)}})
			}
			if vars != nil {
				atom.Fields["Args"] = &ordabs.Slice{Elems: &vars}
			}
			if !k.ok {
				c.Unres(rC10Bound, chk.Name, chk.Decl.Pos(), "anchor-unresolved")
				return
			}
			decl := k.zero("ast", "Decl")
			decl.Fields["DeclaredAtom"] = atom
			rows := []ordabs.Value{row(rl)}
			decl.Fields["Bounds"] = &ordabs.Slice{Elems: &rows}
			checker := &ordabs.Obj{Name: "checker", T: "analysis.declChecker", Fields: map[string]ordabs.Value{"decl": decl, "errs": (*ordabs.Slice)(nil)}}
			in.Reset()
			_, err := in.Call(chk, checker, []ordabs.Value{atom, row(rl)})
			if !runORD(c, rC10Bound, chk.Name, chk, err) {
				return
			}
			n++
			errs, _ := checker.Fields["errs"].(*ordabs.Slice)
			rejected := errs != nil && len(*errs.Elems) > 0
			if rejected != (arity != rl) && bad == "" {
				bad = fmt.Sprintf("a declaration of arity %d with a bound row of %d entries is %s", arity, rl, map[bool]string{true: "rejected", false: "accepted: the desugarer indexes a slice of length arity with the row's positions"}[rejected])
			}
			if arity != rl || !okDes {
				continue
			}
			// accepted: desugaring must return
			sym := atom.Fields["Predicate"]
			decls := ordabs.NewMap()
			decls.M[ordabs.KeyString(sym)] = decl
			decls.Keys[ordabs.KeyString(sym)] = sym
			d := &ordabs.Obj{Name: "desugar", T: "symbols.desugar", Fields: map[string]ordabs.Value{"decls": decls, "desugared": ordabs.NewMap(), "seen": ordabs.NewMap(), "errs": (*ordabs.Slice)(nil)}}
			in.Reset()
			_, err = in.Call(des, d, []ordabs.Value{sym})
			if err != nil && !runORD(c, rC10Bound, fmt.Sprintf("%s:arity=%d", des.Name, arity), des, err) {
				okDes = false
			}
		}
	}
	c.Check(bad == "", rC10Bound, chk.Name, chk.Decl.Pos(), fmt.Sprintf("%d combinations: an error exactly when row length and arity differ", n), bad)
	if okDes {
		c.OK(rC10Bound, des.Name, des.Decl.Pos(), "desugaring returns on every accepted combination")
	}
	analyzePipeline(c, rC10Wire, "")
}
