package props

import (
	"fmt"
	"go/ast"
	"strings"

	"mgcheck/core"
	"mgcheck/ordabs"
)

// c01PremiseDispatch: which store each premise kind reads.
func c01PremiseDispatch(c *core.Ctx) {
	f := c.MustFunc(rC01Prem, "engine", "engine.oneStepEvalPremise")
	if f == nil {
		return
	}
	info := f.Pkg.TypesInfo
	for _, ts := range core.TypeSwitches(info, f.Decl.Body) {
		if core.TypeName(ts.TagType) != "ast.Term" {
			continue
		}
		if cc := ts.Cases["ast.NegAtom"]; cc != nil {
			calls := core.FindCalls(info, cc, false, "engine.premiseNegAtom")
			ok := len(calls) == 1 && core.FieldSel(info, calls[0].Args[1]) == "engine.store"
			arg := ""
			if len(calls) == 1 {
				arg = core.Src(c.Prog.Fset, calls[0].Args[1])
			}
			c.Check(ok, rC01Prem, f.Name+":NegAtom", cc.Pos(), "negation is judged against e.store", "a negated atom must be evaluated by premiseNegAtom against the full store e.store (found store argument \""+arg+"\"): judged against a delta it would hold although the fact was derived earlier")
		} else {
			c.Bad(rC01Prem, f.Name+":NegAtom", f.Decl.Pos(), "no case for negated atoms")
		}
		if cc := ts.Cases["ast.Atom"]; cc != nil {
			// if isDeltaPredicate(...) { ... e.deltaStore ... } else { ... e.store ... }
			var okThen, okElse bool
			ast.Inspect(cc, func(n ast.Node) bool {
				is, ok := n.(*ast.IfStmt)
				if !ok || !core.ContainsCall(info, is.Cond, false, "engine.isDeltaPredicate") {
					return true
				}
				if u, isNot := ast.Unparen(is.Cond).(*ast.UnaryExpr); isNot && u.Op.String() == "!" {
					okElse = core.MentionsField(info, is.Body, true, "engine.deltaStore") == false && core.MentionsField(info, is.Body, true, "engine.store")
					if is.Else != nil {
						okThen = core.MentionsField(info, is.Else, true, "engine.deltaStore")
					}
					return true
				}
				okThen = core.MentionsField(info, is.Body, true, "engine.deltaStore") && !core.MentionsField(info, is.Body, true, "engine.store")
				if is.Else != nil {
					okElse = core.MentionsField(info, is.Else, true, "engine.store") && !core.MentionsField(info, is.Else, true, "engine.deltaStore")
				}
				return true
			})
			c.Check(okThen && okElse, rC01Prem, f.Name+":Atom", cc.Pos(), "delta-prefixed atoms read e.deltaStore, all others e.store", fmt.Sprintf("the branch on isDeltaPredicate must read e.deltaStore for delta atoms (ok=%v) and e.store otherwise (ok=%v)", okThen, okElse))
		}
		if cc := ts.Cases["ast.TemporalLiteral"]; cc != nil {
			src := core.SrcFull(c.Prog.Fset, cc)
			ok := strings.Contains(src, "temporalDeltaStore") && strings.Contains(src, "temporalStore") && core.ContainsCall(info, cc, false, "engine.isDeltaPredicate")
			c.Check(ok, rC01Prem, f.Name+":TemporalLiteral", cc.Pos(), "delta-prefixed temporal literals read the temporal delta store", "a temporal literal must choose between e.temporalStore and e.temporalDeltaStore by isDeltaPredicate")
		}
	}
}

// c01Negation: premiseNegAtom semantics.
func c01Negation(c *core.Ctx) {
	f := c.MustFunc(rC01Neg, "engine", "premiseNegAtom")
	if f == nil {
		return
	}
	k := &astKit{c: c, ok: true}
	in := ordabs.New(c.Prog)
	in.InstallErrorStubs()
	in.Globals = map[string]ordabs.Value{"engine.errBreak": ordabs.ErrVal{Tag: "break"}}
	builtinHolds := false
	unifies := false
	var stored []ordabs.Value
	in.Stubs["functional.EvalAtom"] = func(in *ordabs.Interp, _ ordabs.Value, args []ordabs.Value) ([]ordabs.Value, error) {
		return []ordabs.Value{args[0], nil}, nil
	}
	in.Stubs["ast.PredicateSym.IsBuiltin"] = func(in *ordabs.Interp, recv ordabs.Value, _ []ordabs.Value) ([]ordabs.Value, error) {
		s, _ := recv.(*ordabs.Rec).Fields["Symbol"].(string)
		return []ordabs.Value{strings.HasPrefix(s, ":")}, nil
	}
	in.Stubs["builtin.Decide"] = func(in *ordabs.Interp, _ ordabs.Value, _ []ordabs.Value) ([]ordabs.Value, error) {
		in.Emit("decide")
		return []ordabs.Value{builtinHolds, (*ordabs.Slice)(nil), nil}, nil
	}
	in.Stubs["unionfind.UnifyTermsExtend"] = func(in *ordabs.Interp, _ ordabs.Value, args []ordabs.Value) ([]ordabs.Value, error) {
		if unifies {
			return []ordabs.Value{args[2], nil}, nil
		}
		return []ordabs.Value{args[2], ordabs.ErrVal{Tag: "cannot unify"}}, nil
	}
	in.Stubs["factstore.ReadOnlyFactStore.GetFacts"] = func(in *ordabs.Interp, _ ordabs.Value, args []ordabs.Value) ([]ordabs.Value, error) {
		in.Emit("lookup")
		for _, fct := range stored {
			out, err := in.CallValue(args[1], []ordabs.Value{fct})
			if err != nil {
				return nil, err
			}
			if out[0] != nil {
				return out, nil
			}
		}
		return []ordabs.Value{nil}, nil
	}
	subst := &ordabs.Rec{Fields: map[string]ordabs.Value{}, T: "unionfind.UnionFind"}
	store := &ordabs.Obj{Name: "store", Opaque: true}
	sols := func(out []ordabs.Value) int {
		sl, _ := out[0].(*ordabs.Slice)
		if sl == nil {
			return 0
		}
		return len(*sl.Elems)
	}
	bad := ""
	for _, h := range []bool{false, true} {
		builtinHolds = h
		in.Reset()
		out, err := in.Call(f, nil, []ordabs.Value{k.atom(":lt", 2), store, subst})
		if !runORD(c, rC01Neg, f.Name, f, err) {
			return
		}
		want := 1
		if h {
			want = 0
		}
		if (sols(out) != want || out[1] != nil) && bad == "" {
			bad = fmt.Sprintf("negated built-in that holds=%v gives %d solution(s), want %d (events %v): a negated built-in must be decided, not looked up in the store", h, sols(out), want, in.Events)
		}
	}
	for _, nfacts := range []int{0, 1, 2} {
		for _, u := range []bool{false, true} {
			stored = nil
			for i := 0; i < nfacts; i++ {
				stored = append(stored, k.atom("q", 1))
			}
			unifies = u
			in.Reset()
			out, err := in.Call(f, nil, []ordabs.Value{k.atom("q", 1), store, subst})
			if !runORD(c, rC01Neg, f.Name, f, err) {
				return
			}
			want := 1
			if nfacts > 0 && u {
				want = 0
			}
			if (sols(out) != want || out[1] != nil) && bad == "" {
				bad = fmt.Sprintf("%d stored fact(s), unify=%v: negated atom has %d solution(s) (err %v), want %d", nfacts, u, sols(out), out[1], want)
			}
		}
	}
	c.Check(bad == "" && k.ok, rC01Neg, f.Name, f.Decl.Pos(), "negation as absence / as failure of the built-in on 8 cases", bad)
}
