package props

import (
	"fmt"
	"strings"

	"mgcheck/core"
	"mgcheck/ordabs"
)

// c01PremiseDispatch: which store each premise kind reads - decided by evaluating
// oneStepEvalPremise with the premise helpers replaced by recorders.
func c01PremiseDispatch(c *core.Ctx) {
	f := c.MustFunc(rC01Prem, "engine", "engine.oneStepEvalPremise")
	mkDelta := c.MustFunc(rC01Prem, "engine", "makeDeltaAtom")
	if f == nil || mkDelta == nil {
		return
	}
	k := &astKit{c: c, ok: true}
	in := ordabs.New(c.Prog)
	in.InstallTimeStubs()
	store := &ordabs.Obj{Name: "store", Opaque: true}
	delta := &ordabs.Obj{Name: "delta", Opaque: true}
	tstore := &ordabs.Obj{Name: "temporal", Opaque: true}
	tdelta := &ordabs.Obj{Name: "temporal-delta", Opaque: true}
	var seen []string
	nilRes := []ordabs.Value{(*ordabs.Slice)(nil), nil}
	in.Stubs["engine.premiseNegAtom"] = func(in *ordabs.Interp, _ ordabs.Value, a []ordabs.Value) ([]ordabs.Value, error) {
		seen = append(seen, "neg:"+objName(a[1])+":"+atomString(a[0]))
		return nilRes, nil
	}
	in.Stubs["engine.premiseAtom"] = func(in *ordabs.Interp, _ ordabs.Value, a []ordabs.Value) ([]ordabs.Value, error) {
		// the lookup function decides which store is read: call it with a recording callback
		_, err := in.CallValue(a[1], []ordabs.Value{a[0], &ordabs.Stub{Name: "cb", Fn: func(in *ordabs.Interp, _ []ordabs.Value) ([]ordabs.Value, error) {
			return []ordabs.Value{nil}, nil
		}}})
		return nilRes, err
	}
	for _, n := range []string{"factstore.FactStore", "factstore.ReadOnlyFactStore", "factstore.FactStoreWithRemove"} {
		in.Stubs[n+".GetFacts"] = func(in *ordabs.Interp, recv ordabs.Value, a []ordabs.Value) ([]ordabs.Value, error) {
			seen = append(seen, "atom:"+objName(recv)+":"+atomString(a[0]))
			return []ordabs.Value{nil}, nil
		}
	}
	in.Stubs["engine.premiseTemporalLiteral"] = func(in *ordabs.Interp, _ ordabs.Value, a []ordabs.Value) ([]ordabs.Value, error) {
		lit := "?"
		if tl, ok := a[0].(*ordabs.Rec); ok {
			lit = atomString(tl.Fields["Literal"])
		}
		seen = append(seen, "temporal:"+objName(a[1])+":"+lit)
		return nilRes, nil
	}
	opts := k.zero("engine", "EvalOptions")
	opts.Fields["externalPredicates"] = ordabs.NewMap()
	eng := k.zero("engine", "engine")
	if !k.ok {
		c.Unres(rC01Prem, f.Name, f.Decl.Pos(), "anchor-unresolved: engine types")
		return
	}
	eng.Fields["store"], eng.Fields["deltaStore"] = store, delta
	eng.Fields["temporalStore"], eng.Fields["temporalDeltaStore"] = tstore, tdelta
	eng.Fields["options"] = opts
	eng.Fields["predToDecl"] = ordabs.NewMap()
	eo := &ordabs.Obj{Name: "engine", Fields: eng.Fields}
	subst := &ordabs.Rec{Fields: map[string]ordabs.Value{}, T: "unionfind.UnionFind"}
	in.Reset()
	dq, err := in.Call(mkDelta, nil, []ordabs.Value{k.atom("q", 1)})
	if !runORD(c, rC01Prem, mkDelta.Name, mkDelta, err) {
		return
	}
	run := func(label string, prem ordabs.Value, want string) {
		seen = nil
		in.Reset()
		_, err := in.Call(f, eo, []ordabs.Value{prem, subst, k.zero("ast", "Clause")})
		if !runORD(c, rC01Prem, f.Name+":"+label, f, err) {
			return
		}
		got := strings.Join(seen, " ")
		c.Check(got == want, rC01Prem, f.Name+":"+label, f.Decl.Pos(), "reads "+want, fmt.Sprintf("%s is answered by [%s], want [%s]", label, got, want))
	}
	neg := k.zero("ast", "NegAtom")
	neg.Fields["Atom"] = k.atom("q", 1)
	run("NegAtom", neg, "neg:store:q()")
	run("Atom", k.atom("q", 1), "atom:store:q()")
	run("Atom:delta", dq[0], "atom:delta:q()")
	run("TemporalLiteral", k.tl(k.atom("q", 1), true, false), "temporal:temporal:q()")
	run("TemporalLiteral:delta", k.tl(dq[0], true, false), "temporal:temporal-delta:q()")
}

// c01Negation: premiseNegAtom semantics.
func c01Negation(c *core.Ctx) {
	f := c.MustFunc(rC01Neg, "engine", "premiseNegAtom")
	if f == nil {
		return
	}
	k := &astKit{c: c, ok: true}
	in := ordabs.New(c.Prog)
	in.InstallErrorStubs()
	in.Globals = map[string]ordabs.Value{"engine.errBreak": ordabs.ErrVal{Tag: "break"}}
	builtinHolds := false
	unifies := false
	var stored []ordabs.Value
	in.Stubs["functional.EvalAtom"] = func(in *ordabs.Interp, _ ordabs.Value, args []ordabs.Value) ([]ordabs.Value, error) {
		return []ordabs.Value{args[0], nil}, nil
	}
	in.Stubs["ast.PredicateSym.IsBuiltin"] = func(in *ordabs.Interp, recv ordabs.Value, _ []ordabs.Value) ([]ordabs.Value, error) {
		s, _ := recv.(*ordabs.Rec).Fields["Symbol"].(string)
		return []ordabs.Value{strings.HasPrefix(s, ":")}, nil
	}
	in.Stubs["builtin.Decide"] = func(in *ordabs.Interp, _ ordabs.Value, _ []ordabs.Value) ([]ordabs.Value, error) {
		in.Emit("decide")
		return []ordabs.Value{builtinHolds, (*ordabs.Slice)(nil), nil}, nil
	}
	in.Stubs["unionfind.UnifyTermsExtend"] = func(in *ordabs.Interp, _ ordabs.Value, args []ordabs.Value) ([]ordabs.Value, error) {
		if unifies {
			return []ordabs.Value{args[2], nil}, nil
		}
		return []ordabs.Value{args[2], ordabs.ErrVal{Tag: "cannot unify"}}, nil
	}
	in.Stubs["factstore.ReadOnlyFactStore.GetFacts"] = func(in *ordabs.Interp, _ ordabs.Value, args []ordabs.Value) ([]ordabs.Value, error) {
		in.Emit("lookup")
		for _, fct := range stored {
			out, err := in.CallValue(args[1], []ordabs.Value{fct})
			if err != nil {
				return nil, err
			}
			if out[0] != nil {
				return out, nil
			}
		}
		return []ordabs.Value{nil}, nil
	}
	subst := &ordabs.Rec{Fields: map[string]ordabs.Value{}, T: "unionfind.UnionFind"}
	store := &ordabs.Obj{Name: "store", Opaque: true}
	sols := func(out []ordabs.Value) int {
		sl, _ := out[0].(*ordabs.Slice)
		if sl == nil {
			return 0
		}
		return len(*sl.Elems)
	}
	bad := ""
	for _, h := range []bool{false, true} {
		builtinHolds = h
		in.Reset()
		out, err := in.Call(f, nil, []ordabs.Value{k.atom(":lt", 2), store, subst})
		if !runORD(c, rC01Neg, f.Name, f, err) {
			return
		}
		want := 1
		if h {
			want = 0
		}
		if (sols(out) != want || out[1] != nil) && bad == "" {
			bad = fmt.Sprintf("negated built-in that holds=%v gives %d solution(s), want %d (events %v): a negated built-in must be decided, not looked up in the store", h, sols(out), want, in.Events)
		}
	}
	for _, nfacts := range []int{0, 1, 2} {
		for _, u := range []bool{false, true} {
			stored = nil
			for i := 0; i < nfacts; i++ {
				stored = append(stored, k.atom("q", 1))
			}
			unifies = u
			in.Reset()
			out, err := in.Call(f, nil, []ordabs.Value{k.atom("q", 1), store, subst})
			if !runORD(c, rC01Neg, f.Name, f, err) {
				return
			}
			want := 1
			if nfacts > 0 && u {
				want = 0
			}
			if (sols(out) != want || out[1] != nil) && bad == "" {
				bad = fmt.Sprintf("%d stored fact(s), unify=%v: negated atom has %d solution(s) (err %v), want %d", nfacts, u, sols(out), out[1], want)
			}
		}
	}
	c.Check(bad == "" && k.ok, rC01Neg, f.Name, f.Decl.Pos(), "negation as absence / as failure of the built-in on 8 cases", bad)
}
