package props

import (
	"fmt"
	"sort"
	"strings"

	"mgcheck/core"
	"mgcheck/ordabs"
)

// ---- abstract Datalog programs over unary predicates and small integers ----

type absAtom struct {
	pred string
}

type absRule struct {
	head string
	body []string // predicate names, all over the same variable X
	succ bool     // head is h(X+1) instead of h(X)
	max  int64    // for succ rules: only X < max (-1: unbounded)
}

type absProgram struct {
	name  string
	facts []string // "p(0)"
	rules []absRule
}

func fact(pred string, x int64) string { return fmt.Sprintf("%s(%d)", pred, x) }

func splitFact(f string) (string, int64) {
	i := strings.Index(f, "(")
	var x int64
	fmt.Sscanf(f[i+1:], "%d", &x)
	return f[:i], x
}

type factSet map[string]bool

func (s factSet) of(pred string) []int64 {
	var out []int64
	for f := range s {
		p, x := splitFact(f)
		if p == pred {
			out = append(out, x)
		}
	}
	sort.Slice(out, func(i, j int) bool { return out[i] < out[j] })
	return out
}

// derive evaluates rule r with body position deltaPos read from delta (-1: all from store).
func (r absRule) derive(store, delta factSet, deltaPos int) []string {
	if len(r.body) == 0 {
		return nil
	}
	src := func(i int) factSet {
		if i == deltaPos {
			return delta
		}
		return store
	}
	var out []string
	for _, x := range src(0).of(r.body[0]) {
		ok := true
		for i := 1; i < len(r.body); i++ {
			if !src(i)[fact(r.body[i], x)] {
				ok = false
			}
		}
		if !ok {
			continue
		}
		if r.succ {
			if r.max >= 0 && x >= r.max {
				continue
			}
			out = append(out, fact(r.head, x+1))
		} else {
			out = append(out, fact(r.head, x))
		}
	}
	return out
}

// leastModel iterates naively (bounded by limit facts).
func (p absProgram) leastModel(limit int) factSet {
	m := factSet{}
	for _, f := range p.facts {
		m[f] = true
	}
	for changed := true; changed && len(m) < limit; {
		changed = false
		for _, r := range p.rules {
			for _, f := range r.derive(m, nil, -1) {
				if !m[f] {
					m[f] = true
					changed = true
				}
			}
		}
	}
	return m
}

// ---- engine fixture ----

type engineFix struct {
	c       *core.Ctx
	in      *ordabs.Interp
	k       *astKit
	ck      *constKit
	stores  map[*ordabs.Obj]factSet
	engine  *ordabs.Obj
	prog    absProgram
	idb     map[string]bool
	invBad  string // first violation of "delta is a subset of store when a delta rule runs"
	clauses int
	trace   []string // rule index / delta position of every clause evaluation, in order
	// temporal mode: every fact lives in the temporal store under one fixed interval, so the
	// same abstract programs exercise the temporal store / temporal delta store bookkeeping.
	temporal bool
	iv       *ordabs.Obj
	tAdds    []string // "store-name:fact@interval-id" for every temporal Add
	// tRefuseAfter: the main temporal store accepts that many new facts and then refuses every further one with
	// its interval-limit error (-1: never)
	tRefuseAfter int
	tAccepted    int
}

func (e *engineFix) newStore(name string) *ordabs.Obj {
	o := &ordabs.Obj{Name: name, Opaque: true}
	e.stores[o] = factSet{}
	return o
}

func (e *engineFix) atomOf(f string) *ordabs.Rec {
	p, x := splitFact(f)
	a := e.k.atom(p, 1)
	args := []ordabs.Value{e.ck.mk(e.ck.Number, x)}
	a.Fields["Args"] = &ordabs.Slice{Elems: &args}
	return a
}

func factOf(v ordabs.Value) string {
	a, _ := v.(*ordabs.Rec)
	if a == nil {
		return "?"
	}
	p, _ := a.Fields["Predicate"].(*ordabs.Rec)
	sl, _ := a.Fields["Args"].(*ordabs.Slice)
	if p == nil || sl == nil || len(*sl.Elems) != 1 {
		return "?"
	}
	cst, _ := (*sl.Elems)[0].(*ordabs.Rec)
	if cst == nil {
		return "?"
	}
	return fact(p.Fields["Symbol"].(string), cst.Fields["NumValue"].(int64))
}

func (e *engineFix) clauseRec(idx, deltaPos int) *ordabs.Rec {
	r := e.prog.rules[idx]
	cl := e.k.zero("ast", "Clause")
	cl.Fields["Head"] = e.k.atom(r.head, 1)
	var prem []ordabs.Value
	for _, b := range r.body {
		prem = append(prem, e.k.atom(b, 1))
	}
	cl.Fields["Premises"] = &ordabs.Slice{Elems: &prem}
	// hidden bookkeeping fields (not part of ast.Clause; interpreted code never reads them)
	cl.Fields["__rule"] = int64(idx)
	cl.Fields["__delta"] = int64(deltaPos)
	return cl
}

func storeStubs(e *engineFix, names ...string) {
	get := func(v ordabs.Value) factSet {
		o, _ := v.(*ordabs.Obj)
		return e.stores[o]
	}
	for _, n := range names {
		e.in.Stubs[n+".Add"] = func(in *ordabs.Interp, recv ordabs.Value, args []ordabs.Value) ([]ordabs.Value, error) {
			s := get(recv)
			if s == nil {
				return nil, &ordabs.Unsupported{What: "Add on an unknown store"}
			}
			f := factOf(args[0])
			if s[f] {
				return []ordabs.Value{false}, nil
			}
			s[f] = true
			return []ordabs.Value{true}, nil
		}
		e.in.Stubs[n+".Contains"] = func(in *ordabs.Interp, recv ordabs.Value, args []ordabs.Value) ([]ordabs.Value, error) {
			s := get(recv)
			if s == nil {
				return nil, &ordabs.Unsupported{What: "Contains on an unknown store"}
			}
			return []ordabs.Value{s[factOf(args[0])]}, nil
		}
		e.in.Stubs[n+".EstimateFactCount"] = func(in *ordabs.Interp, recv ordabs.Value, args []ordabs.Value) ([]ordabs.Value, error) {
			s := get(recv)
			if s == nil {
				return nil, &ordabs.Unsupported{What: "EstimateFactCount on an unknown store"}
			}
			return []ordabs.Value{int64(len(s))}, nil
		}
	}
}

// newEngineFix prepares an interpreter in which (*engine).eval can be evaluated
// over an abstract program; the premise join is replaced by the program's own semantics.
func newEngineFix(c *core.Ctx, rule string, prog absProgram, createdLimit int64) *engineFix {
	return newEngineFixMode(c, rule, prog, createdLimit, false)
}

func newEngineFixMode(c *core.Ctx, rule string, prog absProgram, createdLimit int64, temporal bool) *engineFix {
	e := &engineFix{c: c, in: ordabs.New(c.Prog), k: &astKit{c: c, ok: true}, ck: newConstKit(c, rule), stores: map[*ordabs.Obj]factSet{}, prog: prog, idb: map[string]bool{}, temporal: temporal, tRefuseAfter: -1}
	e.in.Globals = map[string]ordabs.Value{"factstore.ErrIntervalLimitExceeded": ordabs.ErrVal{Tag: "ErrIntervalLimitExceeded"}}
	if !e.ck.ok {
		return nil
	}
	for _, r := range prog.rules {
		e.idb[r.head] = true
	}
	e.in.InstallErrorStubs()
	e.in.InstallTimeStubs()
	storeStubs(e, "factstore.FactStore", "factstore.ReadOnlyFactStore", "factstore.MultiIndexedArrayInMemoryStore", "factstore.FactStoreWithRemove")
	e.in.Stubs["factstore.NewMultiIndexedArrayInMemoryStore"] = func(in *ordabs.Interp, _ ordabs.Value, _ []ordabs.Value) ([]ordabs.Value, error) {
		return []ordabs.Value{e.newStore("delta")}, nil
	}
	e.in.Stubs["ast.Clause.String"] = func(in *ordabs.Interp, _ ordabs.Value, _ []ordabs.Value) ([]ordabs.Value, error) {
		return []ordabs.Value{"<rule>"}, nil
	}
	e.in.Stubs["ast.Atom.String"] = e.in.Stubs["ast.Clause.String"]
	store := e.newStore("store")
	var tstore *ordabs.Obj
	if temporal {
		ivr := e.k.zero("ast", "Interval")
		ivr.Fields["__id"] = "iv"
		e.iv = &ordabs.Obj{Name: "iv", Fields: ivr.Fields, T: "ast.Interval"}
		tstore = e.newStore("temporal")
		for _, f := range prog.facts {
			e.stores[tstore][f] = true
		}
		e.in.Stubs["factstore.NewTemporalStore"] = func(in *ordabs.Interp, _ ordabs.Value, _ []ordabs.Value) ([]ordabs.Value, error) {
			return []ordabs.Value{e.newStore("tdelta")}, nil
		}
		for _, n := range []string{"factstore.TemporalFactStore", "factstore.ReadOnlyTemporalFactStore", "factstore.TemporalStore"} {
			e.in.Stubs[n+".Add"] = func(in *ordabs.Interp, recv ordabs.Value, args []ordabs.Value) ([]ordabs.Value, error) {
				o, _ := recv.(*ordabs.Obj)
				s := e.stores[o]
				if s == nil {
					return nil, &ordabs.Unsupported{What: "temporal Add on an unknown store"}
				}
				id := "?"
				switch x := args[1].(type) {
				case *ordabs.Rec:
					id = fmt.Sprint(x.Fields["__id"])
				case *ordabs.Obj:
					if x != nil {
						id = fmt.Sprint(x.Fields["__id"])
					}
				}
				f := factOf(args[0])
				e.tAdds = append(e.tAdds, o.Name+":"+f+"@"+id)
				if s[f] {
					return []ordabs.Value{false, nil}, nil
				}
				if o.Name == "temporal" && e.tRefuseAfter >= 0 {
					if e.tAccepted >= e.tRefuseAfter {
						return []ordabs.Value{false, ordabs.ErrVal{Tag: "ErrIntervalLimitExceeded"}}, nil
					}
					e.tAccepted++
				}
				s[f] = true
				return []ordabs.Value{true, nil}, nil
			}
			e.in.Stubs[n+".EstimateFactCount"] = func(in *ordabs.Interp, recv ordabs.Value, args []ordabs.Value) ([]ordabs.Value, error) {
				o, _ := recv.(*ordabs.Obj)
				s := e.stores[o]
				if s == nil {
					return nil, &ordabs.Unsupported{What: "EstimateFactCount on an unknown temporal store"}
				}
				return []ordabs.Value{int64(len(s))}, nil
			}
		}
	} else {
		for _, f := range prog.facts {
			e.stores[store][f] = true
		}
	}
	// The engine under evaluation is the engine of ONE stratum: programInfo holds the stratum's rules and
	// declarations, while predToRules / predToDecl describe the whole program. A rule of a higher stratum
	// (zz(X) :- <first derived predicate>(X)) is part of the whole program only; a zz fact in the result means
	// that rules of another stratum were run inside this one.
	nOwn := len(prog.rules)
	if nOwn > 0 {
		e.prog.rules = append(append([]absRule{}, prog.rules...), absRule{head: "zz", body: []string{prog.rules[0].head}})
	}
	var rules []ordabs.Value
	for i := 0; i < nOwn; i++ {
		rules = append(rules, e.clauseRec(i, -1))
	}
	mkDecl := func(p string) *ordabs.Obj {
		d := e.k.zero("ast", "Decl")
		d.Fields["DeclaredAtom"] = e.k.atom(p, 1)
		return &ordabs.Obj{Name: "decl-" + p, Fields: d.Fields}
	}
	ownDecls, allDecls, allRules := ordabs.NewMap(), ordabs.NewMap(), ordabs.NewMap()
	for i, r := range e.prog.rules {
		ps := predSym(r.head, 1)
		ks := ordabs.KeyString(ps)
		if i < nOwn {
			ownDecls.M[ks], ownDecls.Keys[ks] = mkDecl(r.head), ps
		}
		allDecls.M[ks], allDecls.Keys[ks] = mkDecl(r.head), ps
		var rs []ordabs.Value
		if old, ok := allRules.M[ks].(*ordabs.Slice); ok {
			rs = append(rs, *old.Elems...)
		}
		rs = append(rs, e.clauseRec(i, -1))
		allRules.M[ks], allRules.Keys[ks] = &ordabs.Slice{Elems: &rs}, ps
	}
	pi := e.k.zero("analysis", "ProgramInfo")
	pi.Fields["Rules"] = &ordabs.Slice{Elems: &rules}
	pi.Fields["Decls"] = ownDecls
	opts := e.k.zero("engine", "EvalOptions")
	opts.Fields["createdFactLimit"] = createdLimit
	if createdLimit > 0 {
		opts.Fields["totalFactLimit"] = createdLimit + int64(len(prog.facts))
	}
	opts.Fields["predicateAllowList"] = ordabs.NewVarPtr(&ordabs.Stub{Name: "allowAll", Fn: func(in *ordabs.Interp, args []ordabs.Value) ([]ordabs.Value, error) {
		return []ordabs.Value{true}, nil
	}})
	eng := e.k.zero("engine", "engine")
	if !e.k.ok {
		c.Unres(rule, "engine.engine", 0, "anchor-unresolved: cannot model the engine's types")
		return nil
	}
	eng.Fields["store"] = store
	if temporal {
		eng.Fields["temporalStore"] = tstore
		eng.Fields["temporalDeltaStore"] = e.newStore("tdelta0")
	}
	eng.Fields["deltaStore"] = e.newStore("delta0")
	eng.Fields["programInfo"] = &ordabs.Obj{Name: "programInfo", Fields: pi.Fields}
	eng.Fields["options"] = opts
	eng.Fields["predToRules"] = allRules
	eng.Fields["predToDecl"] = allDecls
	e.engine = &ordabs.Obj{Name: "engine", Fields: eng.Fields}
	e.in.Stubs["engine.engine.mergeDelta"] = func(in *ordabs.Interp, recv ordabs.Value, _ []ordabs.Value) ([]ordabs.Value, error) {
		eo := recv.(*ordabs.Obj)
		st := e.stores[eo.Fields["store"].(*ordabs.Obj)]
		dl := e.stores[eo.Fields["deltaStore"].(*ordabs.Obj)]
		for f := range dl {
			st[f] = true
		}
		in.Emit("merge")
		return []ordabs.Value{nil}, nil
	}
	// makeDeltaRules has its own obligations (rule delta-rules); here it is a model that honours its arguments:
	// one delta rule per body position whose predicate is declared in decls, for every rule of a declared head.
	e.in.Stubs["engine.makeDeltaRules"] = func(in *ordabs.Interp, _ ordabs.Value, args []ordabs.Value) ([]ordabs.Value, error) {
		decls, _ := args[0].(*ordabs.Map)
		declared := map[string]bool{}
		if decls != nil {
			for _, kp := range decls.Keys {
				declared[symOf(kp)] = true
			}
		}
		m := ordabs.NewMap()
		for i, r := range e.prog.rules {
			if !declared[r.head] {
				continue
			}
			var drs []ordabs.Value
			for pos, b := range r.body {
				if declared[b] {
					drs = append(drs, e.clauseRec(i, pos))
				}
			}
			if len(drs) == 0 {
				continue
			}
			kp := predSym(r.head, 1)
			ks := ordabs.KeyString(kp)
			if old, ok := m.M[ks].(*ordabs.Slice); ok {
				drs = append(append([]ordabs.Value{}, *old.Elems...), drs...)
			}
			m.M[ks], m.Keys[ks] = &ordabs.Slice{Elems: &drs}, kp
		}
		return []ordabs.Value{m}, nil
	}
	dtf := c.Prog.Named("engine", "DerivedTemporalFact")
	e.in.Stubs["engine.engine.oneStepEvalClause"] = func(in *ordabs.Interp, recv ordabs.Value, args []ordabs.Value) ([]ordabs.Value, error) {
		eo := recv.(*ordabs.Obj)
		cl, _ := args[0].(*ordabs.Rec)
		if cl == nil {
			return nil, &ordabs.Unsupported{What: "oneStepEvalClause on a non-clause"}
		}
		idx, ok1 := cl.Fields["__rule"].(int64)
		dp, ok2 := cl.Fields["__delta"].(int64)
		if !ok1 || !ok2 {
			return nil, &ordabs.Unsupported{What: "oneStepEvalClause on a clause the fixture did not create (the loop rebuilt it)"}
		}
		st := e.stores[eo.Fields["store"].(*ordabs.Obj)]
		dl := e.stores[eo.Fields["deltaStore"].(*ordabs.Obj)]
		if e.temporal {
			ts, _ := eo.Fields["temporalStore"].(*ordabs.Obj)
			td, _ := eo.Fields["temporalDeltaStore"].(*ordabs.Obj)
			if ts == nil || e.stores[ts] == nil {
				return nil, &ordabs.Unsupported{What: "the engine lost its temporal store"}
			}
			st = e.stores[ts]
			dl = factSet{}
			if td != nil && e.stores[td] != nil {
				dl = e.stores[td]
			}
		}
		e.clauses++
		e.trace = append(e.trace, fmt.Sprintf("%d/%d", idx, dp))
		if dp >= 0 {
			for f := range dl {
				if !st[f] && e.invBad == "" {
					e.invBad = fmt.Sprintf("program %s: a delta rule for %s is evaluated while %s is in the delta store but not yet in the store, so a join with another fact of the same round cannot succeed", prog.name, e.prog.rules[idx].head, f)
				}
			}
		}
		var out []ordabs.Value
		for _, f := range e.prog.rules[idx].derive(st, dl, int(dp)) {
			z, _ := ordabs.ZeroOf(dtf)
			r := z.(*ordabs.Rec)
			r.Fields["Atom"] = e.atomOf(f)
			if e.temporal {
				r.Fields["Interval"] = e.iv
			}
			out = append(out, r)
		}
		return []ordabs.Value{&ordabs.Slice{Elems: &out}, nil}, nil
	}
	return e
}

// runEval evaluates (*engine).eval and returns the final store, whether an error was returned, and whether it returned at all.
func (e *engineFix) runEval(f *core.Func, fuel int) (final factSet, isErr, returned bool, err error) {
	e.in.Reset()
	e.in.Fuel = fuel
	out, err := e.in.Call(f, e.engine, nil)
	if err != nil {
		if u, ok := err.(*ordabs.Unsupported); ok && strings.Contains(u.What, "fuel") {
			return nil, false, false, nil
		}
		return nil, false, false, err
	}
	_, isErr = out[0].(ordabs.ErrVal)
	final = factSet{}
	for f := range e.stores[e.engine.Fields["store"].(*ordabs.Obj)] {
		final[f] = true
	}
	if ts, _ := e.engine.Fields["temporalStore"].(*ordabs.Obj); ts != nil {
		for f := range e.stores[ts] {
			final[f] = true
		}
	}
	return final, isErr, true, nil
}

func diffSets(got, want factSet) (missing, extra []string) {
	for f := range want {
		if !got[f] {
			missing = append(missing, f)
		}
	}
	for f := range got {
		if !want[f] {
			extra = append(extra, f)
		}
	}
	sort.Strings(missing)
	sort.Strings(extra)
	return
}

// the abstract programs used by C01/C05/C17/C20
func absPrograms() []absProgram {
	return []absProgram{
		{"two-facts-of-one-round", []string{"seed(0)", "never(1)"}, []absRule{
			{head: "p", body: []string{"seed"}}, {head: "p", body: []string{"h", "never"}},
			{head: "l", body: []string{"p"}}, {head: "r", body: []string{"p"}}, {head: "h", body: []string{"l", "r"}}}},
		{"bounded-chain", []string{"n(0)"}, []absRule{{head: "n", body: []string{"n"}, succ: true, max: 5}, {head: "m", body: []string{"n"}}}},
		{"duplicate-derivation-last-in-round", []string{"a(0)"}, []absRule{
			{head: "b", body: []string{"a"}}, {head: "c", body: []string{"b"}}, {head: "c", body: []string{"b"}}, {head: "d", body: []string{"c"}}, {head: "e", body: []string{"d"}}}},
		{"mutual-recursion", []string{"z(0)"}, []absRule{
			{head: "even", body: []string{"z"}}, {head: "odd", body: []string{"even"}, succ: true, max: 6}, {head: "even", body: []string{"odd"}, succ: true, max: 6}}},
		{"last-rule-saturates-first", []string{"n(0)", "z(0)"}, []absRule{{head: "n", body: []string{"n"}, succ: true, max: 5}, {head: "s", body: []string{"z"}}}},
		{"non-linear", []string{"s(0)", "s(1)", "s(2)"}, []absRule{
			{head: "t", body: []string{"s"}}, {head: "u", body: []string{"t"}}, {head: "v", body: []string{"u", "t"}}, {head: "w", body: []string{"v", "u", "t"}}}},
	}
}
