package props

import "mgcheck/core"

// hashPresenceTemporal is filled in with the C06 rule (hash presence needs Equals).
func hashPresenceTemporal(c *core.Ctx) {}
