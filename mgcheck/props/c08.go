package props

import (
	"fmt"
	"hash/fnv"
	"math"
	"sort"
	"strings"
	"time"

	"mgcheck/core"
	"mgcheck/ordabs"
)

func init() { register("C08", checkC08) }

const (
	rC08Eq    = "ORDABS.equals-is-structural"
	rC08Hash  = "ORDABS.equal-implies-hash-and-print"
	rC08Inj   = "ORDABS.print-injective"
	rC08Order = "ORDABS.map-struct-supply-order"
	rC08Eval  = "ORDABS.constructor-expressions"
	rC08Atom  = "ORDABS.atom-equality"
	rC08Key   = "ORDABS.group-key-injective"
)

// ct is the recipe of a constant: how it is built through the public constructors.
type ct struct {
	kind string // name str bytes num float time dur pair list map struct
	s    string
	n    int64
	f    float64
	kids []*ct // pair: 2; list: n; map/struct: k1 v1 k2 v2 ... in supply order
}

func (t *ct) canon() string {
	switch t.kind {
	case "name", "str", "bytes":
		return fmt.Sprintf("%s(%q)", t.kind, t.s)
	case "num", "time", "dur":
		return fmt.Sprintf("%s(%d)", t.kind, t.n)
	case "float":
		return fmt.Sprintf("float(%x)", math.Float64bits(t.f))
	case "pair", "list":
		var ps []string
		for _, k := range t.kids {
			ps = append(ps, k.canon())
		}
		return t.kind + "(" + strings.Join(ps, ",") + ")"
	}
	var ps []string
	for i := 0; i+1 < len(t.kids); i += 2 {
		ps = append(ps, t.kids[i].canon()+"=>"+t.kids[i+1].canon())
	}
	sort.Strings(ps)
	return t.kind + "{" + strings.Join(ps, ",") + "}"
}

type c08Kit struct {
	c      *core.Ctx
	in     *ordabs.Interp
	advers bool
	fn     map[string]*core.Func
	ok     bool
}

var c08Funcs = []string{"Name", "String", "Bytes", "Number", "Float64", "Time", "Duration", "Pair", "List", "Map", "Struct",
	"Constant.Equals", "Constant.Hash", "Constant.String", "Atom.Equals", "Atom.Hash", "Atom.String", "SortIndexInto", "FormatFloat64"}

// unexported helpers of today's implementation: listed as analysed when present, not required
var c08Helpers = []string{"keysorter.Less", "keysorter.Swap", "keysorter.Len", "hashPair", "szudzikElegantPair"}

func newC08Kit(c *core.Ctx, rule string, advers bool) *c08Kit {
	k := &c08Kit{c: c, advers: advers, fn: map[string]*core.Func{}, ok: true}
	for _, n := range c08Funcs {
		f := c.MustFunc(rule, "ast", n)
		if f == nil {
			k.ok = false
		}
		k.fn[n] = f
	}
	for _, n := range c08Helpers {
		if f := c.Prog.Func("ast", n); f != nil {
			c.Touch(f)
		}
	}
	in := ordabs.New(c.Prog)
	in.InstallErrorStubs()
	in.InstallBuilderStubs()
	in.InstallStringStubs()
	in.InstallFloatStubs()
	in.Stubs["ast.hashBytes"] = func(in *ordabs.Interp, _ ordabs.Value, a []ordabs.Value) ([]ordabs.Value, error) {
		if k.advers {
			return []ordabs.Value{int64(7)}, nil
		}
		h := fnv.New64()
		if sl, ok := a[0].(*ordabs.Slice); ok && sl != nil {
			for _, e := range *sl.Elems {
				b, _ := e.(int64)
				h.Write([]byte{byte(b)})
			}
		}
		return []ordabs.Value{int64(h.Sum64())}, nil
	}
	in.Stubs["ast.FormatTime"] = func(in *ordabs.Interp, _ ordabs.Value, a []ordabs.Value) ([]ordabs.Value, error) {
		n, _ := a[0].(int64)
		return []ordabs.Value{time.Unix(0, n).UTC().Format(time.RFC3339Nano)}, nil
	}
	in.Stubs["ast.FormatDuration"] = func(in *ordabs.Interp, _ ordabs.Value, a []ordabs.Value) ([]ordabs.Value, error) {
		n, _ := a[0].(int64)
		return []ordabs.Value{time.Duration(n).String()}, nil
	}
	in.Stubs["ast.hashTerm"] = func(in *ordabs.Interp, _ ordabs.Value, a []ordabs.Value) ([]ordabs.Value, error) {
		// fnv over the predicate name and the argument hashes, as the source does; argument
		// hashes come from the interpreted Hash methods.
		h := fnv.New64()
		s, _ := a[0].(string)
		if !k.advers {
			h.Write([]byte(s))
		}
		if sl, ok := a[1].(*ordabs.Slice); ok && sl != nil {
			for _, e := range *sl.Elems {
				r, _ := e.(*ordabs.Rec)
				if r == nil {
					continue
				}
				switch r.T {
				case "ast.Constant":
					out, err := in.Call(k.fn["Constant.Hash"], r, nil)
					if err != nil {
						return nil, err
					}
					v, _ := out[0].(int64)
					var b [8]byte
					for i := 0; i < 8; i++ {
						b[i] = byte(uint64(v) >> (8 * i))
					}
					h.Write(b[:])
				case "ast.Variable":
					sym, _ := r.Fields["Symbol"].(string)
					h.Write([]byte(sym))
				}
			}
		}
		return []ordabs.Value{int64(h.Sum64())}, nil
	}
	k.in = in
	return k
}

func (k *c08Kit) call(rule, name string, recv ordabs.Value, args ...ordabs.Value) ([]ordabs.Value, bool) {
	f := k.fn[name]
	k.in.Reset()
	k.in.Fuel = 400000
	out, err := k.in.Call(f, recv, args)
	if !runORD(k.c, rule, f.Name, f, err) {
		k.ok = false
		return nil, false
	}
	return out, true
}

// build constructs the constant through the library's constructors; perm permutes the
// supply order of map and struct entries.
func (k *c08Kit) build(rule string, t *ct, rev bool) *ordabs.Rec {
	one := func(name string, args ...ordabs.Value) *ordabs.Rec {
		out, ok := k.call(rule, name, nil, args...)
		if !ok {
			return nil
		}
		switch r := out[0].(type) {
		case *ordabs.Rec:
			return r
		case *ordabs.Obj:
			if r != nil {
				return &ordabs.Rec{Fields: r.Fields, T: "ast.Constant"}
			}
		}
		k.ok = false
		return nil
	}
	switch t.kind {
	case "name":
		return one("Name", t.s)
	case "str":
		return one("String", t.s)
	case "bytes":
		var bs []ordabs.Value
		for _, b := range []byte(t.s) {
			bs = append(bs, int64(b))
		}
		return one("Bytes", &ordabs.Slice{Elems: &bs})
	case "num":
		return one("Number", t.n)
	case "float":
		return one("Float64", t.f)
	case "time":
		return one("Time", t.n)
	case "dur":
		return one("Duration", t.n)
	}
	var kids []*ordabs.Rec
	for _, kid := range t.kids {
		r := k.build(rule, kid, rev)
		if r == nil {
			return nil
		}
		kids = append(kids, r)
	}
	switch t.kind {
	case "pair":
		return one("Pair", ptr(kids[0]), ptr(kids[1]))
	case "list":
		var es []ordabs.Value
		for _, r := range kids {
			es = append(es, r)
		}
		if es == nil {
			es = []ordabs.Value{}
		}
		return one("List", &ordabs.Slice{Elems: &es})
	}
	m := ordabs.NewMap()
	n := len(kids) / 2
	for i := 0; i < n; i++ {
		pos := i
		if rev {
			pos = n - 1 - i
		}
		key := fmt.Sprintf("%03d", pos)
		m.Keys[key] = ptr(kids[2*i])
		m.M[key] = ptr(kids[2*i+1])
	}
	if t.kind == "map" {
		return one("Map", m)
	}
	return one("Struct", m)
}

func (k *c08Kit) equals(rule string, a, b *ordabs.Rec) (bool, bool) {
	out, ok := k.call(rule, "Constant.Equals", a, b)
	if !ok {
		return false, false
	}
	r, _ := out[0].(bool)
	return r, true
}
func (k *c08Kit) hash(rule string, a *ordabs.Rec) int64 {
	out, ok := k.call(rule, "Constant.Hash", a)
	if !ok {
		return 0
	}
	r, _ := out[0].(int64)
	return r
}
func (k *c08Kit) str(rule string, a *ordabs.Rec) string {
	out, ok := k.call(rule, "Constant.String", a)
	if !ok {
		return ""
	}
	r, _ := out[0].(string)
	return r
}

func c08Universe() []*ct {
	nm := func(s string) *ct { return &ct{kind: "name", s: s} }
	st := func(s string) *ct { return &ct{kind: "str", s: s} }
	nu := func(n int64) *ct { return &ct{kind: "num", n: n} }
	fl := func(f float64) *ct { return &ct{kind: "float", f: f} }
	sh := func(kind string, kids ...*ct) *ct { return &ct{kind: kind, kids: kids} }
	u := []*ct{
		nm("/a"), nm("/b"), nm("/a/b"),
		st("a"), st("b"), st("/a"), st("1"), st("1.0"), st(""), st("[]"), st("a\"b"), st("\uFFFD"), st("a\uFFFDb"),
		{kind: "bytes", s: "a"}, {kind: "bytes", s: ""},
		nu(0), nu(1), nu(2), nu(-1), nu(int64(math.Float64bits(1.0))),
		fl(0), fl(1), fl(1.5), fl(math.Copysign(0, -1)), fl(-1), fl(1e19),
		{kind: "time", n: 0}, {kind: "time", n: 1}, {kind: "dur", n: 0}, {kind: "dur", n: 1},
		sh("pair", nu(1), nu(2)), sh("pair", nu(2), nu(1)), sh("pair", nm("/a"), nm("/b")), sh("pair", nm("/b"), nm("/a")),
		sh("pair", nu(1), sh("pair", nu(2), nu(3))), sh("pair", sh("pair", nu(1), nu(2)), nu(3)),
		sh("list"), sh("list", nu(1)), sh("list", nu(1), nu(2)), sh("list", nu(2), nu(1)), sh("list", sh("list", nu(1))), sh("list", sh("list", nu(1)), nu(2)),
		sh("list", nm("/a"), nm("/b")), sh("list", nm("/b"), nm("/a")), sh("list", sh("list")), sh("list", sh("pair", nu(1), nu(2))),
		sh("map"), sh("map", nm("/a"), nu(1)), sh("map", nm("/a"), nu(2)), sh("map", nm("/b"), nu(1)), sh("map", nm("/a"), nu(1), nm("/b"), nu(2)), sh("map", nm("/a"), nu(2), nm("/b"), nu(1)),
		sh("map", nu(1), nu(2)), sh("map", nm("/a"), nu(1), nm("/b"), nu(2), nm("/c"), nu(3)),
		sh("struct"), sh("struct", nm("/a"), nu(1)), sh("struct", nm("/a"), nu(2)), sh("struct", nm("/a"), nu(1), nm("/b"), nu(2)), sh("struct", nm("/a"), nu(1), nm("/b"), nu(2), nm("/c"), nu(3)),
		// non-empty shapes whose hash is 0, the hash of the empty list, map and struct
		sh("list", nu(0)), sh("pair", nu(0), nu(0)), sh("map", nu(0), nu(1<<28)), sh("struct", nu(0), nu(1<<27)),
		sh("list", sh("map", nm("/a"), nu(1))), sh("list", sh("struct", nm("/a"), nu(1))), sh("map", nm("/a"), sh("list", nu(1))),
		// equal first components, second components that differ only in kind (equal hashes): the comparison must reach them
		sh("pair", nu(1), nu(1)), sh("pair", nu(1), &ct{kind: "time", n: 1}), sh("pair", nu(1), &ct{kind: "dur", n: 1}),
		sh("pair", nu(1), st("a")), sh("pair", nu(1), &ct{kind: "bytes", s: "a"}), sh("pair", nm("/a"), nm("/a/b")),
		sh("list", &ct{kind: "time", n: 1}), sh("list", &ct{kind: "dur", n: 1}), sh("list", nu(1), &ct{kind: "time", n: 2}),
		sh("map", nm("/a"), &ct{kind: "time", n: 1}), sh("map", nm("/a"), &ct{kind: "dur", n: 1}), sh("map", &ct{kind: "time", n: 1}, nu(2)),
		sh("struct", nm("/a"), &ct{kind: "time", n: 1}), sh("struct", nm("/a"), st("a")), sh("struct", nm("/a"), &ct{kind: "bytes", s: "a"}),
		// two entries, one of them differing only in kind: whichever entry sorts first, the comparison must reach the other
		sh("struct", nm("/a"), nu(1), nm("/b"), &ct{kind: "time", n: 2}), sh("struct", nm("/a"), nu(1), nm("/b"), &ct{kind: "dur", n: 2}),
		sh("struct", nm("/a"), &ct{kind: "time", n: 1}, nm("/b"), nu(2)), sh("struct", nm("/a"), &ct{kind: "dur", n: 1}, nm("/b"), nu(2)),
		sh("map", nm("/a"), nu(1), nm("/b"), &ct{kind: "time", n: 2}), sh("map", nm("/a"), nu(1), nm("/b"), &ct{kind: "dur", n: 2}),
		sh("map", nm("/a"), &ct{kind: "time", n: 1}, nm("/b"), nu(2)), sh("map", nm("/a"), &ct{kind: "dur", n: 1}, nm("/b"), nu(2)),
		sh("list", nu(1), &ct{kind: "dur", n: 2}), sh("list", nu(1), nu(2), &ct{kind: "time", n: 3}), sh("list", nu(1), nu(2), nu(3)),
	}
	return u
}

func checkC08(c *core.Ctx) {
	c.Rule(rC08Eq, "Constant.Equals is read from source and evaluated on every pair from a universe of constants of every kind built through the interpreted public constructors (names, strings, bytes, numbers, floats incl. -0.0, times, durations, pairs, lists, maps, structs, nested), once with the real FNV string hash and once with an adversarial hash under which all strings collide: the verdict equals structural equality of the construction recipes (an equivalence relation by construction)", 2)
	c.Rule(rC08Hash, "on the same universe: whenever Equals holds, Hash and String agree", 2)
	c.Rule(rC08Inj, "on the same universe (valid names, finite floats): two constants that print identically are equal", 1)
	c.Rule(rC08Order, "ast.Map and ast.Struct, evaluated with the interpreted SortIndexInto/keysorter under every supply order of two- and three-entry maps, produce equal constants with equal hashes and printed forms, also when all key hashes collide", 2)
	c.Rule(rC08Eval, "functional.EvalApplyFn evaluated on fn:map, fn:struct, fn:list and fn:pair over constant arguments yields the constants the constructors build, keeps distinct keys whose hashes collide, and keeps one entry per repeated key", 1)
	c.Rule(rC08Atom, "Atom.Equals / Atom.Hash / Atom.String over a universe of atoms: Equals is equality of predicate and arguments, equal atoms hash and print alike, atoms that print alike are equal", 1)
	c.Rule(rC08Key, "groupKeyString evaluated on key tuples whose printed forms could be confused when merely concatenated: distinct tuples get distinct keys, equal tuples the same key", 1)
	for _, advers := range []bool{false, true} {
		if !c08Equality(c, advers, true) {
			return
		}
	}
	c08GroupKey(c)
}

// c08OrderFnv evaluates the supply-order obligation with the real hash (used by neighbouring properties).
func c08OrderFnv(c *core.Ctx) {
	k := newC08Kit(c, rC08Order, false)
	if k.ok {
		c08Order(c, k, "fnv")
	}
}

// c08EvalBoth evaluates the constructor expressions in both hash modes (for properties that repeat the obligation).
func c08EvalBoth(c *core.Ctx) {
	for _, advers := range []bool{false, true} {
		k := newC08Kit(c, rC08Eval, advers)
		if k.ok {
			c08Eval(c, k, map[bool]string{false: "fnv", true: "colliding-hash"}[advers])
		}
	}
}

// c08Equality evaluates Equals / Hash / String over the universe in one hash mode; withRest adds the obligations
// that share the kit (supply order, atoms, constructor expressions).
func c08Equality(c *core.Ctx, advers, withRest bool) bool {
	u := c08Universe()
	{
		mode := "fnv"
		if advers {
			mode = "colliding-hash"
		}
		k := newC08Kit(c, rC08Eq, advers)
		if !k.ok {
			return false
		}
		var vals []*ordabs.Rec
		for _, t := range u {
			vals = append(vals, k.build(rC08Eq, t, false))
		}
		if !k.ok {
			return false
		}
		eqBad, hashBad, injBad := "", "", ""
		pairs := 0
		for i, a := range vals {
			sa, ha := k.str(rC08Hash, a), k.hash(rC08Hash, a)
			for j, b := range vals {
				got, ok := k.equals(rC08Eq, a, b)
				if !ok {
					return false
				}
				pairs++
				want := u[i].canon() == u[j].canon()
				if got != want && eqBad == "" {
					eqBad = fmt.Sprintf("%s mode: %s Equals %s = %v, but the two are structurally %s", mode, u[i].canon(), u[j].canon(), got, map[bool]string{true: "equal", false: "different"}[want])
				}
				sb, hb := k.str(rC08Hash, b), k.hash(rC08Hash, b)
				if got && (sa != sb || ha != hb) && hashBad == "" {
					hashBad = fmt.Sprintf("%s mode: %s and %s are equal but hash %d / %d and print %q / %q", mode, u[i].canon(), u[j].canon(), ha, hb, sa, sb)
				}
				if sa == sb && !want && injBad == "" {
					injBad = fmt.Sprintf("the different constants %s and %s both print as %q", u[i].canon(), u[j].canon(), sa)
				}
			}
		}
		f := k.fn["Constant.Equals"]
		c.Check(eqBad == "", rC08Eq, "ast.Constant.Equals:"+mode, f.Decl.Pos(), fmt.Sprintf("%d pairs over %d constants agree with structural equality", pairs, len(u)), eqBad)
		c.Check(hashBad == "", rC08Hash, "ast.Constant.Hash/String:"+mode, k.fn["Constant.Hash"].Decl.Pos(), fmt.Sprintf("%d pairs", pairs), hashBad)
		if !advers {
			c.Check(injBad == "", rC08Inj, "ast.Constant.String", k.fn["Constant.String"].Decl.Pos(), fmt.Sprintf("printing is injective on %d constants", len(u)), injBad)
		}
		if withRest {
			c08Order(c, k, mode)
			if !advers {
				c08Atoms(c, k)
			}
			c08Eval(c, k, mode)
		}
	}
	return true
}

func c08Order(c *core.Ctx, k *c08Kit, mode string) {
	nm := func(s string) *ct { return &ct{kind: "name", s: s} }
	nu := func(n int64) *ct { return &ct{kind: "num", n: n} }
	sh := func(kind string, kids ...*ct) *ct { return &ct{kind: kind, kids: kids} }
	// key sets: plain names; keys that agree in hash AND in the Symbol field (numbers, times and durations of one
	// value; a name, a string and a byte string of one text; pairs whose hashes coincide) - only the printed form
	// tells those apart, so the canonical order must be decided by it
	keySets := [][]*ct{
		{nm("/a"), nm("/b"), nm("/c")},
		{nu(1), {kind: "time", n: 1}, {kind: "dur", n: 1}},
		{nm("/a"), {kind: "str", s: "/a"}, {kind: "bytes", s: "/a"}},
		{sh("pair", nu(0), nu(5)), sh("pair", nu(0), nu(-5)), sh("pair", nu(0), &ct{kind: "time", n: 5})},
	}
	perms := [][]int{{0, 1, 2}, {0, 2, 1}, {1, 0, 2}, {1, 2, 0}, {2, 0, 1}, {2, 1, 0}}
	for _, kind := range []string{"map", "struct"} {
		bad := ""
		var ref *ordabs.Rec
		n := 0
		for _, keys := range keySets {
		for _, size := range []int{2, 3} {
			ref = nil
			for _, p := range perms {
				t := &ct{kind: kind}
				for _, i := range p {
					if i < size {
						t.kids = append(t.kids, keys[i], nu(int64(i)))
					}
				}
				v := k.build(rC08Order, t, false)
				if v == nil {
					return
				}
				n++
				if ref == nil {
					ref = v
					continue
				}
				eq, ok := k.equals(rC08Order, ref, v)
				if !ok {
					return
				}
				sr, sv := k.str(rC08Order, ref), k.str(rC08Order, v)
				if (!eq || sr != sv || k.hash(rC08Order, ref) != k.hash(rC08Order, v)) && bad == "" {
					bad = fmt.Sprintf("%s mode: the same %d entries supplied in two orders give %s and %s (Equals=%v)", mode, size, sr, sv, eq)
				}
			}
		}
		}
		name := map[string]string{"map": "Map", "struct": "Struct"}[kind]
		c.Check(bad == "", rC08Order, "ast."+name+":"+mode, k.fn[name].Decl.Pos(), fmt.Sprintf("%d supply orders give one constant", n), bad)
	}
}

func c08Atoms(c *core.Ctx, k *c08Kit) {
	nm := func(s string) *ct { return &ct{kind: "name", s: s} }
	type at struct {
		pred string
		args []string // "/a" constant, "X" variable, "\"s\"" string
	}
	atoms := []at{{"p", nil}, {"q", nil}, {"p", []string{"/a"}}, {"p", []string{"/b"}}, {"q", []string{"/a"}}, {"p", []string{"/a", "/b"}}, {"p", []string{"/b", "/a"}},
		{"p", []string{"X"}}, {"p", []string{"Y"}}, {"p", []string{"\"X\""}}, {"p", []string{"/a", "X"}}, {"p", []string{"1"}}, {"p", []string{"1.0"}}}
	mk := func(a at) *ordabs.Rec {
		var args []ordabs.Value
		for _, s := range a.args {
			switch {
			case s[0] == '/':
				args = append(args, k.build(rC08Atom, nm(s), false))
			case s[0] == '"':
				args = append(args, k.build(rC08Atom, &ct{kind: "str", s: strings.Trim(s, "\"")}, false))
			case s == "1":
				args = append(args, k.build(rC08Atom, &ct{kind: "num", n: 1}, false))
			case s == "1.0":
				args = append(args, k.build(rC08Atom, &ct{kind: "float", f: 1}, false))
			default:
				args = append(args, &ordabs.Rec{Fields: map[string]ordabs.Value{"Symbol": s}, T: "ast.Variable"})
			}
		}
		sl := &ordabs.Slice{Elems: &args}
		if args == nil {
			sl = nil
		}
		var slv ordabs.Value
		if sl != nil {
			slv = sl
		}
		return &ordabs.Rec{T: "ast.Atom", Fields: map[string]ordabs.Value{
			"Predicate": &ordabs.Rec{T: "ast.PredicateSym", Fields: map[string]ordabs.Value{"Symbol": a.pred, "Arity": int64(len(a.args))}},
			"Args":      slv}}
	}
	bad := ""
	n := 0
	for i, a := range atoms {
		va := mk(a)
		for j, b := range atoms {
			vb := mk(b)
			if !k.ok {
				return
			}
			out, ok := k.call(rC08Atom, "Atom.Equals", va, vb)
			if !ok {
				return
			}
			got, _ := out[0].(bool)
			n++
			if got != (i == j) && bad == "" {
				bad = fmt.Sprintf("%s(%v) Equals %s(%v) = %v", a.pred, a.args, b.pred, b.args, got)
			}
			ha, _ := k.call(rC08Atom, "Atom.Hash", va)
			hb, _ := k.call(rC08Atom, "Atom.Hash", vb)
			sa, _ := k.call(rC08Atom, "Atom.String", va)
			sb, _ := k.call(rC08Atom, "Atom.String", vb)
			if !k.ok {
				return
			}
			if got && (ha[0] != hb[0] || sa[0] != sb[0]) && bad == "" {
				bad = fmt.Sprintf("equal atoms %s(%v) hash or print differently", a.pred, a.args)
			}
			if sa[0] == sb[0] && i != j && bad == "" {
				bad = fmt.Sprintf("the different atoms %s(%v) and %s(%v) both print as %v", a.pred, a.args, b.pred, b.args, sa[0])
			}
		}
	}
	c.Check(bad == "", rC08Atom, "ast.Atom.Equals/Hash/String", k.fn["Atom.Equals"].Decl.Pos(), fmt.Sprintf("%d pairs of atoms", n), bad)
}

func c08Eval(c *core.Ctx, k *c08Kit, mode string) {
	f := c.MustFunc(rC08Eval, "functional", "EvalApplyFn")
	c.MustFunc(rC08Eval, "functional", "hasKey")
	if f == nil {
		return
	}
	nm := func(s string) *ct { return &ct{kind: "name", s: s} }
	nu := func(n int64) *ct { return &ct{kind: "num", n: n} }
	apply := func(sym string, arity int64, args ...*ct) (*ordabs.Rec, bool) {
		var as []ordabs.Value
		for _, a := range args {
			as = append(as, k.build(rC08Eval, a, false))
		}
		if !k.ok {
			return nil, false
		}
		fn := &ordabs.Rec{T: "ast.ApplyFn", Fields: map[string]ordabs.Value{
			"Function": &ordabs.Rec{T: "ast.FunctionSym", Fields: map[string]ordabs.Value{"Symbol": sym, "Arity": arity}},
			"Args":     &ordabs.Slice{Elems: &as}}}
		k.in.Reset()
		k.in.Fuel = 400000
		out, err := k.in.Call(f, nil, []ordabs.Value{fn, nil})
		if !runORD(c, rC08Eval, f.Name+":"+sym, f, err) {
			return nil, false
		}
		if out[1] != nil {
			return nil, true
		}
		r, _ := out[0].(*ordabs.Rec)
		return r, true
	}
	type tc struct {
		sym  string
		args []*ct
		want *ct
	}
	cases := []tc{
		{"fn:map", []*ct{nm("/a"), nu(1), nm("/b"), nu(2)}, &ct{kind: "map", kids: []*ct{nm("/a"), nu(1), nm("/b"), nu(2)}}},
		{"fn:map", []*ct{nm("/b"), nu(2), nm("/a"), nu(1)}, &ct{kind: "map", kids: []*ct{nm("/a"), nu(1), nm("/b"), nu(2)}}},
		{"fn:map", []*ct{nm("/a"), nu(1), nm("/a"), nu(2)}, &ct{kind: "map", kids: []*ct{nm("/a"), nu(1)}}},
		{"fn:map", []*ct{nm("/a"), nu(1), nm("/b"), nu(2), nm("/a"), nu(3)}, &ct{kind: "map", kids: []*ct{nm("/a"), nu(1), nm("/b"), nu(2)}}},
		{"fn:struct", []*ct{nm("/a"), nu(1), nm("/b"), nu(2)}, &ct{kind: "struct", kids: []*ct{nm("/b"), nu(2), nm("/a"), nu(1)}}},
		{"fn:struct", []*ct{nm("/a"), nu(1), nm("/a"), nu(2)}, &ct{kind: "struct", kids: []*ct{nm("/a"), nu(1)}}},
		{"fn:list", []*ct{nu(1), nu(2)}, &ct{kind: "list", kids: []*ct{nu(1), nu(2)}}},
		{"fn:pair", []*ct{nu(1), nu(2)}, &ct{kind: "pair", kids: []*ct{nu(1), nu(2)}}},
	}
	bad := ""
	for _, t := range cases {
		got, ok := apply(t.sym, int64(-1), t.args...)
		if !ok {
			return
		}
		want := k.build(rC08Eval, t.want, false)
		if want == nil {
			return
		}
		if got == nil {
			if bad == "" {
				bad = fmt.Sprintf("%s mode: evaluation of %s over %d constants fails", mode, t.sym, len(t.args))
			}
			continue
		}
		eq, ok := k.equals(rC08Eval, got, want)
		if !ok {
			return
		}
		if (!eq || k.str(rC08Eval, got) != k.str(rC08Eval, want)) && bad == "" {
			var as []string
			for _, a := range t.args {
				as = append(as, a.canon())
			}
			bad = fmt.Sprintf("%s mode: %s(%s) evaluates to %s, the constructors give %s", mode, t.sym, strings.Join(as, ", "), k.str(rC08Eval, got), k.str(rC08Eval, want))
		}
	}
	c.Check(bad == "", rC08Eval, f.Name+":"+mode, f.Decl.Pos(), fmt.Sprintf("%d constructor expressions", len(cases)), bad)
}

func c08GroupKey(c *core.Ctx) {
	f := c.MustFunc(rC08Key, "engine", "groupKeyString")
	if f == nil {
		return
	}
	k := newC08Kit(c, rC08Key, false)
	if !k.ok {
		return
	}
	st := func(s string) *ct { return &ct{kind: "str", s: s} }
	nu := func(n int64) *ct { return &ct{kind: "num", n: n} }
	tuples := [][]*ct{
		{st("a"), st("b")}, {st("a\"\"b")}, {st("a|"), st("b")}, {st("a"), st("|b")}, {nu(1), nu(23)}, {nu(12), nu(3)}, {nu(123)},
		{st("1:a"), st("b")}, {st("a")}, {st("a"), st("")}, {}, {st("")}, {nu(1)}, {{kind: "float", f: 1}}, {st("1")},
		// texts that differ only by quotes and separators a printed list would contain
		{{kind: "list", kids: []*ct{st("a"), st("b")}}}, {{kind: "list", kids: []*ct{st("a\", \"b")}}}, {st("a\", \"b")}, {st("a"), st("b\"")}, {st("a\""), st("b")},
	}
	keyOf := func(t []*ct) (string, bool) {
		var es []ordabs.Value
		for _, x := range t {
			es = append(es, k.build(rC08Key, x, false))
		}
		if !k.ok {
			return "", false
		}
		if es == nil {
			es = []ordabs.Value{}
		}
		k.in.Reset()
		out, err := k.in.Call(f, nil, []ordabs.Value{&ordabs.Slice{Elems: &es}})
		if !runORD(c, rC08Key, f.Name, f, err) {
			return "", false
		}
		s, _ := out[0].(string)
		return s, true
	}
	canon := func(t []*ct) string {
		var ps []string
		for _, x := range t {
			ps = append(ps, x.canon())
		}
		return strings.Join(ps, ";")
	}
	bad := ""
	var ks []string
	for _, t := range tuples {
		s, ok := keyOf(t)
		if !ok {
			return
		}
		ks = append(ks, s)
	}
	for i := range tuples {
		for j := range tuples {
			if (ks[i] == ks[j]) != (canon(tuples[i]) == canon(tuples[j])) && bad == "" {
				bad = fmt.Sprintf("the group keys (%s) and (%s) are encoded as %q and %q", canon(tuples[i]), canon(tuples[j]), ks[i], ks[j])
			}
		}
	}
	c.Check(bad == "", rC08Key, f.Name, f.Decl.Pos(), fmt.Sprintf("%d key tuples, pairwise", len(tuples)), bad)
}
