package props

import (
	"go/ast"
	"strings"

	"mgcheck/core"
)

// c04Reducer: no forced assertion on the reducer's argument in EvalReduceFn.
func c04Reducer(c *core.Ctx) {
	f := c.MustFunc(rC04Red, "functional", "EvalReduceFn")
	if f == nil {
		return
	}
	info := f.Pkg.TypesInfo
	var forced []string
	// forced assertions: x.(T) that are not the right-hand side of a two-value assignment or a type switch
	commaOK := map[*ast.TypeAssertExpr]bool{}
	ast.Inspect(f.Decl.Body, func(n ast.Node) bool {
		switch x := n.(type) {
		case *ast.AssignStmt:
			if len(x.Lhs) == 2 && len(x.Rhs) == 1 {
				if ta, ok := ast.Unparen(x.Rhs[0]).(*ast.TypeAssertExpr); ok {
					commaOK[ta] = true
				}
			}
		case *ast.ValueSpec:
			if len(x.Names) == 2 && len(x.Values) == 1 {
				if ta, ok := ast.Unparen(x.Values[0]).(*ast.TypeAssertExpr); ok {
					commaOK[ta] = true
				}
			}
		case *ast.TypeSwitchStmt:
			ast.Inspect(x.Assign, func(m ast.Node) bool {
				if ta, ok := m.(*ast.TypeAssertExpr); ok {
					commaOK[ta] = true
				}
				return true
			})
		}
		return true
	})
	ast.Inspect(f.Decl.Body, func(n ast.Node) bool {
		ta, ok := n.(*ast.TypeAssertExpr)
		if !ok || ta.Type == nil || commaOK[ta] {
			return true
		}
		if core.TypeName(info.TypeOf(ta.Type)) == "ast.Variable" {
			forced = append(forced, c.Prog.Pos(ta.Pos())+": "+core.Src(c.Prog.Fset, ta))
		}
		return true
	})
	c.Check(len(forced) == 0, rC04Red, f.Name, f.Decl.Pos(), "the reducer's argument is tested, not asserted, to be a variable", "forced type assertion(s) on a term that analysis does not guarantee to be a variable (let S = fn:sum(3) passes analysis and would panic): "+strings.Join(forced, ", "))
}
