package props

import (
	"go/ast"
	"strings"

	"mgcheck/core"
)

// c04AnalyzeOrder: in Analyzer.Analyze the clause given to CheckRule is the loop's clause variable after
// RewriteClause assigned it, and the same variable is appended to rules.
func c04AnalyzeOrder(c *core.Ctx) {
	f := c.MustFunc(rC04Ord, "analysis", "Analyzer.Analyze")
	if f == nil {
		return
	}
	info := f.Pkg.TypesInfo
	var loop *ast.RangeStmt
	ast.Inspect(f.Decl.Body, func(n ast.Node) bool {
		if rs, ok := n.(*ast.RangeStmt); ok && core.ContainsCall(info, rs.Body, false, "analysis.Analyzer.CheckRule") {
			loop = rs
		}
		return true
	})
	if loop == nil {
		c.Unres(rC04Ord, f.Name, f.Decl.Pos(), "no loop calling CheckRule found in Analyze")
		return
	}
	g := core.BuildCFG(c.Prog.Fset, info, loop.Body)
	rewrites := g.Find(func(n ast.Node) bool { return core.ContainsCall(info, n, false, "analysis.RewriteClause") })
	checks := g.Find(func(n ast.Node) bool { return core.ContainsCall(info, n, false, "analysis.Analyzer.CheckRule") })
	var problems []string
	if len(rewrites) != 1 || len(checks) != 1 {
		problems = append(problems, "expected one RewriteClause and one CheckRule call per clause")
	} else {
		if !g.RefDominates(rewrites[0], checks[0]) {
			problems = append(problems, "CheckRule can run on a clause that was not rewritten")
		}
		as, ok := rewrites[0].Node().(*ast.AssignStmt)
		var v *ast.Ident
		if ok && len(as.Lhs) == 1 {
			v, _ = as.Lhs[0].(*ast.Ident)
		}
		if v == nil {
			problems = append(problems, "the rewritten clause is not stored in a variable")
		} else {
			call := core.FindCalls(info, checks[0].Node(), false, "analysis.Analyzer.CheckRule")[0]
			if id, ok := ast.Unparen(call.Args[0]).(*ast.Ident); !ok || info.Uses[id] != info.Uses[v] && info.Uses[id] != info.Defs[v] {
				problems = append(problems, "CheckRule is given "+core.Src(c.Prog.Fset, call.Args[0])+", not the rewritten clause "+v.Name)
			}
			// the clause appended to rules is the same variable, and it is not rewritten again after the check
			appended := false
			ast.Inspect(loop.Body, func(n ast.Node) bool {
				call, ok := n.(*ast.CallExpr)
				if !ok {
					return true
				}
				if id, ok := call.Fun.(*ast.Ident); ok && id.Name == "append" && len(call.Args) == 2 && strings.HasPrefix(core.Src(c.Prog.Fset, call.Args[0]), "rules") {
					if a, ok := ast.Unparen(call.Args[1]).(*ast.Ident); ok && (info.Uses[a] == info.Uses[v] || info.Uses[a] == info.Defs[v]) {
						appended = true
					}
				}
				return true
			})
			if !appended {
				problems = append(problems, "the clause appended to the program's rules is not the checked clause")
			}
			if _, again := g.Reach(checks, func(n ast.Node) bool { return core.ContainsCall(info, n, false, "analysis.RewriteClause") }, nil, false); again {
				problems = append(problems, "the clause is rewritten again after it was checked")
			}
		}
	}
	c.Check(len(problems) == 0, rC04Ord, f.Name, loop.Pos(), "rewrite, then check, then keep the same clause", strings.Join(problems, "; "))
}

// c04Reducer: no forced assertion on the reducer's argument in EvalReduceFn.
func c04Reducer(c *core.Ctx) {
	f := c.MustFunc(rC04Red, "functional", "EvalReduceFn")
	if f == nil {
		return
	}
	info := f.Pkg.TypesInfo
	var forced []string
	// forced assertions: x.(T) that are not the right-hand side of a two-value assignment or a type switch
	commaOK := map[*ast.TypeAssertExpr]bool{}
	ast.Inspect(f.Decl.Body, func(n ast.Node) bool {
		switch x := n.(type) {
		case *ast.AssignStmt:
			if len(x.Lhs) == 2 && len(x.Rhs) == 1 {
				if ta, ok := ast.Unparen(x.Rhs[0]).(*ast.TypeAssertExpr); ok {
					commaOK[ta] = true
				}
			}
		case *ast.ValueSpec:
			if len(x.Names) == 2 && len(x.Values) == 1 {
				if ta, ok := ast.Unparen(x.Values[0]).(*ast.TypeAssertExpr); ok {
					commaOK[ta] = true
				}
			}
		case *ast.TypeSwitchStmt:
			ast.Inspect(x.Assign, func(m ast.Node) bool {
				if ta, ok := m.(*ast.TypeAssertExpr); ok {
					commaOK[ta] = true
				}
				return true
			})
		}
		return true
	})
	ast.Inspect(f.Decl.Body, func(n ast.Node) bool {
		ta, ok := n.(*ast.TypeAssertExpr)
		if !ok || ta.Type == nil || commaOK[ta] {
			return true
		}
		if core.TypeName(info.TypeOf(ta.Type)) == "ast.Variable" {
			forced = append(forced, c.Prog.Pos(ta.Pos())+": "+core.Src(c.Prog.Fset, ta))
		}
		return true
	})
	c.Check(len(forced) == 0, rC04Red, f.Name, f.Decl.Pos(), "the reducer's argument is tested, not asserted, to be a variable", "forced type assertion(s) on a term that analysis does not guarantee to be a variable (let S = fn:sum(3) passes analysis and would panic): "+strings.Join(forced, ", "))
}
