package props

import (
	"fmt"
	"go/ast"
	"go/token"
	"go/types"
	"sort"
	"strings"

	"mgcheck/core"
)

// mapRangeSite is one range loop over a map whose result can depend on iteration order.
type mapRangeSite struct {
	fn    string // function display name
	expr  string // ranged expression
	class string // "collect" (appends to an outer slice) or "first-match" (break / element-dependent return)
	pos   token.Pos
	sorts bool // a sort call on the collected slice follows in the same function
}

// reviewedMapOrder lists today's order-sensitive map ranges with the reason their order cannot change the facts computed.
// Key: function + "|" + ranged expression + "|" + class. needSort: the loop is only harmless because a sort follows.
var reviewedMapOrder = map[string]struct {
	reason   string
	needSort bool
}{}

func reviewed(fn, expr, class, reason string, needSort bool) {
	reviewedMapOrder[fn+"|"+expr+"|"+class] = struct {
		reason   string
		needSort bool
	}{reason, needSort}
}

func init() {
	reviewed("analysis.newBoundsAnalyzer", "relTypeMap", "collect", "alternatives of a union type; UpperBound/SetConforms treat them as a set", false)
	reviewed("analysis.(*BoundsAnalyzer).BoundsCheck", "predSet", "collect", "predicates are sorted by symbol and arity before they are checked", true)
	reviewed("analysis.RewriteClause", "defVarMap", "collect", "feeds a VarList that is only searched with Find", false)
	reviewed("analysis.NewVarList", "m", "collect", "VarList is used as a set (Find/Contains/AsMap)", false)
	reviewed("analysis.(*Analyzer).checkPredicates", "a.decl", "collect", "only the text of an error message", false)
	reviewed("analysis.CheckTemporalRecursion", "scc", "first-match", "picks a predicate to name in a warning message; hasTemporalPred is an existential test", false)
	reviewed("ast.ConstSubstMap.Domain", "m", "collect", "domain of a substitution, used as a set", false)
	reviewed("ast.Map", "kvMap", "collect", "entries are sorted by key hash, ties by printed key, before the constant is built", true)
	reviewed("ast.Struct", "kvMap", "collect", "entries are sorted by label hash, ties by printed label, before the constant is built", true)
	reviewed("engine.EvalStratifiedProgramWithStats", "predToStratum", "collect", "order of predicates inside one stratum = order in which their rules run inside the fixpoint loop; the fixpoint does not depend on it (C01), optional sort under WithDeterministicOrder", false)
	reviewed("engine.(*engine).eval", "deltaRuleMap", "collect", "order of delta rules inside the fixpoint loop; optional sort under WithDeterministicOrder", false)
	reviewed("factstore.SimpleInMemoryStore.ListPredicates", "s.shardsByPredicate", "collect", "a set of predicates; simple-column output sorts it when Deterministic", false)
	reviewed("factstore.MergedStore.ListPredicates", "m", "collect", "a set of predicates", false)
	reviewed("factstore.TeeingStore.ListPredicates", "m", "collect", "a set of predicates", false)
	reviewed("factstore.IndexedInMemoryStore.ListPredicates", "s.constants", "collect", "a set of predicates", false)
	reviewed("factstore.IndexedInMemoryStore.ListPredicates", "s.shardsByPredicate", "collect", "a set of predicates", false)
	reviewed("factstore.MultiIndexedInMemoryStore.ListPredicates", "s.constants", "collect", "a set of predicates", false)
	reviewed("factstore.MultiIndexedInMemoryStore.ListPredicates", "s.shardsByPredicate", "collect", "a set of predicates", false)
	reviewed("factstore.(*MultiIndexedArrayInMemoryStore).ListPredicates", "s.constants", "collect", "a set of predicates", false)
	reviewed("factstore.(*MultiIndexedArrayInMemoryStore).ListPredicates", "s.shardsByPredicate", "collect", "a set of predicates", false)
	reviewed("factstore.(*TemporalStore).ListPredicates", "s.facts", "collect", "a set of predicates", false)
	reviewed("factstore.(*TeeingTemporalStore).ListPredicates", "m", "collect", "a set of predicates", false)
	reviewed("factstore.(*TemporalStore).Coalesce", "predMap", "collect", "the slice is local to one atom's tree; trees are independent", false)
	reviewed("interpreter.(*Interpreter).Show", "i.knownPredicates", "collect", "display only (the listing is sorted by symbol, the second loop builds a did-you-mean message)", false)
	reviewed("analysis.CheckTemporalRecursion", "scc", "collect", "order of warnings in the returned list; every warning is reported", false)
	reviewed("analysis.AnalyzeAndCheckBounds", "pkgs", "collect", "order of the clauses of different packages in the program; the model does not depend on clause order (C01 fixpoint, classification rule)", false)
	reviewed("engine.makeDeltaRules", "decls", "collect", "per-predicate lists of delta rules; the set of delta rules is the same for both map orders (evaluated under rule two-map-orders)", false)
	reviewed("interpreter.(*Interpreter).Show", "i.knownPredicates", "first-match", "prints the first predicate with the requested name; display only", false)
	reviewed("interpreter.(*Interpreter).ParseQuery", "i.knownPredicates", "first-match", "a bare predicate name that is known with two arities picks one of them: interactive convenience, the query result for the chosen arity is exact", false)
	reviewed("interpreter.(*Interpreter).Define", "programInfo.Decls", "collect", "list printed in the 'defined ...' message", false)
	reviewed("provenance.collectVars", "seen", "collect", "extractBindings sorts the bindings by variable name", false)
	reviewed("rewrite.makeHead", "vars", "collect", "column order of an internal relation; sorted by variable hash, and producer and consumer use the same atom", true)
	reviewed("symbols.unique", "hashes", "collect", "members of a union type, compared as a set by SetConforms", false)
}

// mapOrderRule (engine E4): every order-sensitive range over a map in the pipeline packages is reviewed.
func mapOrderRule(c *core.Ctx, rule string, pkgs []string) {
	var sites []mapRangeSite
	total := 0
	for _, rel := range pkgs {
		pkg := c.Prog.Pkg(rel)
		if pkg == nil {
			c.Unres(rule, rel, 0, "anchor-unresolved: package %s", rel)
			continue
		}
		info := pkg.TypesInfo
		for _, f := range c.Prog.AllFuncs(rel) {
			ast.Inspect(f.Decl.Body, func(n ast.Node) bool {
				rs, ok := n.(*ast.RangeStmt)
				if !ok {
					return true
				}
				t := info.TypeOf(rs.X)
				if t == nil {
					return true
				}
				if _, isMap := t.Underlying().(*types.Map); !isMap {
					return true
				}
				total++
				loopVars := map[types.Object]bool{}
				for _, e := range []ast.Expr{rs.Key, rs.Value} {
					if id, ok := e.(*ast.Ident); ok && id.Name != "_" {
						if o := info.Defs[id]; o != nil {
							loopVars[o] = true
						} else if o := info.Uses[id]; o != nil {
							loopVars[o] = true
						}
					}
				}
				mentionsLoopVar := func(e ast.Node) bool {
					found := false
					ast.Inspect(e, func(m ast.Node) bool {
						if id, ok := m.(*ast.Ident); ok && loopVars[info.Uses[id]] {
							found = true
						}
						return true
					})
					return found
				}
				collected := map[types.Object]bool{}
				first := false
				ast.Inspect(rs.Body, func(m ast.Node) bool {
					switch x := m.(type) {
					case *ast.FuncLit:
						return false
					case *ast.AssignStmt:
						for i, r := range x.Rhs {
							call, ok := ast.Unparen(r).(*ast.CallExpr)
							if !ok {
								continue
							}
							if id, ok := call.Fun.(*ast.Ident); !ok || id.Name != "append" {
								continue
							}
							if i < len(x.Lhs) {
								if lid, ok := ast.Unparen(x.Lhs[i]).(*ast.Ident); ok {
									o := info.Uses[lid]
									if o != nil && !(o.Pos() >= rs.Body.Pos() && o.Pos() < rs.Body.End()) {
										collected[o] = true
									}
								} else if _, ok := ast.Unparen(x.Lhs[i]).(*ast.IndexExpr); ok {
									// m[k] = append(m[k], v): per-key slices, e.g. stats.Strata[stratum]
									if root := rootIdent(x.Lhs[i]); root != nil {
										if o := info.Uses[root]; o != nil && !(o.Pos() >= rs.Body.Pos() && o.Pos() < rs.Body.End()) {
											collected[o] = true
										}
									}
								}
							}
						}
					case *ast.BranchStmt:
						if x.Tok == token.BREAK && x.Label == nil && innermostLoop(rs, x) {
							first = true
						}
					case *ast.ReturnStmt:
						for _, r := range x.Results {
							if tt := info.TypeOf(r); tt != nil && tt.String() == "error" {
								continue
							}
							if mentionsLoopVar(r) {
								first = true
							}
						}
					}
					return true
				})
				expr := core.Src(c.Prog.Fset, rs.X)
				if len(collected) > 0 {
					// does a sort follow?
					sorts := false
					ast.Inspect(f.Decl.Body, func(m ast.Node) bool {
						call, ok := m.(*ast.CallExpr)
						if !ok || call.Pos() < rs.End() {
							return true
						}
						nm := core.CallName(info, call)
						if strings.HasPrefix(nm, "sort.") || nm == "ast.SortIndexInto" || strings.HasPrefix(nm, "slices.Sort") {
							sorts = true
						}
						return true
					})
					sites = append(sites, mapRangeSite{f.Name, expr, "collect", rs.Pos(), sorts})
				}
				if first {
					sites = append(sites, mapRangeSite{f.Name, expr, "first-match", rs.Pos(), false})
				}
				return true
			})
		}
	}
	sort.Slice(sites, func(i, j int) bool { return sites[i].pos < sites[j].pos })
	seen := map[string]bool{}
	for _, s := range sites {
		key := s.fn + "|" + s.expr + "|" + s.class
		cons := s.fn + ":range " + s.expr + ":" + s.class
		rv, ok := reviewedMapOrder[key]
		seen[key] = true
		switch {
		case !ok:
			c.Bad(rule, cons, s.pos, "unreviewed order-sensitive iteration over a Go map (%s): map order is random per run, so whatever is built here may differ between two runs of the same program; if the order is unobservable, the reviewed table takes an entry with the reason", s.class)
		case rv.needSort && !s.sorts:
			c.Bad(rule, cons, s.pos, "this loop collects from a map and was only harmless because the slice is sorted afterwards (%s); no sort call follows it any more", rv.reason)
		default:
			c.OK(rule, cons, s.pos, "reviewed: %s", rv.reason)
		}
	}
	c.Cover("map_ranges_scanned", total)
	c.Note("%d ranges over maps scanned in %v; %d order-sensitive (collect / first-match)", total, pkgs, len(sites))
	_ = fmt.Sprint
}

// innermostLoop reports whether the break statement belongs to rs (no other loop or switch in between).
func innermostLoop(rs *ast.RangeStmt, br *ast.BranchStmt) bool {
	var path []ast.Node
	var found []ast.Node
	ast.Inspect(rs.Body, func(n ast.Node) bool {
		if n == nil {
			path = path[:len(path)-1]
			return true
		}
		path = append(path, n)
		if n == ast.Node(br) {
			found = append([]ast.Node{}, path...)
		}
		return true
	})
	for _, n := range found {
		switch n.(type) {
		case *ast.ForStmt, *ast.RangeStmt, *ast.SwitchStmt, *ast.TypeSwitchStmt, *ast.SelectStmt:
			return false
		}
	}
	return len(found) > 0
}
