package props

import (
	"fmt"
	"go/ast"
	"os"
	"go/token"
	"go/types"
	"sort"
	"strings"

	"mgcheck/core"
)

// mapRangeSite is one range loop over a map whose result can depend on iteration order.
type mapRangeSite struct {
	fn    string // function display name
	expr  string // ranged expression
	class string // "collect" (appends to an outer slice) or "first-match" (break / element-dependent return)
	pos   token.Pos
	sorts bool // a sort call on the collected slice follows in the same function (or in every caller after the call)
	sig   string // structural signature: package | map key type | class | collected element types
}

// reviewedMapOrder lists the kinds of order-sensitive map ranges that exist today, each with the reason the order
// cannot change the facts computed. A kind is the structural signature
//   package | key type of the map | class | element type(s) of what is collected
// and not a function or variable name, so that moving such a loop into a helper, or renaming what it ranges over,
// changes nothing. needSort: loops of this kind are only harmless because a sort follows (in the function or in
// every caller after the call).
var reviewedMapOrder = map[string]struct {
	reason   string
	needSort bool
}{}

func reviewed(sig, reason string, needSort bool) {
	reviewedMapOrder[sig] = struct {
		reason   string
		needSort bool
	}{reason, needSort}
}

func init() {
	reviewed("ast|ast.Variable|collect|ast.Variable", "domain of a substitution, used as a set (ConstSubstMap.Domain)", false)
	reviewed("symbols|uint64|collect|ast.Atom", "members of a union type, compared as a set by SetConforms (unique)", false)
	reviewed("factstore|ast.PredicateSym|collect|ast.PredicateSym", "ListPredicates of the stores: a set of predicates; simple-column output sorts it when Deterministic", false)
	reviewed("analysis|ast.Variable|collect|ast.Variable", "feeds a VarList that is only searched (Find/Contains/AsMap) (RewriteClause, NewVarList)", false)
	reviewed("analysis|uint64|collect|ast.BaseTerm", "alternatives of a union type; UpperBound/SetConforms treat them as a set (newBoundsAnalyzer)", false)
	reviewed("analysis|ast.PredicateSym|collect|ast.PredicateSym", "predicates are sorted by symbol and arity before they are checked (BoundsCheck)", true)
	reviewed("analysis|ast.PredicateSym|collect|int", "only the text of an error message (checkPredicates)", false)
	reviewed("analysis|ast.PredicateSym|collect|analysis.TemporalWarning", "order of warnings in the returned list; every warning is reported (CheckTemporalRecursion)", false)
	reviewed("analysis|ast.PredicateSym|first-match|", "picks a predicate to name in a warning message; hasTemporalPred is an existential test (CheckTemporalRecursion)", false)
	reviewed("analysis|string|collect|ast.Clause,ast.Decl", "order of the clauses of different packages in the program; the model does not depend on clause order (C01 fixpoint, classification rule) (AnalyzeAndCheckBounds)", false)
	reviewed("rewrite|ast.Variable|collect|ast.BaseTerm", "column order of an internal relation; sorted by variable hash, and producer and consumer use the same atom (makeHead)", true)
	reviewed("engine|ast.PredicateSym|collect|engine.Stats", "order of predicates inside one stratum = order in which their rules run inside the fixpoint loop; the fixpoint does not depend on it (C01), optional sort under WithDeterministicOrder", false)
	reviewed("engine|ast.PredicateSym|collect|ast.Clause", "per-predicate lists of delta rules; the set of delta rules is the same for both map orders (evaluated under rule two-map-orders) (makeDeltaRules)", false)
	reviewed("engine|ast.PredicateSym|collect|ast.PredicateSym", "order of delta rules inside the fixpoint loop; optional sort under WithDeterministicOrder (eval)", false)
	reviewed("interpreter|ast.PredicateSym|collect|ast.PredicateSym", "display only: the listing of Show is sorted by symbol, Define prints a 'defined ...' message", false)
	reviewed("interpreter|ast.PredicateSym|collect|string", "display only: did-you-mean message of Show", false)
	reviewed("interpreter|ast.PredicateSym|first-match|", "a bare predicate name that is known with two arities picks one of them: interactive convenience, the query result for the chosen arity is exact (ParseQuery, Show)", false)
	reviewed("ast|*ast.Constant|collect|*ast.Constant,*ast.Constant", "keys and values of a map or struct constant under construction: SortIndexInto puts the entries into canonical order (key hash, then printed form) before the constant is built; one constant for every supply order is evaluated under C08's map-struct-supply-order (ast.Map, ast.Struct)", false)
	reviewed("provenance|string|collect|ast.Variable", "extractBindings sorts the bindings by variable name (collectVars)", false)
}

// mapOrderRule (engine E4): every order-sensitive range over a map in the pipeline packages is reviewed.
func mapOrderRule(c0 *core.Ctx, rule string, pkgs []string) {
	c := &moCtx{Ctx: c0}
	var sites []mapRangeSite
	total := 0
	for _, rel := range pkgs {
		pkg := c.Prog.Pkg(rel)
		if pkg == nil {
			c.Unres(rule, rel, 0, "anchor-unresolved: package %s", rel)
			continue
		}
		info := pkg.TypesInfo
		for _, f := range c.Prog.AllFuncs(rel) {
			ast.Inspect(f.Decl.Body, func(n ast.Node) bool {
				rs, ok := n.(*ast.RangeStmt)
				if !ok {
					return true
				}
				t := info.TypeOf(rs.X)
				if t == nil {
					return true
				}
				if _, isMap := t.Underlying().(*types.Map); !isMap {
					return true
				}
				total++
				loopVars := map[types.Object]bool{}
				for _, e := range []ast.Expr{rs.Key, rs.Value} {
					if id, ok := e.(*ast.Ident); ok && id.Name != "_" {
						if o := info.Defs[id]; o != nil {
							loopVars[o] = true
						} else if o := info.Uses[id]; o != nil {
							loopVars[o] = true
						}
					}
				}
				mentionsLoopVar := func(e ast.Node) bool {
					found := false
					ast.Inspect(e, func(m ast.Node) bool {
						if id, ok := m.(*ast.Ident); ok && loopVars[info.Uses[id]] {
							found = true
						}
						return true
					})
					return found
				}
				collected := map[types.Object]bool{}
				first := false
				ast.Inspect(rs.Body, func(m ast.Node) bool {
					switch x := m.(type) {
					case *ast.FuncLit:
						return false
					case *ast.AssignStmt:
						for i, r := range x.Rhs {
							call, ok := ast.Unparen(r).(*ast.CallExpr)
							if !ok {
								continue
							}
							if id, ok := call.Fun.(*ast.Ident); !ok || id.Name != "append" {
								continue
							}
							if i < len(x.Lhs) {
								if lid, ok := ast.Unparen(x.Lhs[i]).(*ast.Ident); ok {
									o := info.Uses[lid]
									if o != nil && !(o.Pos() >= rs.Body.Pos() && o.Pos() < rs.Body.End()) {
										collected[o] = true
									}
								} else if _, ok := ast.Unparen(x.Lhs[i]).(*ast.IndexExpr); ok {
									// m[k] = append(m[k], v): per-key slices, e.g. stats.Strata[stratum]
									if root := rootIdent(x.Lhs[i]); root != nil {
										if o := info.Uses[root]; o != nil && !(o.Pos() >= rs.Body.Pos() && o.Pos() < rs.Body.End()) {
											collected[o] = true
										}
									}
								}
							}
						}
					case *ast.BranchStmt:
						if x.Tok == token.BREAK && x.Label == nil && innermostLoop(rs, x) {
							first = true
						}
					case *ast.ReturnStmt:
						for _, r := range x.Results {
							if tt := info.TypeOf(r); tt != nil && tt.String() == "error" {
								continue
							}
							if mentionsLoopVar(r) {
								first = true
							}
						}
					}
					return true
				})
				expr := core.Src(c.Prog.Fset, rs.X)
				qual := func(p *types.Package) string { return p.Name() }
				keyT := types.TypeString(t.Underlying().(*types.Map).Key(), qual)
				if len(collected) > 0 {
					// does a sort follow - here, or in every caller after the call (the loop may live in a helper)?
					sorts := sortFollows(info, f.Decl.Body, rs.End())
					if !sorts {
						sorts = c.sortFollowsInCallers(f)
					}
					var elems []string
					for o := range collected {
						et := o.Type().Underlying()
						if m, ok := et.(*types.Map); ok {
							et = m.Elem().Underlying()
						}
						if sl, ok := et.(*types.Slice); ok {
							elems = append(elems, types.TypeString(sl.Elem(), qual))
						} else {
							elems = append(elems, types.TypeString(o.Type(), qual))
						}
					}
					sort.Strings(elems)
					sites = append(sites, mapRangeSite{f.Name, expr, "collect", rs.Pos(), sorts, rel + "|" + keyT + "|collect|" + strings.Join(elems, ",")})
				}
				if first {
					sites = append(sites, mapRangeSite{f.Name, expr, "first-match", rs.Pos(), false, rel + "|" + keyT + "|first-match|"})
				}
				return true
			})
		}
	}
	sort.Slice(sites, func(i, j int) bool { return sites[i].pos < sites[j].pos })
	if os.Getenv("MGCHECK_DUMP_MAPORDER") != "" {
		for _, s := range sites {
			fmt.Printf("MAPORDER-SITE %s|%s|%s => %s sorts=%v\n", s.fn, s.expr, s.class, s.sig, s.sorts)
		}
	}
	for _, s := range sites {
		cons := s.sig
		rv, ok := reviewedMapOrder[s.sig]
		switch {
		case !ok:
			c.Bad(rule, cons, s.pos, "%s ranges over %s: an order-sensitive iteration over a Go map (%s) of a kind that is not in the reviewed table (package | key type | class | collected element type): map order is random per run, so whatever is built here may differ between two runs of the same program; if the order is unobservable, the table takes an entry with the reason", s.fn, s.expr, s.class)
		case rv.needSort && !s.sorts:
			c.Bad(rule, cons, s.pos, "%s ranges over %s: this kind of loop collects from a map and is only harmless because the slice is sorted afterwards (%s); no sort call follows it, neither here nor in the callers", s.fn, s.expr, rv.reason)
		default:
			c.OK(rule, cons, s.pos, "%s ranges over %s; reviewed: %s", s.fn, s.expr, rv.reason)
		}
	}
	c.Cover("map_ranges_scanned", total)
	c.Note("%d ranges over maps scanned in %v; %d order-sensitive (collect / first-match)", total, pkgs, len(sites))
}

type moCtx struct{ *core.Ctx }

func isSortCall(nm string) bool {
	return strings.HasPrefix(nm, "sort.") || nm == "ast.SortIndexInto" || strings.HasPrefix(nm, "slices.Sort")
}

// sortFollows reports whether a sort call occurs in body after position after.
func sortFollows(info *types.Info, body ast.Node, after token.Pos) bool {
	found := false
	ast.Inspect(body, func(m ast.Node) bool {
		call, ok := m.(*ast.CallExpr)
		if !ok || call.Pos() < after {
			return true
		}
		if isSortCall(core.CallName(info, call)) {
			found = true
		}
		return true
	})
	return found
}

// sortFollowsInCallers: f has at least one static caller in its package and each of them sorts after calling f.
func (c *moCtx) sortFollowsInCallers(f *core.Func) bool {
	rel := core.RelOf(f.Pkg.Types)
	n := 0
	for _, g := range c.Prog.AllFuncs(rel) {
		info := g.Pkg.TypesInfo
		var calls []*ast.CallExpr
		ast.Inspect(g.Decl.Body, func(m ast.Node) bool {
			if call, ok := m.(*ast.CallExpr); ok {
				if fn, _ := core.Callee(info, call).(*types.Func); fn != nil && fn == f.Obj {
					calls = append(calls, call)
				}
			}
			return true
		})
		for _, call := range calls {
			n++
			if !sortFollows(info, g.Decl.Body, call.End()) {
				return false
			}
		}
	}
	return n > 0
}

// innermostLoop reports whether the break statement belongs to rs (no other loop or switch in between).
func innermostLoop(rs *ast.RangeStmt, br *ast.BranchStmt) bool {
	var path []ast.Node
	var found []ast.Node
	ast.Inspect(rs.Body, func(n ast.Node) bool {
		if n == nil {
			path = path[:len(path)-1]
			return true
		}
		path = append(path, n)
		if n == ast.Node(br) {
			found = append([]ast.Node{}, path...)
		}
		return true
	})
	for _, n := range found {
		switch n.(type) {
		case *ast.ForStmt, *ast.RangeStmt, *ast.SwitchStmt, *ast.TypeSwitchStmt, *ast.SelectStmt:
			return false
		}
	}
	return len(found) > 0
}
