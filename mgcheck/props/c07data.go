package props

import (
	"fmt"
	"strings"

	"mgcheck/core"
	"mgcheck/ordabs"
)

const (
	rC07Data  = "ORDABS.constructors-and-accessors-inverse"
	rC07Match = "ORDABS.matching-predicates-inverse"
)

// c07DataLaws: what is put into a pair, list, map or struct is what the get-functions and the matching
// predicates return. functional.EvalApplyFn and builtin.Decide are read from source and evaluated on constants
// built through the interpreted constructors.
func c07DataLaws(c *core.Ctx) {
	c.Rule(rC07Data, "functional.EvalApplyFn, read from source and evaluated on lists, maps, structs and pairs of up to three entries built through the interpreted constructors (elements of several kinds, nested values, keys whose hashes coincide): fn:list:get returns the element at every index and an error outside, fn:list:len the length, fn:list:cons / fn:list:append the extended list, fn:list:contains membership by value; fn:map:get and fn:struct:get return the value stored under every key and an error for an absent one", 4)
	c.Rule(rC07Match, "builtin.Decide, read from source and evaluated on the same values: :match_pair binds both components, :match_cons head and tail (and fails on the empty list), :match_nil holds for the empty list only, :match_entry and :match_field bind the value stored under the key, :list:member with a variable enumerates exactly the elements in order and with a constant decides membership by value", 3)
	ev := c.MustFunc(rC07Data, "functional", "EvalApplyFn")
	dec := c.MustFunc(rC07Match, "builtin", "Decide")
	if ev == nil || dec == nil {
		return
	}
	k := newC08Kit(c, rC07Data, false)
	if !k.ok {
		return
	}
	nm := func(s string) *ct { return &ct{kind: "name", s: s} }
	st := func(s string) *ct { return &ct{kind: "str", s: s} }
	nu := func(n int64) *ct { return &ct{kind: "num", n: n} }
	sh := func(kind string, kids ...*ct) *ct { return &ct{kind: kind, kids: kids} }
	elems := []*ct{nu(1), nu(2), st("a"), nm("/a"), {kind: "time", n: 1}, {kind: "dur", n: 1}, sh("pair", nu(1), nu(2)), sh("list", nu(1)), sh("list")}
	// lists of length 0..3 over a few element choices
	var lists [][]*ct
	lists = append(lists, nil)
	for _, a := range elems {
		lists = append(lists, []*ct{a})
	}
	for i := 0; i+1 < len(elems); i++ {
		lists = append(lists, []*ct{elems[i], elems[i+1]}, []*ct{elems[i+1], elems[i], elems[i+1]})
	}
	lists = append(lists, []*ct{nu(1), {kind: "time", n: 1}, {kind: "dur", n: 1}}) // equal hashes, different values
	apply := func(rule, sym string, arity int64, args ...ordabs.Value) (*ordabs.Rec, bool, bool) {
		fn := &ordabs.Rec{T: "ast.ApplyFn", Fields: map[string]ordabs.Value{
			"Function": &ordabs.Rec{T: "ast.FunctionSym", Fields: map[string]ordabs.Value{"Symbol": sym, "Arity": arity}},
			"Args":     &ordabs.Slice{Elems: &args}}}
		k.in.Reset()
		k.in.Fuel = 400000
		out, err := k.in.Call(ev, nil, []ordabs.Value{fn, nil})
		if !runORD(c, rule, ev.Name+":"+sym, ev, err) {
			return nil, false, false
		}
		if out[1] != nil {
			return nil, true, true // evaluation error
		}
		r, _ := out[0].(*ordabs.Rec)
		return r, false, true
	}
	same := func(rule string, a *ordabs.Rec, want *ct) (bool, bool) {
		w := k.build(rule, want, false)
		if w == nil || a == nil {
			return false, w != nil
		}
		eq, ok := k.equals(rule, a, w)
		return eq && k.str(rule, a) == k.str(rule, w), ok
	}
	show := func(r *ordabs.Rec) string {
		if r == nil {
			return "<nothing>"
		}
		return k.str(rC07Data, r)
	}
	bld := func(t *ct) *ordabs.Rec { return k.build(rC07Data, t, false) }
	// ast.TrueConstant / ast.FalseConstant are set in the package's init function: the names /true and /false
	if k.in.Globals == nil {
		k.in.Globals = map[string]ordabs.Value{}
	}
	k.in.Globals["ast.TrueConstant"], k.in.Globals["ast.FalseConstant"] = bld(nm("/true")), bld(nm("/false"))
	num := func(n int64) ordabs.Value { return bld(nu(n)) }
	// ---- lists ----
	bad, n := "", 0
	for _, l := range lists {
		lt := sh("list", l...)
		lv := bld(lt)
		if lv == nil {
			return
		}
		for i := -1; i <= len(l); i++ {
			got, isErr, ok := apply(rC07Data, "fn:list:get", 2, lv, num(int64(i)))
			if !ok {
				return
			}
			n++
			if i < 0 || i >= len(l) {
				if !isErr && bad == "" {
					bad = fmt.Sprintf("fn:list:get(%s, %d) returns %s, want an error (index outside the list)", lt.canon(), i, show(got))
				}
				continue
			}
			if eq, ok2 := same(rC07Data, got, l[i]); !ok2 {
				return
			} else if (isErr || !eq) && bad == "" {
				bad = fmt.Sprintf("fn:list:get(%s, %d) = %s (error=%v), want %s", lt.canon(), i, show(got), isErr, l[i].canon())
			}
		}
		got, isErr, ok := apply(rC07Data, "fn:list:len", 1, lv)
		if !ok {
			return
		}
		if eq, _ := same(rC07Data, got, nu(int64(len(l)))); (isErr || !eq) && bad == "" {
			bad = fmt.Sprintf("fn:list:len(%s) = %s, want %d", lt.canon(), show(got), len(l))
		}
		for _, x := range []*ct{nu(9), nu(1), {kind: "time", n: 1}} {
			got, isErr, ok = apply(rC07Data, "fn:list:cons", 2, bld(x), lv)
			if !ok {
				return
			}
			if eq, _ := same(rC07Data, got, sh("list", append([]*ct{x}, l...)...)); (isErr || !eq) && bad == "" {
				bad = fmt.Sprintf("fn:list:cons(%s, %s) = %s", x.canon(), lt.canon(), show(got))
			}
			got, isErr, ok = apply(rC07Data, "fn:list:append", 2, lv, bld(x))
			if !ok {
				return
			}
			if eq, _ := same(rC07Data, got, sh("list", append(append([]*ct{}, l...), x)...)); (isErr || !eq) && bad == "" {
				bad = fmt.Sprintf("fn:list:append(%s, %s) = %s", lt.canon(), x.canon(), show(got))
			}
			got, isErr, ok = apply(rC07Data, "fn:list:contains", 2, lv, bld(x))
			if !ok {
				return
			}
			member := false
			for _, e := range l {
				member = member || e.canon() == x.canon()
			}
			wantB := nm("/false")
			if member {
				wantB = nm("/true")
			}
			if eq, _ := same(rC07Data, got, wantB); (isErr || !eq) && bad == "" {
				bad = fmt.Sprintf("fn:list:contains(%s, %s) = %s, want %s (membership is by value, not by hash)", lt.canon(), x.canon(), show(got), wantB.s)
			}
			n += 3
		}
	}
	c.Check(bad == "", rC07Data, ev.Name+":lists", ev.Decl.Pos(), fmt.Sprintf("%d evaluations over %d lists", n, len(lists)), bad)
	// ---- maps and structs ----
	keySets := [][]*ct{{nm("/a"), nm("/b"), nm("/c")}, {nu(1), {kind: "time", n: 1}, {kind: "dur", n: 1}}, {nm("/a"), st("/a"), {kind: "bytes", s: "/a"}}}
	vals := []*ct{nu(10), st("v"), sh("list", nu(1), nu(2))}
	for _, kind := range []string{"map", "struct"} {
		bad, n = "", 0
		getter := map[string]string{"map": "fn:map:get", "struct": "fn:struct:get"}[kind]
		for _, keys := range keySets {
			for size := 0; size <= 3; size++ {
				t := &ct{kind: kind}
				for i := 0; i < size; i++ {
					t.kids = append(t.kids, keys[i], vals[i])
				}
				mv := bld(t)
				if mv == nil {
					return
				}
				for i := 0; i < 3; i++ {
					got, isErr, ok := apply(rC07Data, getter, 2, mv, bld(keys[i]))
					if !ok {
						return
					}
					n++
					if i >= size {
						if !isErr && bad == "" {
							bad = fmt.Sprintf("%s(%s, %s) returns %s for a key that is not in it, want an error", getter, t.canon(), keys[i].canon(), show(got))
						}
						continue
					}
					if eq, _ := same(rC07Data, got, vals[i]); (isErr || !eq) && bad == "" {
						bad = fmt.Sprintf("%s(%s, %s) = %s (error=%v), want %s", getter, t.canon(), keys[i].canon(), show(got), isErr, vals[i].canon())
					}
				}
			}
		}
		c.Check(bad == "", rC07Data, ev.Name+":"+kind+"s", ev.Decl.Pos(), fmt.Sprintf("%d lookups", n), bad)
	}
	// pair
	{
		bad = ""
		for _, a := range elems {
			for _, b := range []*ct{nu(7), st("b")} {
				got, isErr, ok := apply(rC07Data, "fn:pair", 2, bld(a), bld(b))
				if !ok {
					return
				}
				if eq, _ := same(rC07Data, got, sh("pair", a, b)); (isErr || !eq) && bad == "" {
					bad = fmt.Sprintf("fn:pair(%s, %s) = %s", a.canon(), b.canon(), show(got))
				}
			}
		}
		c.Check(bad == "", rC07Data, ev.Name+":pairs", ev.Decl.Pos(), "fn:pair builds the pair of its arguments", bad)
	}

	// ---- arithmetic and string functions reach the right implementation, with the arguments in order ----
	{
		bad := ""
		for _, t := range []struct {
			sym  string
			want int64
		}{{"fn:plus", 9}, {"fn:minus", 5}, {"fn:mult", 14}, {"fn:div", 3}, {"fn:mod", 1}} {
			arity := int64(-1)
			if t.sym == "fn:mod" {
				arity = 2
			}
			got, isErr, ok := apply(rC07Disp, t.sym, arity, num(7), num(2))
			if !ok {
				return
			}
			if eq, _ := same(rC07Disp, got, nu(t.want)); (isErr || !eq) && bad == "" {
				bad = fmt.Sprintf("%s(7, 2) = %s (error=%v), want %d", t.sym, show(got), isErr, t.want)
			}
		}
		c.Check(bad == "", rC07Disp, ev.Name+":arithmetic", ev.Decl.Pos(), "fn:plus, fn:minus, fn:mult, fn:div and fn:mod of (7, 2) are 9, 5, 14, 3 and 1", bad)
		bad, n = "", 0
		texts := []string{"", "a", "aXbXc", "XX", "XXX"}
		olds := []string{"", "X", "XX", "b"}
		news := []string{"", "yy", "X"}
		for _, s0 := range texts {
			for _, o := range olds {
				for _, nw := range news {
					for _, cnt := range []int64{-1, 0, 1, 2} {
						got, isErr, ok := apply(rC07Str, "fn:string:replace", 4, bld(st(s0)), bld(st(o)), bld(st(nw)), num(cnt))
						if !ok {
							return
						}
						n++
						want := strings.Replace(s0, o, nw, int(cnt))
						if eq, _ := same(rC07Str, got, st(want)); (isErr || !eq) && bad == "" {
							bad = fmt.Sprintf("fn:string:replace(%q, %q, %q, %d) = %s (error=%v), plain strings.Replace gives %q", s0, o, nw, cnt, show(got), isErr, want)
						}
					}
				}
			}
		}
		c.Check(bad == "", rC07Str, ev.Name+":StringReplace", ev.Decl.Pos(), fmt.Sprintf("%d argument combinations agree with strings.Replace", n), bad)
		bad = ""
		for _, parts := range [][]string{{}, {"a"}, {"a", "b"}, {"b", "a"}, {"a", "", "b"}, {"x\"y", "z"}} {
			var as []ordabs.Value
			for _, p := range parts {
				as = append(as, bld(st(p)))
			}
			got, isErr, ok := apply(rC07Str, "fn:string:concat", -1, as...)
			if !ok {
				return
			}
			want := strings.Join(parts, "")
			if eq, _ := same(rC07Str, got, st(want)); (isErr || !eq) && bad == "" {
				bad = fmt.Sprintf("fn:string:concat%q = %s (error=%v), want %q", parts, show(got), isErr, want)
			}
		}
		c.Check(bad == "", rC07Str, ev.Name+":StringConcatenate", ev.Decl.Pos(), "the texts are joined in argument order", bad)
	}

	// ---- matching predicates ----
	V := func(name string) ordabs.Value {
		return &ordabs.Rec{Fields: map[string]ordabs.Value{"Symbol": name}, T: "ast.Variable"}
	}
	subst := func() *ordabs.Obj {
		return &ordabs.Obj{Name: "subst", Fields: map[string]ordabs.Value{"parent": ordabs.NewMap()}, T: "unionfind.UnionFind"}
	}
	get := c.MustFunc(rC07Match, "unionfind", "UnionFind.Get")
	if get == nil {
		return
	}
	decide := func(pred string, args ...ordabs.Value) (holds bool, sols []*ordabs.Obj, isErr, ok bool) {
		atom := &ordabs.Rec{T: "ast.Atom", Fields: map[string]ordabs.Value{
			"Predicate": &ordabs.Rec{T: "ast.PredicateSym", Fields: map[string]ordabs.Value{"Symbol": pred, "Arity": int64(len(args))}},
			"Args":      &ordabs.Slice{Elems: &args}}}
		k.in.Reset()
		k.in.Fuel = 400000
		out, err := k.in.Call(dec, nil, []ordabs.Value{atom, subst()})
		if !runORD(c, rC07Match, dec.Name+":"+pred, dec, err) {
			return false, nil, false, false
		}
		if out[2] != nil {
			return false, nil, true, true
		}
		holds, _ = out[0].(bool)
		if sl, _ := out[1].(*ordabs.Slice); sl != nil {
			for _, s := range *sl.Elems {
				if o, _ := s.(*ordabs.Obj); o != nil {
					sols = append(sols, o)
				}
			}
		}
		return holds, sols, false, true
	}
	valueOf := func(s *ordabs.Obj, name string) *ordabs.Rec {
		k.in.Reset()
		out, err := k.in.Call(get, &ordabs.Rec{Fields: s.Fields, T: "unionfind.UnionFind"}, []ordabs.Value{V(name)})
		if err != nil {
			return nil
		}
		r, _ := out[0].(*ordabs.Rec)
		if r == nil || r.T != "ast.Constant" {
			return nil
		}
		return r
	}
	boundTo := func(s *ordabs.Obj, name string, want *ct) bool {
		v := valueOf(s, name)
		if v == nil {
			return false
		}
		eq, _ := same(rC07Match, v, want)
		return eq
	}
	bad, n = "", 0
	// :match_pair
	for _, a := range elems {
		b := st("b")
		holds, sols, isErr, ok := decide(":match_pair", bld(sh("pair", a, b)), V("X"), V("Y"))
		if !ok {
			return
		}
		n++
		if (isErr || !holds || len(sols) != 1 || !boundTo(sols[0], "X", a) || !boundTo(sols[0], "Y", b)) && bad == "" {
			bad = fmt.Sprintf(":match_pair(fn:pair(%s, %s), X, Y): holds=%v error=%v with %d solution(s); want X and Y bound to the components", a.canon(), b.canon(), holds, isErr, len(sols))
		}
	}
	if holds, _, isErr, ok := decide(":match_pair", bld(nu(1)), V("X"), V("Y")); ok && (holds || isErr) && bad == "" {
		bad = ":match_pair(1, X, Y) must simply fail: a failing match is not an error"
	}
	c.Check(bad == "", rC07Match, dec.Name+"::match_pair", dec.Decl.Pos(), fmt.Sprintf("%d pairs taken apart", n), bad)
	// :match_cons / :match_nil / :list:member
	bad, n = "", 0
	for _, l := range lists {
		lt := sh("list", l...)
		lv := bld(lt)
		holds, sols, isErr, ok := decide(":match_cons", lv, V("H"), V("T"))
		if !ok {
			return
		}
		n++
		if len(l) == 0 {
			if (holds || isErr) && bad == "" {
				bad = ":match_cons on the empty list must fail without an error"
			}
		} else if (isErr || !holds || len(sols) != 1 || !boundTo(sols[0], "H", l[0]) || !boundTo(sols[0], "T", sh("list", l[1:]...))) && bad == "" {
			bad = fmt.Sprintf(":match_cons(%s, H, T): holds=%v error=%v, %d solution(s); want H = %s and T = the rest", lt.canon(), holds, isErr, len(sols), l[0].canon())
		}
		holds, _, isErr, ok = decide(":match_nil", lv)
		if !ok {
			return
		}
		if (isErr || holds != (len(l) == 0)) && bad == "" {
			bad = fmt.Sprintf(":match_nil(%s) = %v", lt.canon(), holds)
		}
		// enumeration
		holds, sols, isErr, ok = decide(":list:member", V("X"), lv)
		if !ok {
			return
		}
		var got []string
		for _, s := range sols {
			if v := valueOf(s, "X"); v != nil {
				got = append(got, k.str(rC07Match, v))
			} else {
				got = append(got, "?")
			}
		}
		var want []string
		for _, e := range l {
			want = append(want, k.str(rC07Match, bld(e)))
		}
		if (isErr || holds != (len(l) > 0) || strings.Join(got, " ; ") != strings.Join(want, " ; ")) && bad == "" {
			bad = fmt.Sprintf(":list:member(X, %s) enumerates [%s] (holds=%v, error=%v), want exactly the elements [%s]", lt.canon(), strings.Join(got, " ; "), holds, isErr, strings.Join(want, " ; "))
		}
		for _, x := range []*ct{nu(1), {kind: "time", n: 1}, nu(9)} {
			holds, _, isErr, ok = decide(":list:member", bld(x), lv)
			if !ok {
				return
			}
			member := false
			for _, e := range l {
				member = member || e.canon() == x.canon()
			}
			if (isErr || holds != member) && bad == "" {
				bad = fmt.Sprintf(":list:member(%s, %s) = %v, want %v (membership is by value)", x.canon(), lt.canon(), holds, member)
			}
			n++
		}
	}
	c.Check(bad == "", rC07Match, dec.Name+"::match_cons/:match_nil/:list:member", dec.Decl.Pos(), fmt.Sprintf("%d decisions over %d lists", n, len(lists)), bad)
	// :match_entry / :match_field
	bad, n = "", 0
	for _, keys := range keySets {
		for size := 1; size <= 3; size++ {
			mt, stt := &ct{kind: "map"}, &ct{kind: "struct"}
			for i := 0; i < size; i++ {
				mt.kids = append(mt.kids, keys[i], vals[i])
				stt.kids = append(stt.kids, keys[i], vals[i])
			}
			for i := 0; i < 3; i++ {
				for _, q := range []struct {
					pred string
					v    *ct
				}{{":match_entry", mt}, {":match_field", stt}} {
					if q.pred == ":match_field" && keys[i].kind != "name" {
						continue
					}
					holds, sols, isErr, ok := decide(q.pred, bld(q.v), bld(keys[i]), V("V"))
					if !ok {
						return
					}
					n++
					if i >= size {
						if holds && bad == "" {
							bad = fmt.Sprintf("%s(%s, %s, V) holds although the key is absent", q.pred, q.v.canon(), keys[i].canon())
						}
						continue
					}
					if (isErr || !holds || len(sols) != 1 || !boundTo(sols[0], "V", vals[i])) && bad == "" {
						bad = fmt.Sprintf("%s(%s, %s, V): holds=%v error=%v, %d solution(s); want V = %s", q.pred, q.v.canon(), keys[i].canon(), holds, isErr, len(sols), vals[i].canon())
					}
				}
			}
		}
	}
	c.Check(bad == "", rC07Match, dec.Name+"::match_entry/:match_field", dec.Decl.Pos(), fmt.Sprintf("%d lookups by matching", n), bad)
}
