package props

import (
	"fmt"
	"net/url"
	"regexp"
	"strings"

	"mgcheck/core"
	"mgcheck/ordabs"
)

func init() { register("C19", checkC19) }

const (
	rC19Eager = "ORDABS.write-then-readinto"
	rC19Lazy  = "ORDABS.write-then-lazy-getfacts"
	rC19Det   = "ORDABS.deterministic-bytes"
	rC19Kinds = "ORDABS.line-format-per-constant-kind"
)

// scPred is one predicate of an abstract store content.
type scPred struct {
	sym   string
	arity int
	facts [][]*ct
}

type c19Rig struct {
	c     *core.Ctx
	k     *c08Kit
	in    *ordabs.Interp
	write *core.Func
	readI *core.Func
	newSt *core.Func
	getF  *core.Func
	// per run
	content []scPred
	reverse bool
	vals    map[string]*ordabs.Rec // printed text -> constant
	added   []string
	ok      bool
}

func newC19Rig(c *core.Ctx, rule string, advers bool) *c19Rig {
	r := &c19Rig{c: c, ok: true}
	r.write = c.MustFunc(rule, "factstore", "SimpleColumn.WriteTo")
	r.readI = c.MustFunc(rule, "factstore", "SimpleColumn.ReadInto")
	r.newSt = c.MustFunc(rule, "factstore", "NewSimpleColumnStore")
	r.getF = c.MustFunc(rule, "factstore", "SimpleColumnStore.GetFacts")
	for _, n := range []string{"SimpleColumn.readPred", "readHeader", "SimpleColumn.writeHeader", "percentUnescape"} {
		if c.MustFunc(rule, "factstore", n) == nil {
			r.ok = false
		}
	}
	r.k = newC08Kit(c, rule, advers)
	if r.write == nil || r.readI == nil || r.newSt == nil || r.getF == nil || !r.k.ok {
		r.ok = false
		return r
	}
	in := r.k.in
	r.in = in
	in.StubSortSlice()
	predRec := func(p scPred) *ordabs.Rec {
		return &ordabs.Rec{T: "ast.PredicateSym", Fields: map[string]ordabs.Value{"Symbol": p.sym, "Arity": int64(p.arity)}}
	}
	order := func(n int) []int {
		idx := make([]int, n)
		for i := range idx {
			idx[i] = i
			if r.reverse {
				idx[i] = n - 1 - i
			}
		}
		return idx
	}
	in.Stubs["factstore.ReadOnlyFactStore.ListPredicates"] = func(in *ordabs.Interp, _ ordabs.Value, _ []ordabs.Value) ([]ordabs.Value, error) {
		var out []ordabs.Value
		for _, i := range order(len(r.content)) {
			out = append(out, predRec(r.content[i]))
		}
		if out == nil {
			return []ordabs.Value{(*ordabs.Slice)(nil)}, nil
		}
		return []ordabs.Value{&ordabs.Slice{Elems: &out}}, nil
	}
	in.Stubs["factstore.ReadOnlyFactStore.GetFacts"] = func(in *ordabs.Interp, _ ordabs.Value, a []ordabs.Value) ([]ordabs.Value, error) {
		q, _ := a[0].(*ordabs.Rec)
		qp, _ := q.Fields["Predicate"].(*ordabs.Rec)
		for _, p := range r.content {
			if p.sym != qp.Fields["Symbol"] || int64(p.arity) != qp.Fields["Arity"] {
				continue
			}
			for _, fi := range order(len(p.facts)) {
				var args []ordabs.Value
				for _, t := range p.facts[fi] {
					v := r.k.build(rC19Eager, t, false)
					if v == nil {
						return nil, &ordabs.Unsupported{What: "constant of the family could not be built"}
					}
					args = append(args, v)
				}
				var av ordabs.Value
				if args != nil {
					av = &ordabs.Slice{Elems: &args}
				}
				atom := &ordabs.Rec{T: "ast.Atom", Fields: map[string]ordabs.Value{"Predicate": predRec(p), "Args": av}}
				out, err := in.CallValue(a[1], []ordabs.Value{atom})
				if err != nil {
					return nil, err
				}
				if len(out) > 0 && out[0] != nil {
					return []ordabs.Value{out[0]}, nil
				}
			}
		}
		return []ordabs.Value{nil}, nil
	}
	in.Stubs["factstore.FactStore.Add"] = func(in *ordabs.Interp, _ ordabs.Value, a []ordabs.Value) ([]ordabs.Value, error) {
		s, err := r.renderAtom(a[0])
		if err != nil {
			return nil, err
		}
		r.added = append(r.added, s)
		return []ordabs.Value{true}, nil
	}
	in.Stubs["bufio.NewScanner"] = func(in *ordabs.Interp, _ ordabs.Value, a []ordabs.Value) ([]ordabs.Value, error) {
		rd, _ := a[0].(*ordabs.Obj)
		if rd == nil {
			return nil, &ordabs.Unsupported{What: "scanner over an unknown reader"}
		}
		return []ordabs.Value{&ordabs.Obj{Name: "scanner", T: "bufio.Scanner", Fields: map[string]ordabs.Value{"__lines": rd.Fields["__lines"], "__pos": int64(0), "__text": ""}}}, nil
	}
	in.Stubs["bufio.Scanner.Scan"] = func(in *ordabs.Interp, recv ordabs.Value, _ []ordabs.Value) ([]ordabs.Value, error) {
		sc := recv.(*ordabs.Obj)
		lines := sc.Fields["__lines"].(*ordabs.Slice)
		pos := sc.Fields["__pos"].(int64)
		if int(pos) >= len(*lines.Elems) {
			return []ordabs.Value{false}, nil
		}
		sc.Fields["__text"] = (*lines.Elems)[pos]
		sc.Fields["__pos"] = pos + 1
		return []ordabs.Value{true}, nil
	}
	in.Stubs["bufio.Scanner.Text"] = func(in *ordabs.Interp, recv ordabs.Value, _ []ordabs.Value) ([]ordabs.Value, error) {
		return []ordabs.Value{recv.(*ordabs.Obj).Fields["__text"]}, nil
	}
	closeStub := func(in *ordabs.Interp, _ ordabs.Value, _ []ordabs.Value) ([]ordabs.Value, error) {
		return []ordabs.Value{nil}, nil
	}
	in.Stubs["io.Closer.Close"] = closeStub
	in.Stubs["io.ReadCloser.Close"] = closeStub
	in.Stubs["fmt.Sscanf"] = func(in *ordabs.Interp, _ ordabs.Value, a []ordabs.Value) ([]ordabs.Value, error) {
		text, _ := a[0].(string)
		format, _ := a[1].(string)
		if format != "%s %d %d" || len(a) != 5 {
			return nil, &ordabs.Unsupported{What: "fmt.Sscanf with a format other than the header line's"}
		}
		var name string
		var x, y int
		n, err := fmt.Sscanf(text, format, &name, &x, &y)
		for i, v := range []ordabs.Value{name, int64(x), int64(y)} {
			p, ok := a[2+i].(*ordabs.VarPtr)
			if !ok {
				return nil, &ordabs.Unsupported{What: "fmt.Sscanf into a non-variable"}
			}
			if i < n {
				p.Set(v)
			}
		}
		if err != nil {
			return []ordabs.Value{int64(n), ordabs.ErrVal{Tag: "sscanf"}}, nil
		}
		return []ordabs.Value{int64(n), nil}, nil
	}
	predName := regexp.MustCompile(`^[a-zA-Z:][a-zA-Z0-9_:.]*$`)
	in.Stubs["parse.PredicateName"] = func(in *ordabs.Interp, _ ordabs.Value, a []ordabs.Value) ([]ordabs.Value, error) {
		s, _ := a[0].(string)
		if !predName.MatchString(s) {
			return []ordabs.Value{"", ordabs.ErrVal{Tag: "bad predicate name"}}, nil
		}
		return []ordabs.Value{s, nil}, nil
	}
	in.Stubs["net/url.QueryUnescape"] = func(in *ordabs.Interp, _ ordabs.Value, a []ordabs.Value) ([]ordabs.Value, error) {
		s, err := url.QueryUnescape(a[0].(string))
		if err != nil {
			return []ordabs.Value{"", ordabs.ErrVal{Tag: "unescape"}}, nil
		}
		return []ordabs.Value{s, nil}, nil
	}
	// Parsing and evaluating one line is the business of the print/parse property (C09):
	// here a line is understood iff it is the printed form of a constant of the family.
	in.Stubs["parse.BaseTerm"] = func(in *ordabs.Interp, _ ordabs.Value, a []ordabs.Value) ([]ordabs.Value, error) {
		s, _ := a[0].(string)
		if v, ok := r.vals[s]; ok {
			return []ordabs.Value{v, nil}, nil
		}
		return []ordabs.Value{nil, ordabs.ErrVal{Tag: "line is not the printed form of any written constant: " + s}}, nil
	}
	in.Stubs["functional.EvalExpr"] = func(in *ordabs.Interp, _ ordabs.Value, a []ordabs.Value) ([]ordabs.Value, error) {
		return []ordabs.Value{a[0], nil}, nil
	}
	return r
}

func (r *c19Rig) renderAtom(v ordabs.Value) (string, error) {
	a, _ := v.(*ordabs.Rec)
	if a == nil {
		return "", &ordabs.Unsupported{What: "atom expected"}
	}
	p, _ := a.Fields["Predicate"].(*ordabs.Rec)
	out := fmt.Sprintf("%v/%v(", p.Fields["Symbol"], p.Fields["Arity"])
	if sl, ok := a.Fields["Args"].(*ordabs.Slice); ok && sl != nil {
		for i, e := range *sl.Elems {
			rec, _ := e.(*ordabs.Rec)
			if rec == nil || rec.T != "ast.Constant" {
				return "", &ordabs.Unsupported{What: "fact with a non-constant argument"}
			}
			if i > 0 {
				out += ","
			}
			out += recCanon(rec.Fields)
		}
	}
	return out + ")", nil
}

// recCanon renders a constant value structurally (independent of the library's printing).
func recCanon(f map[string]ordabs.Value) string {
	out := fmt.Sprintf("<%v %q %v", f["Type"], f["Symbol"], f["NumValue"])
	for _, side := range []string{"fst", "snd"} {
		if o, ok := f[side].(*ordabs.Obj); ok && o != nil {
			out += " " + recCanon(o.Fields)
		} else {
			out += " -"
		}
	}
	return out + ">"
}

// expected renders the facts of the content (optionally of one predicate, filtered on the first column).
func (r *c19Rig) expected(only *scPred, filter *ct) []string {
	set := map[string]bool{}
	for _, p := range r.content {
		if only != nil && (p.sym != only.sym || p.arity != only.arity) {
			continue
		}
		for _, f := range p.facts {
			if filter != nil && (len(f) == 0 || f[0].canon() != filter.canon()) {
				continue
			}
			var as []string
			for _, t := range f {
				v := r.k.build(rC19Eager, t, false)
				if v == nil {
					r.ok = false
					return nil
				}
				as = append(as, recCanon(v.Fields))
			}
			set[fmt.Sprintf("%s/%d(%s)", p.sym, p.arity, strings.Join(as, ","))] = true
		}
	}
	return sortedKeys(set)
}

func (r *c19Rig) prepare(content []scPred) {
	r.content = content
	r.vals = map[string]*ordabs.Rec{}
	for _, p := range content {
		for _, f := range p.facts {
			for _, t := range f {
				v := r.k.build(rC19Eager, t, false)
				if v == nil {
					r.ok = false
					return
				}
				r.vals[r.k.str(rC19Eager, v)] = v
			}
		}
	}
}

// writeLines evaluates WriteTo and returns the lines a bufio.Scanner would see.
func (r *c19Rig) writeLines(rule string, det bool) ([]string, bool, bool) {
	w := &ordabs.Obj{Name: "writer", Fields: map[string]ordabs.Value{}}
	sc := &ordabs.Rec{T: "factstore.SimpleColumn", Fields: map[string]ordabs.Value{"Deterministic": det}}
	store := &ordabs.Obj{Name: "store", Opaque: true}
	r.in.Reset()
	r.in.Fuel = 2000000
	out, err := r.in.Call(r.write, sc, []ordabs.Value{store, w})
	if !runORD(r.c, rule, r.write.Name, r.write, err) {
		r.ok = false
		return nil, false, false
	}
	if out[0] != nil {
		return nil, false, true
	}
	text, _ := w.Fields["__s"].(string)
	if text == "" {
		return nil, true, true
	}
	return strings.Split(strings.TrimSuffix(text, "\n"), "\n"), true, true
}

func linesValue(lines []string) *ordabs.Obj {
	var es []ordabs.Value
	for _, l := range lines {
		es = append(es, l)
	}
	if es == nil {
		es = []ordabs.Value{}
	}
	return &ordabs.Obj{Name: "reader", Fields: map[string]ordabs.Value{"__lines": &ordabs.Slice{Elems: &es}}}
}

func describe(content []scPred) string {
	var ps []string
	for _, p := range content {
		ps = append(ps, fmt.Sprintf("%s/%d with %d fact(s)", p.sym, p.arity, len(p.facts)))
	}
	return "[" + strings.Join(ps, "; ") + "]"
}

// roundTrip writes the content and reads it back both ways; it returns a description of the first disagreement.
func (r *c19Rig) roundTrip(content []scPred, det bool) (eager, lazy string, queries int) {
	r.prepare(content)
	if !r.ok {
		return
	}
	lines, wrote, ok := r.writeLines(rC19Eager, det)
	if !ok {
		return
	}
	if !wrote {
		eager = "writing " + describe(content) + " fails"
		return
	}
	// eager
	r.added = nil
	r.in.Reset()
	r.in.Fuel = 2000000
	sc := &ordabs.Rec{T: "factstore.SimpleColumn", Fields: map[string]ordabs.Value{"Deterministic": det}}
	out, err := r.in.Call(r.readI, sc, []ordabs.Value{linesValue(lines), &ordabs.Obj{Name: "target", Opaque: true}})
	if !runORD(r.c, rC19Eager, r.readI.Name, r.readI, err) {
		r.ok = false
		return
	}
	want := r.expected(nil, nil)
	got := map[string]bool{}
	for _, a := range r.added {
		got[a] = true
	}
	if out[0] != nil {
		eager = fmt.Sprintf("the store %s is written as %q and ReadInto fails on it: %v", describe(content), lines, out[0])
	} else if strings.Join(sortedKeys(got), " ") != strings.Join(want, " ") {
		eager = fmt.Sprintf("the store %s is written as %q and read back as %v, want %v", describe(content), lines, sortedKeys(got), want)
	}
	// lazy
	input := &ordabs.Stub{Fn: func(in *ordabs.Interp, _ []ordabs.Value) ([]ordabs.Value, error) {
		return []ordabs.Value{linesValue(lines), nil}, nil
	}}
	r.in.Reset()
	out, err = r.in.Call(r.newSt, nil, []ordabs.Value{input})
	if !runORD(r.c, rC19Lazy, r.newSt.Name, r.newSt, err) {
		r.ok = false
		return
	}
	st, _ := out[0].(*ordabs.Obj)
	if out[1] != nil || st == nil {
		lazy = fmt.Sprintf("the store %s is written as %q and the lazy store cannot be opened on it", describe(content), lines)
		return
	}
	type query struct {
		p      scPred
		filter *ct
	}
	var qs []query
	for _, p := range content {
		qs = append(qs, query{p, nil})
		if p.arity > 0 && len(p.facts) > 0 {
			qs = append(qs, query{p, p.facts[0][0]}, query{p, &ct{kind: "name", s: "/absent"}})
		}
	}
	qs = append(qs, query{scPred{sym: "absent", arity: 1}, nil})
	if len(content) > 0 {
		qs = append(qs, query{scPred{sym: content[0].sym, arity: content[0].arity + 1}, nil})
	}
	for _, q := range qs {
		var args []ordabs.Value
		for i := 0; i < q.p.arity; i++ {
			if i == 0 && q.filter != nil {
				v := r.k.build(rC19Lazy, q.filter, false)
				if v == nil {
					r.ok = false
					return
				}
				args = append(args, v)
				continue
			}
			args = append(args, &ordabs.Rec{T: "ast.Variable", Fields: map[string]ordabs.Value{"Symbol": fmt.Sprintf("X%d", i)}})
		}
		var av ordabs.Value
		if args != nil {
			av = &ordabs.Slice{Elems: &args}
		}
		atom := &ordabs.Rec{T: "ast.Atom", Fields: map[string]ordabs.Value{
			"Predicate": &ordabs.Rec{T: "ast.PredicateSym", Fields: map[string]ordabs.Value{"Symbol": q.p.sym, "Arity": int64(q.p.arity)}}, "Args": av}}
		seen := map[string]bool{}
		var cbErr error
		cb := &ordabs.Stub{Fn: func(in *ordabs.Interp, a []ordabs.Value) ([]ordabs.Value, error) {
			s, err := r.renderAtom(a[0])
			if err != nil {
				cbErr = err
				return nil, err
			}
			seen[s] = true
			return []ordabs.Value{nil}, nil
		}}
		r.in.Reset()
		r.in.Fuel = 2000000
		out, err := r.in.Call(r.getF, st, []ordabs.Value{atom, cb})
		if cbErr != nil {
			err = cbErr
		}
		if !runORD(r.c, rC19Lazy, r.getF.Name, r.getF, err) {
			r.ok = false
			return
		}
		queries++
		only := q.p
		want := r.expected(&only, q.filter)
		if lazy != "" {
			continue
		}
		qd := fmt.Sprintf("%s/%d", q.p.sym, q.p.arity)
		if q.filter != nil {
			qd += " with first argument " + q.filter.canon()
		}
		if out[0] != nil {
			lazy = fmt.Sprintf("the store %s is written as %q; the lazy query %s fails: %v", describe(content), lines, qd, out[0])
		} else if strings.Join(sortedKeys(seen), " ") != strings.Join(want, " ") {
			lazy = fmt.Sprintf("the store %s is written as %q; the lazy query %s yields %v, want %v", describe(content), lines, qd, sortedKeys(seen), want)
		}
	}
	return
}

func c19Shapes() [][]scPred {
	nm := func(s string) *ct { return &ct{kind: "name", s: s} }
	mk := func(sym string, arity, count int) scPred {
		p := scPred{sym: sym, arity: arity}
		for k := 0; k < count; k++ {
			var f []*ct
			for j := 0; j < arity; j++ {
				if j == 0 {
					f = append(f, nm(fmt.Sprintf("/%s_k%d", sym, k%2)))
				} else {
					f = append(f, nm(fmt.Sprintf("/%s_v%d_%d", sym, k, j)))
				}
			}
			if arity == 0 {
				f = []*ct{}
			}
			p.facts = append(p.facts, f)
		}
		return p
	}
	type shape struct{ arity, count int }
	shapes := []shape{{0, 0}, {0, 1}, {1, 0}, {1, 2}, {2, 1}, {2, 3}}
	var out [][]scPred
	out = append(out, nil)
	for _, a := range shapes {
		out = append(out, []scPred{mk("p0", a.arity, a.count)})
		for _, b := range shapes {
			out = append(out, []scPred{mk("p0", a.arity, a.count), mk("p1", b.arity, b.count)})
			for _, c := range shapes {
				out = append(out, []scPred{mk("p0", a.arity, a.count), mk("p1", b.arity, b.count), mk("p2", c.arity, c.count)})
			}
		}
	}
	// one symbol with two arities, in both orders
	out = append(out, []scPred{mk("p", 1, 2), mk("p", 2, 1)}, []scPred{mk("p", 2, 1), mk("p", 1, 2)}, []scPred{mk("p", 0, 1), mk("p", 1, 1)})
	return out
}

func checkC19(c *core.Ctx) {
	c.Rule(rC19Eager, "SimpleColumn.WriteTo, writeHeader, readHeader, readPred and ReadInto are read from source and evaluated (writer into a line buffer, reader over the same lines, store and scanner stubbed) on every store of up to three predicates whose arities are 0..2 and fact counts 0..3, plus stores with one symbol at two arities, with and without the deterministic option: the set of facts added by ReadInto equals the set written", 1)
	c.Rule(rC19Lazy, "on the same stores, NewSimpleColumnStore and SimpleColumnStore.GetFacts are evaluated for every predicate with an all-variable query, a query whose first argument matches some facts, one that matches none, an absent predicate and a present symbol at another arity: the facts delivered equal the matching subset of the facts written", 1)
	c.Rule(rC19Det, "with the deterministic option, the lines written for a store do not depend on the order in which the store enumerates predicates and facts, also when all fact hashes collide", 2)
	c.Rule(rC19Kinds, "one-column stores holding a constant of every kind (names with every CONSTANT_CHAR incl. '%', strings that start with '/', contain '%', newlines and quotes, bytes, numbers, floats, times, durations, lists, maps, structs, pairs incl. ones whose first element is a name with '%'): every line written is read back as the printed form of the constant that was written", 1)
	for _, advers := range []bool{false, true} {
		mode := map[bool]string{false: "fnv", true: "colliding-hash"}[advers]
		r := newC19Rig(c, rC19Eager, advers)
		if !r.ok {
			return
		}
		if !advers {
			eagerBad, lazyBad := "", ""
			stores, queries := 0, 0
			for _, content := range c19Shapes() {
				for _, det := range []bool{false, true} {
					e, l, q := r.roundTrip(content, det)
					if !r.ok {
						return
					}
					stores++
					queries += q
					if eagerBad == "" {
						eagerBad = e
					}
					if lazyBad == "" {
						lazyBad = l
					}
				}
			}
			c.Check(eagerBad == "", rC19Eager, "factstore.SimpleColumn.WriteTo/ReadInto", r.readI.Decl.Pos(), fmt.Sprintf("%d stores round trip", stores), eagerBad)
			c.Check(lazyBad == "", rC19Lazy, "factstore.SimpleColumnStore.GetFacts", r.getF.Decl.Pos(), fmt.Sprintf("%d queries over %d stores", queries, stores), lazyBad)
			c19Kinds(c, r)
		}
		// deterministic output under both enumeration orders
		bad := ""
		n := 0
		for _, content := range c19Shapes() {
			if len(content) < 2 && (len(content) == 0 || len(content[0].facts) < 2) {
				continue
			}
			r.prepare(content)
			r.reverse = false
			a, wa, ok := r.writeLines(rC19Det, true)
			if !ok {
				return
			}
			r.reverse = true
			b, wb, ok := r.writeLines(rC19Det, true)
			r.reverse = false
			if !ok {
				return
			}
			n++
			if (wa != wb || strings.Join(a, "\n") != strings.Join(b, "\n")) && bad == "" {
				bad = fmt.Sprintf("%s mode: the store %s is written as %q when enumerated forwards and as %q when enumerated backwards", mode, describe(content), a, b)
			}
		}
		c.Check(bad == "", rC19Det, "factstore.SimpleColumn.WriteTo:"+mode, r.write.Decl.Pos(), fmt.Sprintf("%d stores, two enumeration orders each", n), bad)
	}
	// a written line is the printed form of a constant and is read back by parsing it: the two printing obligations
	// on which that rests for the kinds a line-level model cannot see
	c.Rule("ORDABS.printed-constants-reload", "what a line holds must read back to the constant that was written: FormatFloat64 yields a FLOAT token with the same bits for integral, large, tiny and negative floats, functional.EvalApplyFn rebuilds fn:map / fn:struct expressions keeping distinct keys whose hashes collide, Escape / Unescape round-trip every text and byte string over an alphabet with the boundary runes (U+10FFFF, around the surrogates), and ast.Map / ast.Struct rebuild one constant from the same entries in every supply order, also for keys that agree in hash and Symbol field (obligations shared with C09 and C08)", 3)
	c.Under("ORDABS.printed-constants-reload", []string{rC09Float, rC09Lex}, func() { c09Float(c, readGrammar(c, rC09Lex)) })
	c.Under("ORDABS.printed-constants-reload", []string{rC08Order}, func() { c08OrderFnv(c) })
	c.Under("ORDABS.printed-constants-reload", []string{rC09Esc, rC09Lex}, func() { c09Escape(c, readGrammar(c, rC09Lex)) })
	// a map or struct column is read back by evaluating its fn:map / fn:struct expression
	c.Under("ORDABS.printed-constants-reload", []string{rC08Eval}, func() { c08EvalBoth(c) })
}

func c19Kinds(c *core.Ctx, r *c19Rig) {
	nm := func(s string) *ct { return &ct{kind: "name", s: s} }
	st := func(s string) *ct { return &ct{kind: "str", s: s} }
	nu := func(n int64) *ct { return &ct{kind: "num", n: n} }
	sh := func(kind string, kids ...*ct) *ct { return &ct{kind: kind, kids: kids} }
	consts := []*ct{
		nm("/a"), nm("/a%41"), nm("/a%2541"), nm("/a%"), nm("/a.b-c_d~e"), nm("/a/b%20c"), nm("/%"),
		st("/a%41"), st("%41"), st("a\nb"), st("a\"b"), st(""), st("/"), st("a b+c"), st("a\rb"), st("\ufffd"), st("a\ufffdb"),
		{kind: "bytes", s: "/a%41"}, {kind: "bytes", s: "\xff\n"},
		nu(0), nu(-5), {kind: "float", f: 1}, {kind: "float", f: -0.5}, {kind: "time", n: 1705314600000000000}, {kind: "dur", n: 90000000000},
		sh("list", nm("/a%41"), st("%41")), sh("list"), sh("pair", nm("/a%41"), nu(1)), sh("map", nm("/a%41"), nu(1)), sh("struct", nm("/a%41"), st("/b%42")),
	}
	bad := ""
	// all of them as the facts of one predicate: two constants whose lines coincide lose a fact
	all := scPred{sym: "all", arity: 1}
	for _, t := range consts {
		all.facts = append(all.facts, []*ct{t})
	}
	if e, l, _ := r.roundTrip([]scPred{all}, true); e != "" || l != "" {
		bad = e + l
	}
	if !r.ok {
		return
	}
	for _, t := range consts {
		content := []scPred{{sym: "p", arity: 1, facts: [][]*ct{{t}}}, {sym: "q", arity: 2, facts: [][]*ct{{nm("/k"), t}}}}
		e, l, _ := r.roundTrip(content, false)
		if !r.ok {
			return
		}
		if bad == "" {
			if e != "" {
				bad = t.canon() + ": " + e
			} else if l != "" {
				bad = t.canon() + ": " + l
			}
		}
	}
	c.Check(bad == "", rC19Kinds, "factstore.SimpleColumn.WriteTo/readPred:line-format", r.write.Decl.Pos(), fmt.Sprintf("%d constants of every kind survive the line format", len(consts)), bad)
}
