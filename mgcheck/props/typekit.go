package props

import (
	"fmt"
	"hash/fnv"
	"sort"
	"strings"

	"mgcheck/core"
	"mgcheck/ordabs"
)

// typeKit builds ast.Constant values (in the library's own representation) and type expressions.
type typeKit struct {
	c   *core.Ctx
	ok  bool
	tag map[string]int64 // ConstantType values
}

func newTypeKit(c *core.Ctx, rule string) *typeKit {
	k := &typeKit{c: c, ok: true, tag: map[string]int64{}}
	for _, n := range []string{"NameType", "StringType", "BytesType", "NumberType", "Float64Type", "TimeType", "DurationType", "PairShape", "ListShape", "MapShape", "StructShape"} {
		v, ok := constInt(c.Prog, "ast", n)
		if !ok {
			c.Unres(rule, "ast."+n, 0, "anchor-unresolved: constant ast.%s", n)
			k.ok = false
		}
		k.tag[n] = v
	}
	return k
}

func hashStr(s string) int64 {
	h := fnv.New64()
	h.Write([]byte(s))
	return int64(h.Sum64())
}

func (k *typeKit) raw(typ string, sym string, num int64, fst, snd *ordabs.Obj) *ordabs.Rec {
	return &ordabs.Rec{Fields: map[string]ordabs.Value{"Type": k.tag[typ], "Symbol": sym, "NumValue": num, "fst": fst, "snd": snd}, T: "ast.Constant"}
}

func (k *typeKit) name(s string) *ordabs.Rec  { return k.raw("NameType", s, hashStr(s), nil, nil) }
func (k *typeKit) str(s string) *ordabs.Rec   { return k.raw("StringType", s, hashStr(s), nil, nil) }
func (k *typeKit) num(n int64) *ordabs.Rec    { return k.raw("NumberType", "", n, nil, nil) }
func ptr(r *ordabs.Rec) *ordabs.Obj           { return &ordabs.Obj{Name: "const", Fields: r.Fields, T: "ast.Constant"} }
func hv2(a, b int64) int64                    { return a*1000003 ^ b*7919 + 17 }
func (k *typeKit) pairOf(typ string, a, b *ordabs.Rec) *ordabs.Rec {
	var bo *ordabs.Obj
	bh := int64(0)
	if b != nil {
		bo = ptr(b)
		bh = b.Fields["NumValue"].(int64)
	}
	return k.raw(typ, "", hv2(a.Fields["NumValue"].(int64)+k.tag[typ], bh), ptr(a), bo)
}
func (k *typeKit) pair(a, b *ordabs.Rec) *ordabs.Rec { return k.pairOf("PairShape", a, b) }
func (k *typeKit) list(xs ...*ordabs.Rec) *ordabs.Rec {
	l := k.raw("ListShape", "", 0, nil, nil)
	for i := len(xs) - 1; i >= 0; i-- {
		l = k.pairOf("ListShape", xs[i], l)
	}
	return l
}
func (k *typeKit) assoc(shape string, kvs ...*ordabs.Rec) *ordabs.Rec {
	m := k.raw(shape, "", 0, nil, nil)
	for i := len(kvs) - 2; i >= 0; i -= 2 {
		e := k.pair(kvs[i], kvs[i+1])
		m = k.pairOf(shape, e, m)
	}
	return m
}
func (k *typeKit) mapc(kvs ...*ordabs.Rec) *ordabs.Rec    { return k.assoc("MapShape", kvs...) }
func (k *typeKit) structc(kvs ...*ordabs.Rec) *ordabs.Rec { return k.assoc("StructShape", kvs...) }

// render prints a constant built by the kit.
func (k *typeKit) render(v ordabs.Value) string {
	var r *ordabs.Rec
	switch x := v.(type) {
	case *ordabs.Rec:
		r = x
	case *ordabs.Obj:
		if x == nil {
			return "nil"
		}
		r = &ordabs.Rec{Fields: x.Fields}
	default:
		return fmt.Sprint(v)
	}
	t, _ := r.Fields["Type"].(int64)
	fst, _ := r.Fields["fst"].(*ordabs.Obj)
	snd, _ := r.Fields["snd"].(*ordabs.Obj)
	switch t {
	case k.tag["NameType"]:
		return fmt.Sprint(r.Fields["Symbol"])
	case k.tag["StringType"]:
		return fmt.Sprintf("%q", r.Fields["Symbol"])
	case k.tag["NumberType"]:
		return fmt.Sprint(r.Fields["NumValue"])
	case k.tag["PairShape"]:
		return "pair(" + k.render(fst) + "," + k.render(snd) + ")"
	case k.tag["ListShape"], k.tag["MapShape"], k.tag["StructShape"]:
		open, cl := "[", "]"
		if t == k.tag["StructShape"] {
			open, cl = "{", "}"
		}
		var parts []string
		for fst != nil {
			if t == k.tag["ListShape"] {
				parts = append(parts, k.render(fst))
			} else {
				parts = append(parts, k.render(fst.Fields["fst"])+":"+k.render(fst.Fields["snd"]))
			}
			if snd == nil {
				break
			}
			fst, _ = snd.Fields["fst"].(*ordabs.Obj)
			snd, _ = snd.Fields["snd"].(*ordabs.Obj)
		}
		if t == k.tag["MapShape"] && len(parts) == 0 {
			return "[:]"
		}
		return open + strings.Join(parts, ",") + cl
	}
	return "?"
}

// typ builds a type expression from the host term language: names are constants, fn:X(...) are ApplyFn.
func (k *typeKit) typ(t hTerm) ordabs.Value {
	switch t.kind {
	case "const":
		return k.num(t.n)
	case "var":
		if strings.HasPrefix(t.name, "/") {
			return k.name(t.name)
		}
		if strings.HasPrefix(t.name, "\"") {
			return k.str(strings.Trim(t.name, "\""))
		}
		return &ordabs.Rec{Fields: map[string]ordabs.Value{"Symbol": t.name}, T: "ast.Variable"}
	}
	var as []ordabs.Value
	for _, a := range t.args {
		as = append(as, k.typ(a))
	}
	arity := int64(len(t.args))
	switch t.name {
	case "fn:Union", "fn:Struct", "fn:Tuple", "fn:TaggedUnion", "fn:Rel", "fn:Fun":
		arity = -1 // as the library's own constructors (NewUnionType, ...) build them
	case "fn:Union/parsed":
		t.name = "fn:Union" // as the parser builds them: the number of arguments
	}
	return &ordabs.Rec{Fields: map[string]ordabs.Value{
		"Function": &ordabs.Rec{Fields: map[string]ordabs.Value{"Symbol": t.name, "Arity": arity}, T: "ast.FunctionSym"},
		"Args":     &ordabs.Slice{Elems: &as}}, T: "ast.ApplyFn"}
}

// newTypeInterp prepares an interpreter for the symbols package.
func (k *typeKit) newTypeInterp() *ordabs.Interp {
	in := ordabs.New(k.c.Prog)
	in.InstallErrorStubs()
	in.StubSortSlice()
	in.Stubs["strings.HasPrefix"] = func(in *ordabs.Interp, _ ordabs.Value, args []ordabs.Value) ([]ordabs.Value, error) {
		return []ordabs.Value{strings.HasPrefix(args[0].(string), args[1].(string))}, nil
	}
	in.Stubs["errors.Is"] = func(in *ordabs.Interp, _ ordabs.Value, args []ordabs.Value) ([]ordabs.Value, error) {
		a, ok1 := args[0].(ordabs.ErrVal)
		b, ok2 := args[1].(ordabs.ErrVal)
		return []ordabs.Value{ok1 && ok2 && (a == b || strings.HasSuffix(a.Tag, b.Tag))}, nil
	}
	in.Stubs["ast.Constant.Hash"] = func(in *ordabs.Interp, recv ordabs.Value, _ []ordabs.Value) ([]ordabs.Value, error) {
		r, _ := recv.(*ordabs.Rec)
		if r == nil {
			if o, _ := recv.(*ordabs.Obj); o != nil {
				return []ordabs.Value{o.Fields["NumValue"]}, nil
			}
			return []ordabs.Value{int64(0)}, nil
		}
		return []ordabs.Value{r.Fields["NumValue"]}, nil
	}
	in.Stubs["ast.ApplyFn.Hash"] = func(in *ordabs.Interp, recv ordabs.Value, _ []ordabs.Value) ([]ordabs.Value, error) {
		return []ordabs.Value{hashStr(ordabs.KeyString(recv))}, nil
	}
	in.Stubs["ast.Variable.Hash"] = in.Stubs["ast.ApplyFn.Hash"]
	in.Stubs["ast.ApplyFn.String"] = func(in *ordabs.Interp, recv ordabs.Value, _ []ordabs.Value) ([]ordabs.Value, error) {
		return []ordabs.Value{"<type>"}, nil
	}
	in.Stubs["ast.Constant.String"] = in.Stubs["ast.ApplyFn.String"]
	in.Globals = map[string]ordabs.Value{}
	for g, n := range map[string]string{"AnyBound": "/any", "BotBound": "/bot", "Float64Bound": "/float64", "NameBound": "/name", "StringBound": "/string",
		"BytesBound": "/bytes", "NumberBound": "/number", "TimeBound": "/time", "DurationBound": "/duration"} {
		in.Globals["ast."+g] = k.name(n)
	}
	in.Globals["ast.ListNil"] = k.raw("ListShape", "", 0, nil, nil)
	in.Globals["ast.MapNil"] = k.raw("MapShape", "", 0, nil, nil)
	in.Globals["ast.StructNil"] = k.raw("StructShape", "", 0, nil, nil)
	return in
}

func sortedKeys(m map[string]bool) []string {
	var ks []string
	for k := range m {
		ks = append(ks, k)
	}
	sort.Strings(ks)
	return ks
}
