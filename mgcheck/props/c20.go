package props

import (
	"fmt"
	"strings"

	"mgcheck/core"
	"mgcheck/ordabs"
)

func init() { register("C20", checkC20) }

const (
	rC20Naive = "ORDABS.naive-loop"
	rC20Semi  = "ORDABS.semi-naive-loop"
	rC20Deleg = "ORDABS.clause-evaluation-agrees"
	rC20Delta = "ORDABS.delta-rules"
	rC20TX    = "TX.evaluators"
)

func checkC20(c *core.Ctx) {
	c.Rule(rC20Naive, "naiveEngine.eval, read from source and evaluated over the abstract programs with the clause evaluation replaced by the program's own meaning, returns with the store equal to the least model", 6)
	c.Rule(rC20Semi, "(*engine).eval reaches the same least model on the same abstract programs (so both evaluators agree there)", 6)
	c.Rule(rC20Deleg, "naiveEngine.oneStepEvalClause and (*engine).oneStepEvalClause are read from source and evaluated together with everything below them (premise helpers, functional.EvalAtom/EvalExpr, builtin.Decide, union-find; only the store is a set model) on every safe clause of a family (one to three premises: positive, negated, wildcard, repeated-variable, constant-argument and built-in atoms, equalities with function expressions on either side, inequalities) over three stores: they derive the same facts", 1)
	c.Rule(rC20Delta, "the semi-naive evaluator's delta rules cover every positive occurrence of a predicate of the stratum (otherwise it computes less than the naive one)", 1)
	c.Rule(rC20TX, "the naive premise switch covers atoms, negated atoms, equalities and inequalities", 1)
	c20Naive(c)
	c01Loop(c, rC20Semi, true)
	clauseEvalRule(c, rC20Deleg, "naive")
	c01DeltaRules(c, rC20Delta)
	c.Rule("ORDABS.strata-one-at-a-time", "(*engine).evalStrata, read from source and evaluated with a recording fixpoint: like the naive evaluator it evaluates one layer at a time, in ascending order, each with its own rules, its own declarations (from which the delta rules are built) and exactly the earlier layers extensional (obligation shared with C01/C03)", 1)
	strataOrderRule(c, "ORDABS.strata-one-at-a-time")
	termKindCoverage(c, rC20TX, []txSpec{{"engine", "naiveEngine.oneStepEvalPremise", []string{"ast.Atom", "ast.NegAtom", "ast.Eq", "ast.Ineq"}, "a premise kind without a case yields no solutions in the naive evaluator only"}})
}

func c20Naive(c *core.Ctx) {
	f := c.MustFunc(rC20Naive, "engine", "naiveEngine.eval")
	if f == nil {
		return
	}
	for _, p := range absPrograms() {
		e := newEngineFix(c, rC20Naive, p, 0)
		if e == nil {
			return
		}
		store := e.engine.Fields["store"].(*ordabs.Obj)
		e.in.Stubs["engine.naiveEngine.oneStepEvalClause"] = func(in *ordabs.Interp, recv ordabs.Value, args []ordabs.Value) ([]ordabs.Value, error) {
			cl, _ := args[0].(*ordabs.Rec)
			idx, ok := cl.Fields["__rule"].(int64)
			if !ok {
				return nil, &ordabs.Unsupported{What: "clause not created by the fixture"}
			}
			e.clauses++
			var out []ordabs.Value
			for _, fct := range p.rules[idx].derive(e.stores[store], nil, -1) {
				out = append(out, e.atomOf(fct))
			}
			return []ordabs.Value{&ordabs.Slice{Elems: &out}}, nil
		}
		pi := &ordabs.Rec{Fields: e.engine.Fields["programInfo"].(*ordabs.Obj).Fields, T: "analysis.ProgramInfo"}
		ne := &ordabs.Rec{Fields: map[string]ordabs.Value{"store": store, "programInfo": pi, "strata": (*ordabs.Slice)(nil), "predToStratum": (*ordabs.Map)(nil)}, T: "engine.naiveEngine"}
		e.in.Reset()
		e.in.Fuel = 400000
		_, err := e.in.Call(f, ne, nil)
		bad := ""
		if u, ok := err.(*ordabs.Unsupported); ok && strings.Contains(u.What, "fuel") {
			bad = "the naive loop did not return within the evaluation budget"
			err = nil
		}
		if !runORD(c, rC20Naive, f.Name+":"+p.name, f, err) {
			continue
		}
		if bad == "" {
			if miss, extra := diffSets(e.stores[store], p.leastModel(1000)); len(miss)+len(extra) > 0 {
				bad = fmt.Sprintf("the naive evaluator ends with a store that is not the least model: missing %v, extra %v (it stops iterating although the last pass still added facts?)", miss, extra)
			}
		}
		c.Check(bad == "", rC20Naive, f.Name+":"+p.name, f.Decl.Pos(), fmt.Sprintf("least model reached after %d clause evaluations", e.clauses), bad)
	}
}
