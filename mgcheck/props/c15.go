package props

import (
	"fmt"
	"sort"
	"strings"

	"mgcheck/core"
	"mgcheck/ordabs"
)

func init() { register("C15", checkC15) }

const (
	rC15Valid    = "ORDABS.explain-proofs-check"
	rC15Complete = "ORDABS.explain-every-stored-fact"
	rC15Rec      = "ORDABS.recording-proofs-check"
	rC15ID       = "ORDABS.proof-id-is-content"
	rC15Engine   = "ORDABS.recorder-callbacks"
	rC15Do       = "ORDABS.aggregate-inputs"
)

// ---- a reference evaluator for host-level programs (integers as constants) ----

type hProgram struct {
	name   string
	base   []string     // "edge(1,2)"
	strata [][]hClause  // evaluated in order, each to its fixpoint
}

func (p hProgram) rules() []hClause {
	var out []hClause
	for _, s := range p.strata {
		out = append(out, s...)
	}
	return out
}

func hFact(pred string, args []int64) string {
	var as []string
	for _, a := range args {
		as = append(as, fmt.Sprint(a))
	}
	return pred + "(" + strings.Join(as, ",") + ")"
}

func parseHFact(f string) (string, []int64) {
	i := strings.Index(f, "(")
	pred := f[:i]
	var args []int64
	body := strings.TrimSuffix(f[i+1:], ")")
	if body != "" {
		for _, s := range strings.Split(body, ",") {
			var n int64
			fmt.Sscanf(s, "%d", &n)
			args = append(args, n)
		}
	}
	return pred, args
}

type hFiring struct {
	rule  int // index into rules()
	sigma map[string]int64
	head  string
}

// matchAtom extends sigma so that pred(args) equals the fact, or returns nil.
func matchAtom(args []hTerm, fargs []int64, sigma map[string]int64) map[string]int64 {
	if len(args) != len(fargs) {
		return nil
	}
	out := map[string]int64{}
	for k, v := range sigma {
		out[k] = v
	}
	for i, a := range args {
		switch a.kind {
		case "const":
			if a.n != fargs[i] {
				return nil
			}
		case "var":
			if v, ok := out[a.name]; ok {
				if v != fargs[i] {
					return nil
				}
			} else {
				out[a.name] = fargs[i]
			}
		default:
			return nil
		}
	}
	return out
}

func groundArgs(args []hTerm, sigma map[string]int64) ([]int64, bool) {
	var out []int64
	for _, a := range args {
		switch a.kind {
		case "const":
			out = append(out, a.n)
		case "var":
			v, ok := sigma[a.name]
			if !ok {
				return nil, false
			}
			out = append(out, v)
		default:
			return nil, false
		}
	}
	return out, true
}

func termVal(t hTerm, sigma map[string]int64) (int64, bool) {
	if t.kind == "const" {
		return t.n, true
	}
	v, ok := sigma[t.name]
	return v, ok
}

// solutions enumerates the substitutions satisfying the premises in order.
func solutions(prems []hPrem, model map[string]bool, sigma map[string]int64) []map[string]int64 {
	if len(prems) == 0 {
		return []map[string]int64{sigma}
	}
	p := prems[0]
	var out []map[string]int64
	switch p.kind {
	case "atom":
		var fs []string
		for f := range model {
			fs = append(fs, f)
		}
		sort.Strings(fs)
		for _, f := range fs {
			pred, fargs := parseHFact(f)
			if pred != p.pred {
				continue
			}
			if s2 := matchAtom(p.args, fargs, sigma); s2 != nil {
				out = append(out, solutions(prems[1:], model, s2)...)
			}
		}
	case "neg":
		g, ok := groundArgs(p.args, sigma)
		if ok && !model[hFact(p.pred, g)] {
			out = solutions(prems[1:], model, sigma)
		}
	case "eq", "ineq":
		l, lok := termVal(p.l, sigma)
		r, rok := termVal(p.r, sigma)
		switch {
		case lok && rok:
			if (l == r) == (p.kind == "eq") {
				out = solutions(prems[1:], model, sigma)
			}
		case p.kind == "eq" && lok && p.r.kind == "var":
			s2 := map[string]int64{p.r.name: l}
			for k, v := range sigma {
				s2[k] = v
			}
			out = solutions(prems[1:], model, s2)
		case p.kind == "eq" && rok && p.l.kind == "var":
			s2 := map[string]int64{p.l.name: r}
			for k, v := range sigma {
				s2[k] = v
			}
			out = solutions(prems[1:], model, s2)
		}
	}
	return out
}

// evaluate returns the least model and the rule firings in an order in which
// every firing's positive premises were derived (or are base facts) before it.
func (p hProgram) evaluate() (map[string]bool, []hFiring) {
	model := map[string]bool{}
	for _, f := range p.base {
		model[f] = true
	}
	var firings []hFiring
	seenFiring := map[string]bool{}
	idx := 0
	for _, stratum := range p.strata {
		for changed := true; changed; {
			changed = false
			var add []string
			for ri, r := range stratum {
				for _, s := range solutions(r.prems, model, map[string]int64{}) {
					g, ok := groundArgs(r.head, s)
					if !ok {
						continue
					}
					h := hFact(r.headPred, g)
					key := fmt.Sprintf("%d|%v", idx+ri, s)
					if !seenFiring[key] {
						seenFiring[key] = true
						firings = append(firings, hFiring{rule: idx + ri, sigma: s, head: h})
					}
					if !model[h] {
						add = append(add, h)
					}
				}
			}
			for _, h := range add {
				if !model[h] {
					model[h] = true
					changed = true
				}
			}
		}
		idx += len(stratum)
	}
	return model, firings
}

func c15Programs() []hProgram {
	X, Y, Z := hv("X"), hv("Y"), hv("Z")
	at := func(pred string, args ...hTerm) hPrem { return hPrem{kind: "atom", pred: pred, args: args} }
	neg := func(pred string, args ...hTerm) hPrem { return hPrem{kind: "neg", pred: pred, args: args} }
	cl := func(pred string, head []hTerm, prems ...hPrem) hClause { return hClause{headPred: pred, head: head, prems: prems} }
	h := func(ts ...hTerm) []hTerm { return ts }
	return []hProgram{
		{"transitive-closure-on-a-cycle", []string{"edge(1,2)", "edge(2,3)", "edge(3,1)", "edge(3,4)"}, [][]hClause{{
			cl("path", h(X, Y), at("edge", X, Y)),
			cl("path", h(X, Z), at("edge", X, Y), at("path", Y, Z)),
		}}},
		{"left-recursive-closure", []string{"edge(1,2)", "edge(2,1)", "edge(2,3)"}, [][]hClause{{
			cl("path", h(X, Z), at("path", X, Y), at("edge", Y, Z)),
			cl("path", h(X, Y), at("edge", X, Y)),
		}}},
		{"cycle-through-three-predicates", []string{"base(1)"}, [][]hClause{{
			cl("a", h(X), at("b", X)),
			cl("a", h(X), at("base", X)),
			cl("b", h(X), at("c", X)),
			cl("c", h(X), at("a", X)),
			cl("top", h(X), at("a", X), at("b", X)),
		}}},
		{"mutual-recursion-two-entry-points", []string{"s(1)", "t(1)", "link(1,2)", "link(2,1)"}, [][]hClause{{
			cl("p", h(X), at("q", Y), at("link", Y, X)),
			cl("q", h(X), at("p", Y), at("link", Y, X)),
			cl("p", h(X), at("s", X)),
			cl("q", h(X), at("t", X)),
			cl("both", h(X), at("p", X), at("q", X)),
		}}},
		{"negation-and-comparisons", []string{"n(1)", "n(2)", "n(3)", "bad(2)"}, [][]hClause{
			{cl("good", h(X), at("n", X), neg("bad", X))},
			{
				cl("pair", h(X, Y), at("good", X), at("good", Y), hPrem{kind: "ineq", l: X, r: Y}),
				cl("same", h(X, Y), at("good", X), hPrem{kind: "eq", l: Y, r: X}),
				cl("lonely", h(X), at("n", X), neg("good", X)),
				cl("one", h(X), at("n", X), hPrem{kind: "eq", l: X, r: hc(1)}),
			},
		}},
		{"nested-cuts", []string{"e(1)"}, [][]hClause{{
			cl("a", h(X), at("b", X)),
			cl("a", h(X), at("e", X)),
			cl("b", h(X), at("a", X)),
			cl("b", h(X), at("d", X)),
			cl("d", h(X), at("b", X)),
			cl("g", h(X), at("a", X), at("b", X)),
		}}},
		{"self-recursive-second-rule", []string{"e(1)"}, [][]hClause{{
			cl("a", h(X), at("e", X)),
			cl("a", h(X), at("b", X)),
			cl("b", h(X), at("a", X)),
			cl("b", h(X), at("b", X), at("e", X)),
			cl("g", h(X), at("a", X), at("b", X)),
		}}},
		{"four-premises-with-fan-out", []string{"p1(1)", "p2(1)", "p3(1)", "p4(1,10)", "p4(1,20)", "p4(1,30)"}, [][]hClause{{
			cl("r", h(X), at("p1", X), at("p2", X), at("p3", X), at("p4", X, Y)),
			cl("s", h(X, Y), at("p1", X), at("p2", X), at("p3", X), at("p4", X, Y), at("p1", X)),
		}}},
		{"edb-and-idb-mixed-goal", []string{"f(1)", "g(1)", "g(2)"}, [][]hClause{{
			cl("r", h(X), at("f", X), at("g", X)),
			cl("r", h(X), at("g", X), at("r", X)),
			cl("k", h(hc(7)), at("f", X)),
		}}},
	}
}

// ---- the rig ----

type c15Rig struct {
	c       *core.Ctx
	in      *ordabs.Interp
	q       *clauseKit
	prog    hProgram
	rules   []hClause
	model   map[string]bool
	hashes  map[string]int64
	kinds   map[string]int64
	explain *core.Func
	ok      bool
}

func (r *c15Rig) atomRec(f string) *ordabs.Rec {
	pred, args := parseHFact(f)
	var ts []hTerm
	for _, a := range args {
		ts = append(ts, hc(a))
	}
	return r.q.atom(pred, ts)
}

func atomString(v ordabs.Value) string {
	pred, args := backAtom(v)
	var as []string
	for _, a := range args {
		as = append(as, a.String())
	}
	return pred + "(" + strings.Join(as, ",") + ")"
}

func newC15Rig(c *core.Ctx, rule string) *c15Rig {
	r := &c15Rig{c: c, ok: true, hashes: map[string]int64{}, kinds: map[string]int64{}}
	r.explain = c.MustFunc(rule, "provenance", "Explain")
	for _, n := range []string{"explainer.explain", "explainer.solveBodyRec", "explainer.solveAtomPremise", "explainer.buildProof", "extractBindings", "collectVars", "derivedProofID", "edbProofID", "absenceProofID"} {
		if c.MustFunc(rule, "provenance", n) == nil {
			r.ok = false
		}
	}
	for _, k := range []string{"KindEDB", "KindDerived", "KindAbsence"} {
		v, ok := constInt(c.Prog, "provenance", k)
		if !ok {
			c.Unres(rule, "provenance."+k, 0, "anchor-unresolved")
			r.ok = false
		}
		r.kinds[k] = v
	}
	ak := &astKit{c: c, ok: true}
	ck := newConstKit(c, rule)
	r.q = &clauseKit{k: ak, ck: ck}
	if r.explain == nil || !ck.ok {
		r.ok = false
		return r
	}
	in := ordabs.New(c.Prog)
	in.InstallErrorStubs()
	in.InstallBuilderStubs()
	in.InstallStringStubs()
	in.StubSortSlice()
	r.in = in
	in.Stubs["ast.Atom.Hash"] = func(in *ordabs.Interp, recv ordabs.Value, _ []ordabs.Value) ([]ordabs.Value, error) {
		s := atomString(recv)
		h, ok := r.hashes[s]
		if !ok {
			h = int64(len(r.hashes) + 1)
			r.hashes[s] = h
		}
		return []ordabs.Value{h}, nil
	}
	in.Stubs["ast.Atom.String"] = func(in *ordabs.Interp, recv ordabs.Value, _ []ordabs.Value) ([]ordabs.Value, error) {
		return []ordabs.Value{atomString(recv)}, nil
	}
	in.Stubs["ast.Clause.String"] = func(in *ordabs.Interp, recv ordabs.Value, _ []ordabs.Value) ([]ordabs.Value, error) {
		return []ordabs.Value{clauseString(recv)}, nil
	}
	// an injective stand-in for the truncated SHA-256 (collision resistance is assumed)
	in.Stubs["provenance.contentHashHex"] = func(in *ordabs.Interp, _ ordabs.Value, a []ordabs.Value) ([]ordabs.Value, error) {
		out := "H["
		for _, p := range a {
			switch x := p.(type) {
			case string:
				out += fmt.Sprintf("%d:%s;", len(x), x)
			case *ordabs.Slice:
				if x != nil {
					for _, e := range *x.Elems {
						s, _ := e.(string)
						out += fmt.Sprintf("%d:%s;", len(s), s)
					}
				}
			}
		}
		return []ordabs.Value{out + "]"}, nil
	}
	in.Stubs["factstore.ReadOnlyFactStore.Contains"] = func(in *ordabs.Interp, _ ordabs.Value, a []ordabs.Value) ([]ordabs.Value, error) {
		return []ordabs.Value{r.model[atomString(a[0])]}, nil
	}
	in.Stubs["factstore.ReadOnlyFactStore.GetFacts"] = func(in *ordabs.Interp, _ ordabs.Value, a []ordabs.Value) ([]ordabs.Value, error) {
		qpred, qargs := backAtom(a[0])
		var fs []string
		for f := range r.model {
			fs = append(fs, f)
		}
		sort.Strings(fs)
		for _, f := range fs {
			pred, fargs := parseHFact(f)
			if pred != qpred || len(fargs) != len(qargs) {
				continue
			}
			match := true
			for i, qa := range qargs {
				if qa.kind == "const" && qa.n != fargs[i] {
					match = false
				}
			}
			if !match {
				continue
			}
			out, err := in.CallValue(a[1], []ordabs.Value{r.atomRec(f)})
			if err != nil {
				return nil, err
			}
			if len(out) > 0 && out[0] != nil {
				return []ordabs.Value{out[0]}, nil
			}
		}
		return []ordabs.Value{nil}, nil
	}
	return r
}

func clauseString(v ordabs.Value) string {
	var fields map[string]ordabs.Value
	switch x := v.(type) {
	case *ordabs.Rec:
		fields = x.Fields
	case *ordabs.Obj:
		if x != nil {
			fields = x.Fields
		}
	}
	if fields == nil {
		return "?"
	}
	var ps []string
	for _, p := range backPrems(fields["Premises"]) {
		ps = append(ps, p.String())
	}
	return atomString(fields["Head"]) + " :- " + strings.Join(ps, ", ") + "."
}

func (r *c15Rig) load(p hProgram) {
	r.prog = p
	r.rules = p.rules()
	r.model, _ = p.evaluate()
}

func (r *c15Rig) programValue() *ordabs.Obj {
	var rs []ordabs.Value
	idb := map[string]bool{}
	for _, cl := range r.rules {
		rs = append(rs, r.q.clause(cl))
		idb[cl.headPred] = true
	}
	edb := ordabs.NewMap()
	for f := range r.model {
		pred, args := parseHFact(f)
		if idb[pred] {
			continue
		}
		sym := predSym(pred, int64(len(args)))
		edb.M[ordabs.KeyString(sym)] = &ordabs.Rec{Fields: map[string]ordabs.Value{}}
		edb.Keys[ordabs.KeyString(sym)] = sym
	}
	return &ordabs.Obj{Name: "program", T: "analysis.ProgramInfo", Fields: map[string]ordabs.Value{
		"Rules": &ordabs.Slice{Elems: &rs}, "EdbPredicates": edb, "IdbPredicates": ordabs.NewMap(), "InitialFacts": (*ordabs.Slice)(nil), "Decls": ordabs.NewMap()}}
}

// proof is the Go-side view of a ProofNode.
type proofView struct {
	id, fact, ruleID string
	kind             int64
	rule             string
	bindings         map[string]int64
	premises         []*proofView
	partial          bool
}

func (r *c15Rig) view(v ordabs.Value, memo map[*ordabs.Obj]*proofView) *proofView {
	o, _ := v.(*ordabs.Obj)
	if o == nil {
		return nil
	}
	if pv, ok := memo[o]; ok {
		return pv
	}
	pv := &proofView{bindings: map[string]int64{}}
	memo[o] = pv
	pv.id, _ = o.Fields["ID"].(string)
	pv.fact = atomString(o.Fields["Fact"])
	pv.kind, _ = o.Fields["Kind"].(int64)
	pv.ruleID, _ = o.Fields["RuleID"].(string)
	pv.partial, _ = o.Fields["Partial"].(bool)
	if ro, ok := o.Fields["Rule"].(*ordabs.Obj); ok && ro != nil {
		pv.rule = clauseString(ro)
	}
	if bs, ok := o.Fields["Bindings"].(*ordabs.Slice); ok && bs != nil {
		for _, b := range *bs.Elems {
			br, _ := b.(*ordabs.Rec)
			if br == nil {
				continue
			}
			vr, _ := br.Fields["Var"].(*ordabs.Rec)
			cr, _ := br.Fields["Value"].(*ordabs.Rec)
			if vr != nil && cr != nil {
				n, _ := cr.Fields["NumValue"].(int64)
				pv.bindings[fmt.Sprint(vr.Fields["Symbol"])] = n
			}
		}
	}
	if ps, ok := o.Fields["Premises"].(*ordabs.Slice); ok && ps != nil {
		for _, p := range *ps.Elems {
			pv.premises = append(pv.premises, r.view(p, memo))
		}
	}
	return pv
}

// checkProof validates a proof against the program, the base facts and the model; it returns "" or the defect.
func (r *c15Rig) checkProof(p *proofView, ancestors map[string]bool, base map[string]bool) string {
	if p == nil {
		return "a nil proof node"
	}
	if ancestors[p.fact] {
		return fmt.Sprintf("the fact %s is its own ancestor", p.fact)
	}
	if p.partial {
		return fmt.Sprintf("the proof of %s is marked partial although the program has no transforms and the depth limit is not reached", p.fact)
	}
	switch p.kind {
	case r.kinds["KindEDB"]:
		if !base[p.fact] {
			return fmt.Sprintf("the leaf %s is presented as a stored base fact but is not one", p.fact)
		}
		return ""
	case r.kinds["KindAbsence"]:
		if r.model[p.fact] {
			return fmt.Sprintf("the absence leaf %s is in the store", p.fact)
		}
		return ""
	case r.kinds["KindDerived"]:
	default:
		return fmt.Sprintf("unexpected node kind %d for %s", p.kind, p.fact)
	}
	var rule *hClause
	for i := range r.rules {
		if r.rules[i].String() == hClauseCanon(p.rule) || clauseCanon(r.rules[i]) == p.rule {
			rule = &r.rules[i]
		}
	}
	if rule == nil {
		return fmt.Sprintf("the node for %s cites the rule %q, which is not a rule of the program", p.fact, p.rule)
	}
	g, ok := groundArgs(rule.head, p.bindings)
	if !ok {
		return fmt.Sprintf("the bindings %v reported for %s do not bind every variable of the head of %s", p.bindings, p.fact, clauseCanon(*rule))
	}
	if hFact(rule.headPred, g) != p.fact {
		return fmt.Sprintf("the head of %s under the bindings %v is %s, not the node's fact %s", clauseCanon(*rule), p.bindings, hFact(rule.headPred, g), p.fact)
	}
	anc := map[string]bool{p.fact: true}
	for k := range ancestors {
		anc[k] = true
	}
	next := 0
	for _, pr := range rule.prems {
		switch pr.kind {
		case "atom", "neg":
			ga, ok := groundArgs(pr.args, p.bindings)
			if !ok {
				return fmt.Sprintf("the bindings %v of the node for %s leave the premise %s non-ground", p.bindings, p.fact, pr)
			}
			want := hFact(pr.pred, ga)
			if next >= len(p.premises) {
				return fmt.Sprintf("the node for %s has %d premises, fewer than the body literals of %s", p.fact, len(p.premises), clauseCanon(*rule))
			}
			sub := p.premises[next]
			next++
			if sub == nil || sub.fact != want {
				got := "nil"
				if sub != nil {
					got = sub.fact
				}
				return fmt.Sprintf("premise %d of the node for %s is %s, but the body literal %s under the bindings is %s", next, p.fact, got, pr, want)
			}
			if pr.kind == "neg" && sub.kind != r.kinds["KindAbsence"] {
				return fmt.Sprintf("the negated literal %s of the node for %s is not justified by an absence leaf", pr, p.fact)
			}
			if pr.kind == "atom" && sub.kind == r.kinds["KindAbsence"] {
				return fmt.Sprintf("the positive literal %s of the node for %s is justified by an absence leaf", pr, p.fact)
			}
			if why := r.checkProof(sub, anc, base); why != "" {
				return why
			}
		case "eq", "ineq":
			l, lok := termVal(pr.l, p.bindings)
			rv, rok := termVal(pr.r, p.bindings)
			if lok && rok && (l == rv) != (pr.kind == "eq") {
				return fmt.Sprintf("the bindings %v of the node for %s violate the body literal %s", p.bindings, p.fact, pr)
			}
		}
	}
	if next != len(p.premises) {
		return fmt.Sprintf("the node for %s has %d premises but its rule has %d atoms", p.fact, len(p.premises), next)
	}
	return ""
}

func clauseCanon(c hClause) string {
	var ps []string
	for _, p := range c.prems {
		ps = append(ps, p.String())
	}
	var hs []string
	for _, h := range c.head {
		hs = append(hs, h.String())
	}
	return c.headPred + "(" + strings.Join(hs, ",") + ") :- " + strings.Join(ps, ", ") + "."
}

func hClauseCanon(s string) string { return s }

// signature is the content of a proof: kind, fact, rule and the premises' content.
func (p *proofView) signature() string {
	if p == nil {
		return "nil"
	}
	var ps []string
	for _, s := range p.premises {
		ps = append(ps, s.signature())
	}
	return fmt.Sprintf("<%d %s %s [%s]>", p.kind, p.fact, p.rule, strings.Join(ps, " "))
}

func checkC15(c *core.Ctx) {
	c.Rule(rC15Valid, "provenance.Explain (explain, solveBodyRec, solveAtomPremise, buildProof, extractBindings) and the unionfind substitution are read from source and evaluated for every fact of the least model of six transform-free programs (closure over a cyclic graph, left recursion, a cycle through three predicates, mutual recursion with two entry points, stratified negation with equalities and inequalities, mixed EDB/IDB goals), with MaxProofs 1 and 3; every returned proof is validated by an independent checker: the rule is a rule of the program, the head under the reported bindings is the fact, premises are the body literals under the same bindings in order, leaves are base facts or absent atoms, no fact is its own ancestor, nothing is partial", 6)
	c.Rule(rC15Complete, "in the same evaluations every fact of the least model gets at least one proof, whatever goals were explained before it by the same explainer state (each goal is explained in a fresh call; goals are also explained in every rotation of the fact order within one memo table by calling explain directly)", 6)
	c.Rule(rC15ID, "over all proof nodes produced for all programs (post-hoc and from recordings): two nodes have the same identifier exactly when they have the same content (kind, fact, rule, premises' content), under an injective stand-in for the hash", 1)
	c.Rule(rC15Rec, "provenance.MemoryRecorder and BuildFromRecording are evaluated on the rule-firing events of the same programs (generated by the reference evaluator in a derivation order, substitutions built with the interpreted unionfind): every proof built for every fact passes the same checker and every fact gets a proof", 6)
	c.Rule(rC15Engine, "oneStepEvalClause evaluated with a stub recorder over the semi-naive delta rules of abstract programs: the rule handed to RuleFired has no delta-prefixed premise, one premise fact per premise, the head is the derived fact; and the facts returned are the same with and without a recorder", 2)
	pool := map[string]string{} // id -> signature
	sigID := map[string]string{}
	idBad := ""
	addPool := func(p *proofView) {
		var walk func(n *proofView)
		seen := map[*proofView]bool{}
		walk = func(n *proofView) {
			if n == nil || seen[n] {
				return
			}
			seen[n] = true
			sig := n.signature()
			if old, ok := pool[n.id]; ok && old != sig && idBad == "" {
				idBad = fmt.Sprintf("the identifier %s is given to two different proofs: %s and %s", n.id, old, sig)
			}
			pool[n.id] = sig
			if old, ok := sigID[sig]; ok && old != n.id && idBad == "" {
				idBad = fmt.Sprintf("the proof %s has two identifiers: %s and %s", sig, old, n.id)
			}
			sigID[sig] = n.id
			for _, s := range n.premises {
				walk(s)
			}
		}
		walk(p)
	}
	r := newC15Rig(c, rC15Valid)
	if !r.ok {
		return
	}
	for _, prog := range c15Programs() {
		r.load(prog)
		base := map[string]bool{}
		for _, f := range prog.base {
			base[f] = true
		}
		var facts []string
		for f := range r.model {
			facts = append(facts, f)
		}
		sort.Strings(facts)
		validBad, completeBad := "", ""
		nProofs := 0
		for _, maxProofs := range []int64{1, 3} {
			for _, f := range facts {
				r.in.Reset()
				r.in.Fuel = 3000000
				opts := &ordabs.Rec{T: "provenance.Options", Fields: map[string]ordabs.Value{"MaxProofs": maxProofs, "MaxDepth": int64(0)}}
				out, err := r.in.Call(r.explain, nil, []ordabs.Value{r.programValue(), &ordabs.Obj{Name: "store", Opaque: true}, r.atomRec(f), opts})
				if !runORD(c, rC15Valid, r.explain.Name+":"+prog.name, r.explain, err) {
					return
				}
				ps, _ := out[0].(*ordabs.Slice)
				if out[1] != nil || ps == nil || len(*ps.Elems) == 0 {
					if completeBad == "" {
						completeBad = fmt.Sprintf("the stored fact %s has no proof (MaxProofs=%d)", f, maxProofs)
					}
					continue
				}
				memo := map[*ordabs.Obj]*proofView{}
				for _, pv := range *ps.Elems {
					v := r.view(pv, memo)
					nProofs++
					if v.fact != f && validBad == "" {
						validBad = fmt.Sprintf("the proof returned for %s proves %s", f, v.fact)
					}
					if why := r.checkProof(v, map[string]bool{}, base); why != "" && validBad == "" {
						validBad = fmt.Sprintf("goal %s: %s", f, why)
					}
					addPool(v)
				}
			}
		}
		// one explainer state for all goals, in every rotation of the goal order
		if why := r.sharedMemo(prog, facts); why != "" && completeBad == "" {
			completeBad = why
		}
		if !r.ok {
			return
		}
		c.Check(validBad == "", rC15Valid, r.explain.Name+":"+prog.name, r.explain.Decl.Pos(), fmt.Sprintf("%d proofs for %d facts pass the checker", nProofs, len(facts)), validBad)
		c.Check(completeBad == "", rC15Complete, r.explain.Name+":"+prog.name, r.explain.Decl.Pos(), fmt.Sprintf("all %d facts have a proof, in fresh calls and in %d goal orders over one memo table", len(facts), len(facts)), completeBad)
		c15Recording(c, r, prog, facts, base, addPool)
	}
	c.Check(idBad == "", rC15ID, "provenance.derivedProofID/edbProofID/absenceProofID", r.explain.Decl.Pos(), fmt.Sprintf("%d distinct proofs, identifiers and contents in bijection", len(pool)), idBad)
	c15EventsFor(c, r)
	c15Engine(c)
	c.Rule(rC15Do, "the do-transform pass of (*engine).eval hands the transform (and through it the recorder's DoEmit) one input fact per substitution row, and exactly the stored facts that unify with the rule's body atom (repeated variables agree, wildcards do not constrain): an aggregate's recorded inputs are the facts of its group", 2)
	X := hv("X")
	c02InputCaseRule(c, rC15Do, "do-transform-pass", "q(X,5,X)", []hTerm{X, hc(5), X}, "[1 5 1 2 5 2]")
	c.Rule("TABLE.recorded-rule-is-the-source-rule", "the rule handed to the recorder is rebuilt from the evaluated clause by normalizeRule: it keeps head, head time, premises and transform (a recorded rule without its transform has another text and another identifier than the source rule)", 4)
	clauseFieldCompleteness(c, "TABLE.recorded-rule-is-the-source-rule", []string{"engine.normalizeRule"}, []string{"Head", "HeadTime", "Premises", "Transform"})
	c02InputCaseRule(c, rC15Do, "do-transform-pass:wildcards", "q(_,5,_)", []hTerm{hv("_"), hc(5), hv("_")}, "[1 5 1 1 5 2 2 5 2]")
}

// sharedMemo calls explainer.explain for all goals on one explainer, in every rotation of the goal order.
func (r *c15Rig) sharedMemo(prog hProgram, facts []string) string {
	ex := r.c.Prog.Func("provenance", "explainer.explain")
	if ex == nil {
		return ""
	}
	noCut, ok := constInt(r.c.Prog, "provenance", "noCut")
	if !ok {
		noCut = 1<<63 - 1
	}
	for rot := range facts {
		e := &ordabs.Obj{Name: "explainer", T: "provenance.explainer", Fields: map[string]ordabs.Value{
			"program": r.programValue(), "store": &ordabs.Obj{Name: "store", Opaque: true},
			"opts":  &ordabs.Rec{T: "provenance.Options", Fields: map[string]ordabs.Value{"MaxProofs": int64(1), "MaxDepth": int64(64)}},
			"cache": ordabs.NewMap(), "onStack": ordabs.NewMap(), "lowCut": noCut, "ruleIDs": ordabs.NewMap()}}
		for i := range facts {
			f := facts[(i+rot)%len(facts)]
			r.in.Reset()
			r.in.Fuel = 3000000
			out, err := r.in.Call(ex, e, []ordabs.Value{r.atomRec(f), int64(0)})
			if !runORD(r.c, rC15Complete, ex.Name+":"+prog.name, ex, err) {
				r.ok = false
				return ""
			}
			ps, _ := out[0].(*ordabs.Slice)
			if ps == nil || len(*ps.Elems) == 0 {
				var before []string
				for j := 0; j < i; j++ {
					before = append(before, facts[(j+rot)%len(facts)])
				}
				return fmt.Sprintf("after explaining %v with the same memo table, the stored fact %s has no proof", before, f)
			}
		}
	}
	return ""
}
