package props

import (
	"fmt"
	"sort"
	"strings"

	"mgcheck/core"
	"mgcheck/ordabs"
)

// The "real join" fixture: (*engine).oneStepEvalClause and
// naiveEngine.oneStepEvalClause are read from source and evaluated TOGETHER WITH
// everything below them - oneStepEvalPremise, premiseAtom / premiseNegAtom /
// premiseEq / premiseIneq, functional.EvalAtom / EvalExpr / EvalApplyFn,
// builtin.Decide, the union-find substitution - on small clauses over small
// stores. Only the fact store is a model (a set of ground atoms answering
// GetFacts / Contains). The reference is declarative: the set of head instances
// under all assignments of the clause's variables that satisfy every premise.

// rjStoreSet is a set of facts like "e(1,2)".
type rjStore map[string]bool

type rjFix struct {
	c      *core.Ctx
	in     *ordabs.Interp
	q      *clauseKit
	stores map[*ordabs.Obj]rjStore
	store  *ordabs.Obj
	delta  *ordabs.Obj
	eng    *ordabs.Obj
	naive  *ordabs.Rec
	ok     bool
}

func (r *rjFix) atomRec(f string) *ordabs.Rec {
	pred, args := parseHFact(f)
	var ts []hTerm
	for _, a := range args {
		ts = append(ts, hc(a))
	}
	return r.q.atom(pred, ts)
}

func newRJFix(c *core.Ctx, rule string) *rjFix {
	r := &rjFix{c: c, in: ordabs.New(c.Prog), stores: map[*ordabs.Obj]rjStore{}, ok: true}
	ak := &astKit{c: c, ok: true}
	ck := newConstKit(c, rule)
	r.q = &clauseKit{k: ak, ck: ck}
	if !ck.ok {
		r.ok = false
		return r
	}
	in := r.in
	in.InstallTimeStubs()
	in.Stubs["ast.Atom.String"] = func(in *ordabs.Interp, recv ordabs.Value, _ []ordabs.Value) ([]ordabs.Value, error) {
		return []ordabs.Value{"<atom>"}, nil
	}
	in.Stubs["ast.Clause.String"] = in.Stubs["ast.Atom.String"]
	in.Stubs["ast.Constant.String"] = in.Stubs["ast.Atom.String"]
	in.Stubs["ast.ApplyFn.String"] = in.Stubs["ast.Atom.String"]
	in.Stubs["ast.Variable.String"] = in.Stubs["ast.Atom.String"]
	in.Globals = map[string]ordabs.Value{"engine.errBreak": ordabs.ErrVal{Tag: "break"}}
	if tk := newTypeKit(c, rule); tk.ok {
		// set by package ast's init function
		in.Globals["ast.TrueConstant"], in.Globals["ast.FalseConstant"] = tk.name("/true"), tk.name("/false")
	}
	get := func(v ordabs.Value) rjStore {
		o, _ := v.(*ordabs.Obj)
		return r.stores[o]
	}
	getFacts := func(in *ordabs.Interp, recv ordabs.Value, a []ordabs.Value) ([]ordabs.Value, error) {
		s := get(recv)
		if s == nil {
			return nil, &ordabs.Unsupported{What: "GetFacts on an unknown store"}
		}
		qpred, qargs := backAtom(a[0])
		var fs []string
		for f := range s {
			fs = append(fs, f)
		}
		sort.Strings(fs)
		for _, f := range fs {
			pred, fargs := parseHFact(f)
			if pred != qpred || len(fargs) != len(qargs) {
				continue
			}
			match := true
			for i, qa := range qargs {
				if qa.kind == "const" && qa.n != fargs[i] {
					match = false
				}
				if qa.kind == "fn" {
					match = false // as in the real stores: an unevaluated expression equals no stored constant
				}
			}
			if !match {
				continue
			}
			out, err := in.CallValue(a[1], []ordabs.Value{r.atomRec(f)})
			if err != nil {
				return nil, err
			}
			if len(out) > 0 && out[0] != nil {
				return []ordabs.Value{out[0]}, nil
			}
		}
		return []ordabs.Value{nil}, nil
	}
	for _, n := range []string{"factstore.FactStore", "factstore.ReadOnlyFactStore", "factstore.FactStoreWithRemove"} {
		in.Stubs[n+".GetFacts"] = getFacts
		in.Stubs[n+".Contains"] = func(in *ordabs.Interp, recv ordabs.Value, a []ordabs.Value) ([]ordabs.Value, error) {
			s := get(recv)
			if s == nil {
				return nil, &ordabs.Unsupported{What: "Contains on an unknown store"}
			}
			return []ordabs.Value{s[atomString(a[0])]}, nil
		}
		in.Stubs[n+".EstimateFactCount"] = func(in *ordabs.Interp, recv ordabs.Value, a []ordabs.Value) ([]ordabs.Value, error) {
			return []ordabs.Value{int64(len(get(recv)))}, nil
		}
	}
	r.store = &ordabs.Obj{Name: "store", Opaque: true}
	r.delta = &ordabs.Obj{Name: "delta", Opaque: true}
	r.stores[r.store], r.stores[r.delta] = rjStore{}, rjStore{}
	opts := ak.zero("engine", "EvalOptions")
	opts.Fields["externalPredicates"] = ordabs.NewMap()
	eng := ak.zero("engine", "engine")
	nv := ak.zero("engine", "naiveEngine")
	if !ak.ok {
		c.Unres(rule, "engine.engine", 0, "anchor-unresolved: cannot model the engine's types")
		r.ok = false
		return r
	}
	eng.Fields["store"], eng.Fields["deltaStore"] = r.store, r.delta
	eng.Fields["options"] = opts
	eng.Fields["predToDecl"] = ordabs.NewMap()
	eng.Fields["predToRules"] = ordabs.NewMap()
	r.eng = &ordabs.Obj{Name: "engine", Fields: eng.Fields}
	nv.Fields["store"] = r.store
	r.naive = nv
	return r
}

// ---- declarative reference ----

func rjTermVal(t hTerm, sigma map[string]int64) (int64, bool) {
	switch t.kind {
	case "const":
		return t.n, true
	case "var":
		v, ok := sigma[t.name]
		return v, ok
	case "fn":
		var vs []int64
		for _, a := range t.args {
			v, ok := rjTermVal(a, sigma)
			if !ok {
				return 0, false
			}
			vs = append(vs, v)
		}
		switch t.name {
		case "fn:plus":
			s := int64(0)
			for _, v := range vs {
				s += v
			}
			return s, true
		case "fn:minus":
			if len(vs) == 0 {
				return 0, false
			}
			s := vs[0]
			for _, v := range vs[1:] {
				s -= v
			}
			return s, true
		case "fn:mult":
			s := int64(1)
			for _, v := range vs {
				s *= v
			}
			return s, true
		}
	}
	return 0, false
}

func rjHolds(p hPrem, sigma map[string]int64, store rjStore) bool {
	switch p.kind {
	case "atom", "neg":
		if strings.HasPrefix(p.pred, ":") {
			a, ok1 := rjTermVal(p.args[0], sigma)
			if p.pred == ":list:member" {
				// the list is written as fn:list(e1, ..., en) over integer-valued terms
				if !ok1 {
					return false
				}
				r := false
				if len(p.args) == 2 && p.args[1].kind == "fn" && p.args[1].name == "fn:list" {
					for _, e := range p.args[1].args {
						if ev, ok := rjTermVal(e, sigma); ok && ev == a {
							r = true
						}
					}
				}
				if p.kind == "neg" {
					return !r
				}
				return r
			}
			b, ok2 := rjTermVal(p.args[1], sigma)
			if !ok1 || !ok2 {
				return false
			}
			var r bool
			switch p.pred {
			case ":match_pair", ":match_cons":
				r = false // the family's constants are numbers: never a pair or a list
			case ":lt":
				r = a < b
			case ":le":
				r = a <= b
			case ":gt":
				r = a > b
			case ":ge":
				r = a >= b
			}
			if p.kind == "neg" {
				return !r
			}
			return r
		}
		// exists an assignment of the wildcards such that the fact is stored
		found := false
		for f := range store {
			pred, fargs := parseHFact(f)
			if pred != p.pred || len(fargs) != len(p.args) {
				continue
			}
			match := true
			for i, a := range p.args {
				if a.kind == "var" && a.name == "_" {
					continue
				}
				v, ok := rjTermVal(a, sigma)
				if !ok || v != fargs[i] {
					match = false
				}
			}
			if match {
				found = true
			}
		}
		if p.kind == "neg" {
			return !found
		}
		return found
	case "eq", "ineq":
		l, ok1 := rjTermVal(p.l, sigma)
		r, ok2 := rjTermVal(p.r, sigma)
		if !ok1 || !ok2 {
			return false
		}
		return (l == r) == (p.kind == "eq")
	}
	return false
}

// rjReference returns the head facts of the clause over the store: all total
// assignments of its variables over dom that satisfy every premise.
func rjReference(cl hClause, store rjStore, dom []int64) map[string]bool {
	vs := map[string]bool{}
	for _, h := range cl.head {
		h.vars(vs)
	}
	for _, p := range cl.prems {
		for _, a := range p.args {
			a.vars(vs)
		}
		p.l.vars(vs)
		p.r.vars(vs)
	}
	delete(vs, "_")
	if cl.letVar != "" {
		delete(vs, cl.letVar) // defined by the transform from the body's solution
		cl.letExpr.vars(vs)
	}
	names := sortedKeys(vs)
	out := map[string]bool{}
	sigma := map[string]int64{}
	var rec func(i int)
	rec = func(i int) {
		if i == len(names) {
			for _, p := range cl.prems {
				if !rjHolds(p, sigma, store) {
					return
				}
			}
			if cl.letVar != "" {
				v, ok := rjTermVal(cl.letExpr, sigma)
				if !ok {
					return
				}
				sigma[cl.letVar] = v
				defer delete(sigma, cl.letVar)
			}
			var hs []int64
			for _, h := range cl.head {
				v, ok := rjTermVal(h, sigma)
				if !ok {
					return
				}
				hs = append(hs, v)
			}
			out[hFact(cl.headPred, hs)] = true
			return
		}
		for _, d := range dom {
			sigma[names[i]] = d
			rec(i + 1)
		}
		delete(sigma, names[i])
	}
	rec(0)
	return out
}

// ---- running the evaluators ----

type rjResult struct {
	facts  map[string]bool
	err    bool
	ground bool
	detail string
}

func (r *rjFix) load(s rjStore, d rjStore) {
	r.stores[r.store], r.stores[r.delta] = s, d
}

func rjAtomGround(v ordabs.Value) (string, bool) {
	pred, args := backAtom(v)
	var ns []int64
	for _, a := range args {
		if a.kind != "const" {
			return pred + "(" + fmt.Sprint(args) + ")", false
		}
		ns = append(ns, a.n)
	}
	return hFact(pred, ns), true
}

// seminaive evaluates (*engine).oneStepEvalClause on the clause value.
func (r *rjFix) seminaive(f *core.Func, cl ordabs.Value) (rjResult, error) {
	r.in.Reset()
	r.in.Fuel = 300000
	out, err := r.in.Call(f, r.eng, []ordabs.Value{cl})
	if err != nil {
		return rjResult{}, err
	}
	res := rjResult{facts: map[string]bool{}, ground: true}
	if _, isErr := out[1].(ordabs.ErrVal); isErr {
		res.err = true
		res.detail = fmt.Sprint(out[1])
		return res, nil
	}
	if sl, _ := out[0].(*ordabs.Slice); sl != nil {
		for _, d := range *sl.Elems {
			dr, _ := d.(*ordabs.Rec)
			if dr == nil {
				continue
			}
			s, g := rjAtomGround(dr.Fields["Atom"])
			if !g {
				res.ground = false
				res.detail = s
			}
			res.facts[s] = true
		}
	}
	return res, nil
}

// naiveEval evaluates naiveEngine.oneStepEvalClause.
func (r *rjFix) naiveEval(f *core.Func, cl ordabs.Value) (rjResult, error) {
	r.in.Reset()
	r.in.Fuel = 300000
	out, err := r.in.Call(f, r.naive, []ordabs.Value{cl})
	if err != nil {
		return rjResult{}, err
	}
	res := rjResult{facts: map[string]bool{}, ground: true}
	if sl, _ := out[0].(*ordabs.Slice); sl != nil {
		for _, d := range *sl.Elems {
			s, g := rjAtomGround(d)
			if !g {
				res.ground = false
				res.detail = s
			}
			res.facts[s] = true
		}
	}
	return res, nil
}

func setString(m map[string]bool) string { return "{" + strings.Join(sortedKeys(m), " ") + "}" }

func sameSet(a, b map[string]bool) bool {
	if len(a) != len(b) {
		return false
	}
	for k := range a {
		if !b[k] {
			return false
		}
	}
	return true
}

// rjStores are the stores every clause is evaluated over: chosen so that each
// premise of the pool is satisfied by some and falsified by other values.
func rjStores() []rjStore {
	mk := func(fs ...string) rjStore {
		s := rjStore{}
		for _, f := range fs {
			s[f] = true
		}
		return s
	}
	return []rjStore{
		mk("a(1)", "a(2)", "b(2)", "b(3)", "e(1,2)", "e(2,2)", "e(2,3)", "e(3,1)", "n(1)", "m(1,2)", "m(2,2)", "k(3)"),
		mk("a(2)", "a(3)", "b(1)", "b(2)", "b(3)", "e(1,1)", "e(2,3)", "e(3,3)", "n(3)", "n(4)", "m(2,3)"),
		mk("a(1)", "b(1)", "e(1,1)"),
	}
}

var rjDomain = []int64{0, 1, 2, 3, 4, 5}

// rjPool is the premise pool of the evaluation family (a superset of C04's).
func rjPool() []hPrem {
	X, Y := hv("X"), hv("Y")
	p := premisePool()
	p = append(p,
		hPrem{kind: "atom", pred: "e", args: []hTerm{X, X}},
		hPrem{kind: "atom", pred: "e", args: []hTerm{hc(2), Y}},
		hPrem{kind: "atom", pred: "e", args: []hTerm{Y, X}},
		hPrem{kind: "neg", pred: "n", args: []hTerm{hf("fn:plus", X, hc(1))}},
		hPrem{kind: "neg", pred: ":lt", args: []hTerm{X, hc(2)}},
		hPrem{kind: "eq", l: hc(3), r: hf("fn:plus", Y, hc(1))},
		hPrem{kind: "ineq", l: X, r: hc(2)},
		hPrem{kind: "atom", pred: ":le", args: []hTerm{Y, hf("fn:plus", X, hc(1))}},
		hPrem{kind: "atom", pred: ":match_pair", args: []hTerm{X, Y, hv("Z")}},
		hPrem{kind: "eq", l: hf("fn:plus", X, hc(1)), r: hf("fn:plus", Y, hc(0))},
		hPrem{kind: "atom", pred: ":list:member", args: []hTerm{Y, hf("fn:list", hc(1), hc(3), X)}},
		hPrem{kind: "atom", pred: ":list:member", args: []hTerm{X, hf("fn:list", hc(2), hc(3), hc(2))}},
		hPrem{kind: "atom", pred: "b", args: []hTerm{hf("fn:plus", X, hc(1))}},
		hPrem{kind: "atom", pred: "e", args: []hTerm{hf("fn:plus", Y, hc(0)), X}},
	)
	return p
}

// rjClauses enumerates the evaluation family: heads h(X), h(X,Y), h(Y) over one
// and two premises of the extended pool and (wide) three premises of C04's pool.
func rjClauses(wide bool) []hClause {
	pool := rjPool()
	base := len(premisePool())
	heads := [][]hTerm{{hv("X")}, {hv("X"), hv("Y")}, {hv("Y")}}
	var out []hClause
	for _, h := range heads {
		for i := range pool {
			out = append(out, hClause{headPred: "h", head: h, prems: []hPrem{pool[i]}})
			for j := range pool {
				if j == i {
					continue
				}
				out = append(out, hClause{headPred: "h", head: h, prems: []hPrem{pool[i], pool[j]}})
				if !wide || i >= base || j >= base {
					continue
				}
				for l := 0; l < base; l++ {
					if l == i || l == j {
						continue
					}
					out = append(out, hClause{headPred: "h", head: h, prems: []hPrem{pool[i], pool[j], pool[l]}})
				}
			}
		}
	}
	// an extension premise before, between and after two of the binding atoms a(X), b(Y), e(X,Y)
	for _, h := range heads {
		for x := base; x < len(pool); x++ {
			for _, i := range []int{0, 1, 2} {
				for _, j := range []int{0, 1, 2} {
					if i == j {
						continue
					}
					out = append(out, hClause{headPred: "h", head: h, prems: []hPrem{pool[x], pool[i], pool[j]}},
						hClause{headPred: "h", head: h, prems: []hPrem{pool[i], pool[x], pool[j]}},
						hClause{headPred: "h", head: h, prems: []hPrem{pool[i], pool[j], pool[x]}})
				}
			}
		}
	}
	return out
}

// clauseEvalRule evaluates the rule evaluators on every clause of the family that
// the reference judgement finds safe in its written order.
//   what = "semi-naive": (*engine).oneStepEvalClause against the declarative reference, plus delta variants
//   what = "naive":      naiveEngine.oneStepEvalClause against (*engine).oneStepEvalClause
func clauseEvalRule(c *core.Ctx, rule, what string) {
	semi := c.MustFunc(rule, "engine", "engine.oneStepEvalClause")
	var naive, mkDelta *core.Func
	if what == "naive" {
		naive = c.MustFunc(rule, "engine", "naiveEngine.oneStepEvalClause")
	} else {
		mkDelta = c.MustFunc(rule, "engine", "makeDeltaAtom")
	}
	if semi == nil || (what == "naive" && naive == nil) || (what != "naive" && mkDelta == nil) {
		return
	}
	r := newRJFix(c, rule)
	if !r.ok {
		return
	}
	stores := rjStores()
	bad, n, nDelta := "", 0, 0
	clauses := rjClauses(c.Tier == "thorough")
	safe := 0
	nFamily := len(clauses)
	if what != "naive" {
		// heads with function expressions, with and without a let-transform (safe by construction: every
		// variable of the head and of the let expression is bound by the positive atoms)
		X, Y, N := hv("X"), hv("Y"), hv("N")
		aX := hPrem{kind: "atom", pred: "a", args: []hTerm{X}}
		eXY := hPrem{kind: "atom", pred: "e", args: []hTerm{X, Y}}
		clauses = append(clauses,
			hClause{headPred: "h", head: []hTerm{hf("fn:plus", X, hc(10))}, prems: []hPrem{aX}},
			hClause{headPred: "h", head: []hTerm{hf("fn:plus", X, Y), hf("fn:mult", X, hc(2))}, prems: []hPrem{eXY}},
			hClause{headPred: "h", head: []hTerm{X, N}, prems: []hPrem{aX}, letVar: "N", letExpr: hf("fn:mult", X, hc(2))},
			hClause{headPred: "h", head: []hTerm{hf("fn:plus", X, hc(10)), N}, prems: []hPrem{aX}, letVar: "N", letExpr: hf("fn:mult", X, hc(2))},
			hClause{headPred: "h", head: []hTerm{N, hf("fn:minus", Y, X)}, prems: []hPrem{eXY}, letVar: "N", letExpr: hf("fn:plus", X, Y)},
		)
	}
	for ci, cl := range clauses {
		if ci < nFamily && unsafeReason(cl.head, cl.prems, false, nil) != "" {
			continue
		}
		safe++
		clv := r.q.clause(cl)
		for si, st := range stores {
			r.load(st, rjStore{})
			got, err := r.seminaive(semi, clv)
			if !runORD(c, rule, semi.Name, semi, err) {
				return
			}
			n++
			if what == "naive" {
				ng, err := r.naiveEval(naive, clv)
				if !runORD(c, rule, naive.Name, naive, err) {
					return
				}
				if got.err {
					continue // the semi-naive evaluator's own obligations report this
				}
				if !sameSet(ng.facts, got.facts) && bad == "" {
					bad = fmt.Sprintf("clause %s over store %d: the naive evaluator derives %s, the semi-naive evaluator %s", cl, si, setString(ng.facts), setString(got.facts))
				}
				continue
			}
			want := rjReference(cl, st, rjDomain)
			switch {
			case bad != "":
			case got.err:
				bad = fmt.Sprintf("clause %s (safe: every variable has a value where it is needed) over store %d: evaluation fails with an error", cl, si)
			case !got.ground:
				bad = fmt.Sprintf("clause %s over store %d: the derived fact %s is not ground", cl, si, got.detail)
			case !sameSet(got.facts, want):
				bad = fmt.Sprintf("clause %s over store %d %s: derived %s, but the head instances under all assignments satisfying the body are %s", cl, si, setString(st), setString(got.facts), setString(want))
			}
			// delta variant: the first stored-predicate atom reads the delta store
			if si != 0 {
				continue
			}
			for pi, p := range cl.prems {
				if p.kind != "atom" || strings.HasPrefix(p.pred, ":") {
					continue
				}
				// delta = the facts of that predicate with an even first argument sum, a proper subset
				delta := rjStore{}
				refStore := rjStore{}
				for f := range st {
					refStore[f] = true
					pred, args := parseHFact(f)
					if pred == p.pred && len(args) == len(p.args) && args[0]%2 == 0 {
						delta[f] = true
						refStore[hFact("delta_"+pred, args)] = true
					}
				}
				r.in.Reset()
				dout, err := r.in.Call(mkDelta, nil, []ordabs.Value{r.q.atom(p.pred, p.args)})
				if !runORD(c, rule, mkDelta.Name, mkDelta, err) {
					return
				}
				dcl := r.q.clause(cl)
				ps := *dcl.Fields["Premises"].(*ordabs.Slice).Elems
				ps[pi] = dout[0]
				rcl := cl
				rcl.prems = append([]hPrem{}, cl.prems...)
				rcl.prems[pi] = hPrem{kind: "atom", pred: "delta_" + p.pred, args: p.args}
				r.load(st, delta)
				dgot, err := r.seminaive(semi, dcl)
				if !runORD(c, rule, semi.Name, semi, err) {
					return
				}
				nDelta++
				dwant := rjReference(rcl, refStore, rjDomain)
				if (dgot.err || !sameSet(dgot.facts, dwant)) && bad == "" {
					bad = fmt.Sprintf("clause %s with premise %d read from the delta store %s (store %s): derived %s (error=%v), want %s: a delta-marked atom must be answered by the delta store, every other premise by the full store", cl, pi, setString(delta), setString(st), setString(dgot.facts), dgot.err, setString(dwant))
				}
				break
			}
		}
	}
	c.Cover("clauses_evaluated_"+strings.ReplaceAll(what, "-", "_"), n+nDelta)
	if what == "naive" {
		c.Check(bad == "" && safe > 100, rule, naive.Name, naive.Decl.Pos(), fmt.Sprintf("%d safe clauses x %d stores: both evaluators derive the same facts", safe, len(stores)), bad)
		return
	}
	c.Check(bad == "" && safe > 100, rule, semi.Name, semi.Decl.Pos(), fmt.Sprintf("%d safe clauses of %d x %d stores (+%d delta variants): no error, ground facts, exactly the declarative meaning", safe, len(clauses), len(stores), nDelta), bad)
}
