package props

import (
	"fmt"
	"sort"
	"strings"

	"mgcheck/core"
	"mgcheck/ordabs"
)

const rC07RedEval = "ORDABS.reducers-over-rows"

// c07ReducerLaws: functional.EvalReduceFn is read from source and evaluated on small groups of rows whose values
// include distinct constants with equal hashes (a number, a time and a duration of one value) and repetitions, in
// every order of up to four rows: count, sum, min, max over integers, collect as a multiset, collect_distinct and
// collect_to_map as sets, count_distinct as the number of distinct rows.
func c07ReducerLaws(c *core.Ctx, rule string) {
	c.Rule(rule, "functional.EvalReduceFn, read from source and evaluated on every sequence of one to four rows drawn from six values (three integers, among them a repeated one, and a number, a time and a duration that share one hash): fn:count is the number of rows, fn:sum / fn:max / fn:min over the integer rows are the sum, maximum and minimum, fn:collect holds every value once per row, fn:collect_distinct holds each distinct value exactly once whatever the order of the rows, fn:count_distinct is the number of distinct rows, fn:collect_to_map keeps one entry per distinct key", 6)
	f := c.MustFunc(rule, "functional", "EvalReduceFn")
	if f == nil {
		return
	}
	k := newC08Kit(c, rule, false)
	if !k.ok {
		return
	}
	tkn := newTypeKit(c, rule)
	if tkn.ok {
		if k.in.Globals == nil {
			k.in.Globals = map[string]ordabs.Value{}
		}
		k.in.Globals["ast.TrueConstant"], k.in.Globals["ast.FalseConstant"] = tkn.name("/true"), tkn.name("/false")
	}
	nu := func(n int64) *ct { return &ct{kind: "num", n: n} }
	vals := []*ct{nu(1), nu(5), nu(-3), {kind: "time", n: 5}, {kind: "dur", n: 5}}
	X := &ordabs.Rec{Fields: map[string]ordabs.Value{"Symbol": "X"}, T: "ast.Variable"}
	pairT := c.Prog.Named("ast", "ConstSubstPair")
	if pairT == nil {
		c.Unres(rule, "ast.ConstSubstPair", 0, "anchor-unresolved: type ast.ConstSubstPair")
		return
	}
	row := func(v *ct) ordabs.Value {
		z, _ := ordabs.ZeroOf(pairT)
		p := z.(*ordabs.Rec)
		// field names of the pair are read from the type
		st := pairT.Underlying()
		_ = st
		for name := range p.Fields {
			switch fv := p.Fields[name].(type) {
			case *ordabs.Rec:
				if fv.T == "ast.Variable" {
					p.Fields[name] = X
				} else if fv.T == "ast.Constant" {
					p.Fields[name] = k.build(rule, v, false)
				}
			}
		}
		es := []ordabs.Value{p}
		return &ordabs.Slice{Elems: &es}
	}
	call := func(sym string, arity int64, rows []ordabs.Value, args ...ordabs.Value) (*ordabs.Rec, bool, bool) {
		var as ordabs.Value = (*ordabs.Slice)(nil)
		if len(args) > 0 {
			as = &ordabs.Slice{Elems: &args}
		}
		fn := &ordabs.Rec{T: "ast.ApplyFn", Fields: map[string]ordabs.Value{
			"Function": &ordabs.Rec{T: "ast.FunctionSym", Fields: map[string]ordabs.Value{"Symbol": sym, "Arity": arity}},
			"Args":     as}}
		k.in.Reset()
		k.in.Fuel = 600000
		out, err := k.in.Call(f, nil, []ordabs.Value{fn, &ordabs.Slice{Elems: &rows}})
		if !runORD(c, rule, f.Name+":"+sym, f, err) {
			return nil, false, false
		}
		if out[1] != nil {
			return nil, true, true
		}
		r, _ := out[0].(*ordabs.Rec)
		return r, false, true
	}
	str := func(r *ordabs.Rec) string {
		if r == nil {
			return "<nothing>"
		}
		return k.str(rule, r)
	}
	// elements of a list constant, printed
	elems := func(r *ordabs.Rec) []string {
		var out []string
		for r != nil {
			fst, _ := r.Fields["fst"].(*ordabs.Obj)
			snd, _ := r.Fields["snd"].(*ordabs.Obj)
			if fst == nil {
				break
			}
			out = append(out, k.str(rule, &ordabs.Rec{Fields: fst.Fields, T: "ast.Constant"}))
			if snd == nil {
				break
			}
			r = &ordabs.Rec{Fields: snd.Fields, T: "ast.Constant"}
		}
		return out
	}
	bads := map[string]string{}
	set := func(kx, msg string) {
		if bads[kx] == "" {
			bads[kx] = msg
		}
	}
	n := 0
	var seq []int
	var rec func(depth int) bool
	rec = func(depth int) bool {
		if depth > 0 {
			var rows []ordabs.Value
			var names []string
			distinct := map[string]bool{}
			allInt := true
			var sum, mx, mn int64
			for i, x := range seq {
				rows = append(rows, row(vals[x]))
				nm := vals[x].canon()
				names = append(names, nm)
				distinct[nm] = true
				if vals[x].kind != "num" {
					allInt = false
				} else {
					v := vals[x].n
					sum += v
					if i == 0 || v > mx {
						mx = v
					}
					if i == 0 || v < mn {
						mn = v
					}
				}
			}
			desc := "rows X = " + strings.Join(names, ", ")
			n++
			if got, isErr, ok := call("fn:count", 0, rows); !ok {
				return false
			} else if isErr || str(got) != fmt.Sprint(len(seq)) {
				set("fn:count", fmt.Sprintf("%s: fn:count() = %s, want %d", desc, str(got), len(seq)))
			}
			if allInt {
				for _, t := range []struct {
					sym  string
					want int64
				}{{"fn:sum", sum}, {"fn:max", mx}, {"fn:min", mn}} {
					if got, isErr, ok := call(t.sym, 1, rows, X); !ok {
						return false
					} else if isErr || str(got) != fmt.Sprint(t.want) {
						set(t.sym, fmt.Sprintf("%s: %s(X) = %s, want %d", desc, t.sym, str(got), t.want))
					}
				}
			}
			got, isErr, ok := call("fn:collect", -1, rows, X)
			if !ok {
				return false
			}
			ge := elems(got)
			var want []string
			for _, x := range seq {
				want = append(want, k.str(rule, k.build(rule, vals[x], false)))
			}
			sg, sw := append([]string{}, ge...), append([]string{}, want...)
			sort.Strings(sg)
			sort.Strings(sw)
			if isErr || strings.Join(sg, " ; ") != strings.Join(sw, " ; ") {
				set("fn:collect", fmt.Sprintf("%s: fn:collect(X) holds [%s], want every value once per row [%s]", desc, strings.Join(ge, " ; "), strings.Join(want, " ; ")))
			}
			got, isErr, ok = call("fn:collect_distinct", -1, rows, X)
			if !ok {
				return false
			}
			ge = elems(got)
			seenD := map[string]int{}
			for _, e := range ge {
				seenD[e]++
			}
			okD := !isErr && len(seenD) == len(distinct) && len(ge) == len(distinct)
			if !okD {
				set("fn:collect_distinct", fmt.Sprintf("%s: fn:collect_distinct(X) holds [%s], want each of the %d distinct values exactly once (values that merely share a hash are different values)", desc, strings.Join(ge, " ; "), len(distinct)))
			}
			if got, isErr, ok := call("fn:count_distinct", 0, rows); !ok {
				return false
			} else if isErr || str(got) != fmt.Sprint(len(distinct)) {
				set("fn:count_distinct", fmt.Sprintf("%s: fn:count_distinct() = %s, want %d", desc, str(got), len(distinct)))
			}
			// collect_to_map(X, X): one entry per distinct key
			got, isErr, ok = call("fn:collect_to_map", 2, rows, X, X)
			if !ok {
				return false
			}
			entries := 0
			for r := got; r != nil; {
				fst, _ := r.Fields["fst"].(*ordabs.Obj)
				snd, _ := r.Fields["snd"].(*ordabs.Obj)
				if fst == nil {
					break
				}
				entries++
				if snd == nil {
					break
				}
				r = &ordabs.Rec{Fields: snd.Fields, T: "ast.Constant"}
			}
			if isErr || entries != len(distinct) {
				set("fn:collect_to_map", fmt.Sprintf("%s: fn:collect_to_map(X, X) = %s with %d entries, want one entry per distinct key (%d)", desc, str(got), entries, len(distinct)))
			}
		}
		maxLen := 3
		if c.Tier == "thorough" {
			maxLen = 4
		}
		if depth == maxLen {
			return true
		}
		for x := range vals {
			seq = append(seq, x)
			if !rec(depth + 1) {
				return false
			}
			seq = seq[:len(seq)-1]
		}
		return true
	}
	if !rec(0) {
		return
	}
	for _, sym := range []string{"fn:count", "fn:sum", "fn:max", "fn:min", "fn:collect", "fn:collect_distinct", "fn:count_distinct", "fn:collect_to_map"} {
		c.Check(bads[sym] == "", rule, f.Name+":"+sym, f.Decl.Pos(), fmt.Sprintf("agrees with its definition on %d row sequences", n), bads[sym])
	}
}
