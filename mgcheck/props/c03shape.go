package props

import (
	"go/ast"
	"go/token"
	"strings"

	"mgcheck/core"
)

type astForStmt = ast.ForStmt
type tokenPos = token.Pos

// c03LoopShape recognises the ascending stratum loop of evalStrata.
func c03LoopShape(c *core.Ctx, f *core.Func) (outer, inner, own bool) {
	ast.Inspect(f.Decl.Body, func(n ast.Node) bool {
		fs, ok := n.(*ast.ForStmt)
		if !ok || fs.Init == nil || fs.Cond == nil || fs.Post == nil {
			return true
		}
		init := core.Src(c.Prog.Fset, fs.Init)
		cond := core.Src(c.Prog.Fset, fs.Cond)
		post := core.Src(c.Prog.Fset, fs.Post)
		if strings.HasSuffix(init, ":= 0") && strings.Contains(cond, "< len(") && strings.Contains(cond, "strata") && strings.HasSuffix(post, "++") {
			iv := strings.TrimSpace(strings.Split(init, ":=")[0])
			outer = true
			ast.Inspect(fs.Body, func(m ast.Node) bool {
				in, ok := m.(*ast.ForStmt)
				if ok && in.Cond != nil {
					ic := core.Src(c.Prog.Fset, in.Cond)
					if strings.HasSuffix(ic, "< "+iv) && strings.Contains(core.SrcFull(c.Prog.Fset, in.Body), "stratumEdbPredicates") {
						inner = true
					}
				}
				if rs, ok := m.(*ast.RangeStmt); ok {
					if strings.HasSuffix(core.Src(c.Prog.Fset, rs.X), "Strata["+iv+"]") && strings.Contains(core.SrcFull(c.Prog.Fset, rs.Body), "stratumIdbPredicates") {
						own = true
					}
				}
				return true
			})
		}
		return true
	})
	return
}
