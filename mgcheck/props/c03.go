package props

import (
	"fmt"
	"sort"
	"strings"

	"mgcheck/core"
	"mgcheck/ordabs"
)

func init() { register("C03", checkC03) }

const (
	rC03Edge  = "ORDABS.edge-label"
	rC03Graph = "ORDABS.dependency-graph"
	rC03Strat = "ORDABS.stratify-small-graphs"
	rC03TX    = "TX.predicate-collectors"
	rC03Order = "ORDABS.strata-in-order"
)

func checkC03(c *core.Ctx) {
	c.Rule(rC03Edge, "depGraph.addEdge, evaluated on every prior state of the edge (absent, positive, negative) and both polarities, leaves the edge present with label old OR new: a negative mention is never overwritten by a positive one, in either order", 1)
	c.Rule(rC03Graph, "makeDepGraph, evaluated on one-rule programs with every premise kind (atom, negated atom, temporal literal with and without operator/interval around either, temporal atom, equality, built-in, extensional) under no transform, a let-transform and a do-transform, adds exactly the edges the property requires with the right polarity", 1)
	c.Rule(rC03Strat, "Stratify, evaluated from source (with makeDepGraph's result supplied) on every labelled dependency graph over at most three predicates, in ascending and descending map order: it fails exactly when a negative edge lies inside a strongly connected component; otherwise mutually recursive predicates share a layer, every dependency lies in the same or an earlier layer, strictly earlier when negative, and the predicate-to-layer map agrees with the layer list", 1)
	c.Rule(rC03TX, "the two dependency-graph builders (stratification, temporal recursion check) handle the same literal kinds", 2)
	c.Rule(rC03Order, "(*engine).evalStrata, read from source and evaluated on a three-layer program with the per-layer fixpoint, the rewriter and the stores replaced by recorders: the engine evaluates the returned layers in ascending index and treats exactly the earlier layers as extensional", 1)
	c03AddEdge(c)
	c03DepGraph(c)
	c03Stratify(c)
	termKindCoverage(c, rC03TX, []txSpec{
		{"analysis", "makeDepGraph", []string{"ast.Atom", "ast.NegAtom", "ast.TemporalLiteral", "ast.TemporalAtom"}, "every kind of body literal that mentions a predicate contributes a dependency edge"},
		{"analysis", "buildTemporalDepGraph", []string{"ast.Atom", "ast.NegAtom", "ast.TemporalLiteral"}, "the temporal recursion check sees the same dependencies"},
	})
	c03StrataOrder(c)
	c.Rule("ORDABS.classification-before-stratification", "Analyzer.Analyze, evaluated on the same clauses in different orders, classifies a predicate that has a rule as intensional only, wherever its facts stand in the source: stratification drops the edges into extensional predicates, so a misclassified predicate hides a negative cycle (obligation shared with C05)", 1)
	c.Under("ORDABS.classification-before-stratification", []string{rC05Class}, func() { c05Classification(c) })
}

func predSym(name string, arity int64) *ordabs.Rec {
	return &ordabs.Rec{Fields: map[string]ordabs.Value{"Symbol": name, "Arity": arity}, T: "ast.PredicateSym"}
}

func c03AddEdge(c *core.Ctx) {
	f := c.MustFunc(rC03Edge, "analysis", "depGraph.addEdge")
	if f == nil {
		return
	}
	in := ordabs.New(c.Prog)
	src, dst := predSym("s", 1), predSym("d", 1)
	bad, n := "", 0
	for prior := 0; prior < 3; prior++ { // 0 absent, 1 positive, 2 negative
		for _, neg := range []bool{false, true} {
			edges := ordabs.NewMap()
			if prior > 0 {
				ks := ordabs.KeyString(dst)
				edges.M[ks], edges.Keys[ks] = prior == 2, dst
			}
			dep := ordabs.NewMap()
			dep.M[ordabs.KeyString(src)], dep.Keys[ordabs.KeyString(src)] = edges, src
			in.Reset()
			_, err := in.Call(f, dep, []ordabs.Value{src, dst, neg})
			if !runORD(c, rC03Edge, f.Name, f, err) {
				return
			}
			n++
			got, present := edges.M[ordabs.KeyString(dst)]
			want := neg || prior == 2
			if (!present || got != ordabs.Value(want)) && bad == "" {
				bad = fmt.Sprintf("prior edge %s, new mention negated=%v: edge present=%v label=%v, want label %v (a negated or aggregated mention must win whatever the order of the rules)", []string{"absent", "positive", "negative"}[prior], neg, present, got, want)
			}
		}
	}
	c.Check(bad == "", rC03Edge, f.Name, f.Decl.Pos(), fmt.Sprintf("label = old OR new on all %d states", n), bad)
}

type premiseCase struct {
	name string
	mk   func(k *astKit) ordabs.Value
	pred string // predicate mentioned ("" none)
	neg  bool
}

// astKit builds abstract AST values.
type astKit struct {
	c  *core.Ctx
	ok bool
}

func (k *astKit) zero(rel, name string) *ordabs.Rec {
	n := k.c.Prog.Named(rel, name)
	if n == nil {
		k.ok = false
		return &ordabs.Rec{Fields: map[string]ordabs.Value{}}
	}
	z, err := ordabs.ZeroOf(n)
	if err != nil {
		k.ok = false
		return &ordabs.Rec{Fields: map[string]ordabs.Value{}}
	}
	return z.(*ordabs.Rec)
}

func (k *astKit) atom(pred string, arity int64) *ordabs.Rec {
	a := k.zero("ast", "Atom")
	a.Fields["Predicate"] = predSym(pred, arity)
	return a
}

func (k *astKit) neg(pred string) *ordabs.Rec {
	n := k.zero("ast", "NegAtom")
	n.Fields["Atom"] = k.atom(pred, 1)
	return n
}

func (k *astKit) tl(lit ordabs.Value, withOp, withIv bool) *ordabs.Rec {
	t := k.zero("ast", "TemporalLiteral")
	t.Fields["Literal"] = lit
	if withOp {
		t.Fields["Operator"] = &ordabs.Obj{Name: "op", Fields: k.zero("ast", "TemporalOperator").Fields}
	}
	if withIv {
		t.Fields["Interval"] = &ordabs.Obj{Name: "iv", Fields: k.zero("ast", "Interval").Fields}
	}
	return t
}

func c03DepGraph(c *core.Ctx) { c03DepGraphRule(c, rC03Graph) }

func c03DepGraphRule(c *core.Ctx, rC03Graph string) {
	f := c.MustFunc(rC03Graph, "analysis", "makeDepGraph")
	if f == nil {
		return
	}
	k := &astKit{c: c, ok: true}
	in := ordabs.New(c.Prog)
	in.InstallErrorStubs()
	builtins := ordabs.NewMap()
	lt := predSym(":lt", 2)
	builtins.M[ordabs.KeyString(lt)], builtins.Keys[ordabs.KeyString(lt)] = &ordabs.Slice{}, lt
	in.Globals = map[string]ordabs.Value{"builtin.Predicates": builtins}
	cases := []premiseCase{
		{"atom of an intensional predicate", func(k *astKit) ordabs.Value { return k.atom("q", 1) }, "q", false},
		{"negated atom", func(k *astKit) ordabs.Value { return k.neg("q") }, "q", true},
		{"temporal literal with interval", func(k *astKit) ordabs.Value { return k.tl(k.atom("q", 1), false, true) }, "q", false},
		{"temporal literal with operator only", func(k *astKit) ordabs.Value { return k.tl(k.atom("q", 1), true, false) }, "q", false},
		{"temporal literal with operator and interval", func(k *astKit) ordabs.Value { return k.tl(k.atom("q", 1), true, true) }, "q", false},
		{"temporal literal around a negated atom", func(k *astKit) ordabs.Value { return k.tl(k.neg("q"), true, false) }, "q", true},
		{"temporal atom", func(k *astKit) ordabs.Value {
			t := k.zero("ast", "TemporalAtom")
			t.Fields["Atom"] = k.atom("q", 1)
			return t
		}, "q", false},
		{"atom of an extensional predicate", func(k *astKit) ordabs.Value { return k.atom("e", 1) }, "", false},
		{"built-in atom", func(k *astKit) ordabs.Value { return k.atom(":lt", 2) }, "", false},
		{"equality", func(k *astKit) ordabs.Value { return k.zero("ast", "Eq") }, "", false},
	}
	if !k.ok {
		c.Unres(rC03Graph, f.Name, f.Decl.Pos(), "anchor-unresolved: ast node types")
		return
	}
	letSym, doSym := "let", "do"
	bad, n := "", 0
	for _, pc := range cases {
		for _, tr := range []string{"none", letSym, doSym} {
			clause := k.zero("ast", "Clause")
			clause.Fields["Head"] = k.atom("p", 1)
			prem := []ordabs.Value{pc.mk(k)}
			clause.Fields["Premises"] = &ordabs.Slice{Elems: &prem}
			if tr != "none" {
				t := k.zero("ast", "Transform")
				stmt := k.zero("ast", "TransformStmt")
				if tr == letSym {
					stmt.Fields["Var"] = &ordabs.Obj{Name: "v", Fields: map[string]ordabs.Value{"Symbol": "X"}}
				}
				st := []ordabs.Value{stmt}
				t.Fields["Statements"] = &ordabs.Slice{Elems: &st}
				clause.Fields["Transform"] = &ordabs.Obj{Name: "transform", Fields: t.Fields}
			}
			prog := k.zero("analysis", "Program")
			edb := ordabs.NewMap()
			e := predSym("e", 1)
			edb.M[ordabs.KeyString(e)], edb.Keys[ordabs.KeyString(e)] = &ordabs.Rec{Fields: map[string]ordabs.Value{}}, e
			prog.Fields["EdbPredicates"] = edb
			prog.Fields["IdbPredicates"] = ordabs.NewMap()
			rules := []ordabs.Value{clause}
			prog.Fields["Rules"] = &ordabs.Slice{Elems: &rules}
			in.Reset()
			out, err := in.Call(f, nil, []ordabs.Value{prog})
			if !runORD(c, rC03Graph, f.Name, f, err) {
				return
			}
			n++
			dep, _ := out[0].(*ordabs.Map)
			var edges *ordabs.Map
			if dep != nil {
				edges, _ = dep.M[ordabs.KeyString(predSym("p", 1))].(*ordabs.Map)
			}
			desc := fmt.Sprintf("p(X) :- <%s> with transform %s", pc.name, tr)
			if edges == nil {
				if bad == "" {
					bad = desc + ": the head predicate has no node in the graph"
				}
				continue
			}
			if pc.pred == "" {
				if len(edges.M) != 0 && bad == "" {
					bad = fmt.Sprintf("%s: %d edge(s) added, want none", desc, len(edges.M))
				}
				continue
			}
			lab, present := edges.M[ordabs.KeyString(predSym(pc.pred, 1))]
			wantNeg := pc.neg || tr == doSym
			if (!present || lab != ordabs.Value(wantNeg)) && bad == "" {
				bad = fmt.Sprintf("%s: edge p -> %s present=%v negative=%v, want present with negative=%v (a mention inside a temporal literal counts like any other; an aggregated mention counts as negative)", desc, pc.pred, present, lab, wantNeg)
			}
		}
	}
	c.Check(bad == "", rC03Graph, f.Name, f.Decl.Pos(), fmt.Sprintf("right edges on %d premise/transform combinations", n), bad)
}

func c03Stratify(c *core.Ctx) { c03StratifyRule(c, rC03Strat) }

func c03StratifyRule(c *core.Ctx, rC03Strat string) {
	f := c.MustFunc(rC03Strat, "analysis", "Stratify")
	if f == nil {
		return
	}
	for _, nm := range []string{"depGraph.sccs", "depGraph.sortResult", "depGraph.transpose", "depGraph.initNode"} {
		c.MustFunc(rC03Strat, "analysis", nm)
	}
	in := ordabs.New(c.Prog)
	in.InstallErrorStubs()
	var graph *ordabs.Map
	in.Stubs["analysis.makeDepGraph"] = func(in *ordabs.Interp, _ ordabs.Value, _ []ordabs.Value) ([]ordabs.Value, error) {
		return []ordabs.Value{graph}, nil
	}
	names := []string{"a", "b", "c"}
	mkGraph := func(n int, lab []int) (*ordabs.Map, [][]int) {
		g := ordabs.NewMap()
		adj := make([][]int, n*n)
		for i := 0; i < n; i++ {
			edges := ordabs.NewMap()
			for j := 0; j < n; j++ {
				l := lab[i*n+j]
				if l == 0 {
					continue
				}
				d := predSym(names[j], 1)
				edges.M[ordabs.KeyString(d)], edges.Keys[ordabs.KeyString(d)] = l == 2, d
			}
			s := predSym(names[i], 1)
			g.M[ordabs.KeyString(s)], g.Keys[ordabs.KeyString(s)] = edges, s
		}
		return g, adj
	}
	bad, runs := "", 0
	check := func(n int, lab []int, reverse bool) bool {
		graph, _ = mkGraph(n, lab)
		in.Reset()
		in.Fuel = 2000000
		in.ReverseMaps = reverse
		out, err := in.Call(f, nil, []ordabs.Value{&ordabs.Rec{Fields: map[string]ordabs.Value{}, T: "analysis.Program"}})
		if !runORD(c, rC03Strat, f.Name, f, err) {
			return false
		}
		runs++
		// reference: reachability closure
		reach := make([][]bool, n)
		for i := range reach {
			reach[i] = make([]bool, n)
			reach[i][i] = true
		}
		for i := 0; i < n; i++ {
			for j := 0; j < n; j++ {
				if lab[i*n+j] != 0 {
					reach[i][j] = true
				}
			}
		}
		for k := 0; k < n; k++ {
			for i := 0; i < n; i++ {
				for j := 0; j < n; j++ {
					if reach[i][k] && reach[k][j] {
						reach[i][j] = true
					}
				}
			}
		}
		same := func(i, j int) bool { return reach[i][j] && reach[j][i] }
		negCycle := false
		for i := 0; i < n; i++ {
			for j := 0; j < n; j++ {
				if lab[i*n+j] == 2 && same(i, j) {
					negCycle = true
				}
			}
		}
		desc := func() string {
			var es []string
			for i := 0; i < n; i++ {
				for j := 0; j < n; j++ {
					if l := lab[i*n+j]; l != 0 {
						es = append(es, fmt.Sprintf("%s-%s>%s", names[i], []string{"", "+", "!"}[l], names[j]))
					}
				}
			}
			sort.Strings(es)
			return fmt.Sprintf("graph {%s} (map order %s)", strings.Join(es, " "), map[bool]string{false: "ascending", true: "descending"}[reverse])
		}
		_, isErr := out[2].(ordabs.ErrVal)
		if isErr != negCycle {
			if bad == "" {
				bad = fmt.Sprintf("%s: Stratify error=%v but a negative edge inside a cycle exists=%v", desc(), isErr, negCycle)
			}
			return true
		}
		if isErr {
			return true
		}
		strata, _ := out[0].(*ordabs.Slice)
		p2s, _ := out[1].(*ordabs.Map)
		layer := map[int]int{}
		if strata != nil {
			for li, s := range *strata.Elems {
				ns, _ := s.(*ordabs.Map)
				if ns == nil {
					continue
				}
				for i := 0; i < n; i++ {
					if _, in := ns.M[ordabs.KeyString(predSym(names[i], 1))]; in {
						if _, dup := layer[i]; dup && bad == "" {
							bad = desc() + ": predicate " + names[i] + " is in two layers"
						}
						layer[i] = li
					}
				}
			}
		}
		for i := 0; i < n; i++ {
			li, ok := layer[i]
			if !ok {
				if bad == "" {
					bad = desc() + ": predicate " + names[i] + " is in no layer"
				}
				continue
			}
			if p2s != nil {
				if got, _ := p2s.M[ordabs.KeyString(predSym(names[i], 1))].(int64); int(got) != li && bad == "" {
					bad = fmt.Sprintf("%s: predicate %s is in layer %d of the list but the map says %d", desc(), names[i], li, got)
				}
			}
			for j := 0; j < n; j++ {
				lj, ok2 := layer[j]
				if !ok2 {
					continue
				}
				if same(i, j) && li != lj && bad == "" {
					bad = fmt.Sprintf("%s: mutually recursive %s and %s are in different layers", desc(), names[i], names[j])
				}
				switch lab[i*n+j] {
				case 1:
					if lj > li && bad == "" {
						bad = fmt.Sprintf("%s: %s depends on %s which lies in a later layer (%d > %d)", desc(), names[i], names[j], lj, li)
					}
				case 2:
					if lj >= li && bad == "" {
						bad = fmt.Sprintf("%s: %s depends negatively on %s which is not in a strictly earlier layer (%d >= %d)", desc(), names[i], names[j], lj, li)
					}
				}
			}
		}
		return true
	}
	for n := 1; n <= 3; n++ {
		total := 1
		for i := 0; i < n*n; i++ {
			total *= 3
		}
		lab := make([]int, n*n)
		for g := 0; g < total; g++ {
			x := g
			for i := range lab {
				lab[i] = x % 3
				x /= 3
			}
			// n=3: skip graphs with self loops (covered for n<=2) to keep the space at 729
			if n == 3 && c.Tier != "thorough" && (lab[0] != 0 || lab[4] != 0 || lab[8] != 0) {
				continue
			}
			for _, rev := range []bool{false, true} {
				if !check(n, lab, rev) {
					return
				}
			}
		}
	}
	in.ReverseMaps = false
	c.Cover("stratify_graphs_evaluated", runs)
	c.Check(bad == "", rC03Strat, f.Name, f.Decl.Pos(), fmt.Sprintf("correct on all %d graph/order combinations (all labelled graphs on 1-2 predicates, all loop-free-diagonal graphs on 3)", runs), bad)
}

func c03StrataOrder(c *core.Ctx) { strataOrderRule(c, rC03Order) }
