package props

import (
	"fmt"
	"strings"

	"mgcheck/core"
	"mgcheck/ordabs"
)

const (
	rC10Descr = "ORDABS.descriptors-match-arity"
	rC10Fn    = "ORDABS.function-expressions-checked-at-every-position"
)

// c10Descriptors: descriptors whose length later code indexes by the predicate's arguments (mode, reflects) are
// rejected by CheckDecl when they do not fit the arity.
func c10Descriptors(c *core.Ctx) {
	c.Rule(rC10Descr, "declChecker.check (CheckDecl) is read from source and evaluated for every combination of declared arity 0..3 with a mode descriptor of 0..4 entries, and of arity 0..2 with a reflects descriptor: it records an error exactly when the mode does not have one entry per argument, resp. when a reflecting predicate does not take exactly one argument (rule checking and clause rewriting index the atom's arguments by these descriptors)", 2)
	f := c.MustFunc(rC10Descr, "analysis", "declChecker.check")
	if f == nil {
		return
	}
	k := &astKit{c: c, ok: true}
	tk := newTypeKit(c, rC10Descr)
	if !tk.ok {
		return
	}
	in := ordabs.New(c.Prog)
	for _, m := range []string{"IsExternal", "IsSynthetic"} {
		in.Stubs["ast.Decl."+m] = func(in *ordabs.Interp, _ ordabs.Value, _ []ordabs.Value) ([]ordabs.Value, error) {
			return []ordabs.Value{false}, nil
		}
	}
	in.Stubs["ast.Decl.Modes"] = func(in *ordabs.Interp, _ ordabs.Value, _ []ordabs.Value) ([]ordabs.Value, error) {
		return []ordabs.Value{(*ordabs.Slice)(nil)}, nil
	}
	for _, n := range []string{"ast.Atom.String", "ast.Decl.String"} {
		in.Stubs[n] = func(in *ordabs.Interp, _ ordabs.Value, _ []ordabs.Value) ([]ordabs.Value, error) {
			return []ordabs.Value{"<text>"}, nil
		}
	}
	mkDecl := func(arity int, descr string, descrArgs int) *ordabs.Rec {
		atom := k.atom("p", int64(arity))
		var vars []ordabs.Value
		for i := 0; i < arity; i++ {
			vars = append(vars, &ordabs.Rec{T: "ast.Variable", Fields: map[string]ordabs.Value{"Symbol": fmt.Sprintf("X%d", i)}})
		}
		if vars != nil {
			atom.Fields["Args"] = &ordabs.Slice{Elems: &vars}
		}
		da := k.atom(descr, int64(descrArgs))
		var das []ordabs.Value
		for i := 0; i < descrArgs; i++ {
			if descr == "reflects" {
				das = append(das, tk.name("/x"))
			} else {
				das = append(das, tk.str("+"))
			}
		}
		if das != nil {
			da.Fields["Args"] = &ordabs.Slice{Elems: &das}
		}
		// an arg(...) descriptor per argument, so that the declaration is otherwise complete
		ds := []ordabs.Value{da}
		decl := k.zero("ast", "Decl")
		decl.Fields["DeclaredAtom"] = atom
		decl.Fields["Descr"] = &ordabs.Slice{Elems: &ds}
		return decl
	}
	run := func(decl *ordabs.Rec) (bool, bool) {
		checker := &ordabs.Obj{Name: "checker", T: "analysis.declChecker", Fields: map[string]ordabs.Value{"decl": decl, "errs": (*ordabs.Slice)(nil)}}
		in.Reset()
		out, err := in.Call(f, checker, nil)
		if !runORD(c, rC10Descr, f.Name, f, err) {
			return false, false
		}
		errs, _ := out[0].(*ordabs.Slice)
		return errs != nil && len(*errs.Elems) > 0, true
	}
	if !k.ok {
		c.Unres(rC10Descr, f.Name, f.Decl.Pos(), "anchor-unresolved: ast.Decl")
		return
	}
	bad, n := "", 0
	for arity := 0; arity <= 3; arity++ {
		for ml := 0; ml <= 4; ml++ {
			rejected, ok := run(mkDecl(arity, "mode", ml))
			if !ok {
				return
			}
			n++
			if rejected != (arity != ml) && bad == "" {
				bad = fmt.Sprintf("a declaration of arity %d with a mode of %d entries is %s", arity, ml, map[bool]string{true: "rejected", false: "accepted: the rule check indexes the atom's arguments by the mode's positions"}[rejected])
			}
		}
	}
	c.Check(bad == "", rC10Descr, f.Name+":mode", f.Decl.Pos(), fmt.Sprintf("%d combinations: an error exactly when mode length and arity differ", n), bad)
	bad, n = "", 0
	for arity := 0; arity <= 2; arity++ {
		rejected, ok := run(mkDecl(arity, "reflects", 1))
		if !ok {
			return
		}
		n++
		if rejected != (arity != 1) && bad == "" {
			bad = fmt.Sprintf("a reflecting predicate of arity %d is %s", arity, map[bool]string{true: "rejected", false: "accepted: clause rewriting reads its first argument"}[rejected])
		}
	}
	c.Check(bad == "", rC10Descr, f.Name+":reflects", f.Decl.Pos(), fmt.Sprintf("%d arities: a reflecting predicate takes exactly one argument", n), bad)
}

// c10FunctionPositions: the arity check of function expressions visits every place of a clause where the bounds
// analysis and the evaluator will later take such an expression apart.
func c10FunctionPositions(c *core.Ctx) {
	c.Rule(rC10Fn, "Analyzer.checkFunctions is read from source and evaluated on clauses that carry a map expression with an odd number of arguments at one position each - rule head, atom, negated atom, either side of an equality and of an inequality, the atom and the negated atom inside a temporal literal, a temporal atom, a transform statement: it returns an error for every position (the bounds analysis reads keys and values in pairs and indexes out of range otherwise)", 1)
	f := c.MustFunc(rC10Fn, "analysis", "Analyzer.checkFunctions")
	if f == nil {
		return
	}
	q := &clauseKit{k: &astKit{c: c, ok: true}, ck: newConstKit(c, rC10Fn)}
	if !q.ck.ok {
		return
	}
	in := ordabs.New(c.Prog)
	var isBad func(v ordabs.Value) bool
	isBad = func(v ordabs.Value) bool {
		r, _ := v.(*ordabs.Rec)
		if r == nil || r.T != "ast.ApplyFn" {
			return false
		}
		sym := fmt.Sprint(r.Fields["Function"].(*ordabs.Rec).Fields["Symbol"])
		sl, _ := r.Fields["Args"].(*ordabs.Slice)
		nargs := 0
		if sl != nil {
			nargs = len(*sl.Elems)
			for _, a := range *sl.Elems {
				if isBad(a) {
					return true
				}
			}
		}
		return sym == "fn:map" && nargs%2 != 0
	}
	// the arity logic itself is not at stake here, only which expressions are handed to it
	in.Stubs["analysis.Analyzer.checkExprArity"] = func(in *ordabs.Interp, _ ordabs.Value, a []ordabs.Value) ([]ordabs.Value, error) {
		if isBad(a[0]) {
			return []ordabs.Value{ordabs.ErrVal{Tag: "odd number of map arguments"}}, nil
		}
		return []ordabs.Value{nil}, nil
	}
	for _, n := range []string{"ast.ApplyFn.String", "ast.Atom.String"} {
		in.Stubs[n] = func(in *ordabs.Interp, _ ordabs.Value, _ []ordabs.Value) ([]ordabs.Value, error) {
			return []ordabs.Value{"<text>"}, nil
		}
	}
	X := hv("X")
	badT := hf("fn:map", X)
	goodAtom := hPrem{kind: "atom", pred: "b", args: []hTerm{X}}
	mk := func(head []hTerm, prems ...hPrem) *ordabs.Rec {
		return q.clause(hClause{headPred: "h", head: head, prems: prems})
	}
	analyzer := &ordabs.Obj{Name: "analyzer", Fields: q.k.zero("analysis", "Analyzer").Fields, T: "analysis.Analyzer"}
	type pos struct {
		name string
		cl   func() *ordabs.Rec
	}
	withPrem := func(p ordabs.Value) *ordabs.Rec {
		cl := mk([]hTerm{X}, goodAtom)
		ps := append(append([]ordabs.Value{}, *cl.Fields["Premises"].(*ordabs.Slice).Elems...), p)
		cl.Fields["Premises"] = &ordabs.Slice{Elems: &ps}
		return cl
	}
	negOf := func(a *ordabs.Rec) *ordabs.Rec {
		n := q.k.zero("ast", "NegAtom")
		n.Fields["Atom"] = a
		return n
	}
	positions := []pos{
		{"rule head", func() *ordabs.Rec { return mk([]hTerm{badT}, goodAtom) }},
		{"atom", func() *ordabs.Rec { return mk([]hTerm{X}, goodAtom, hPrem{kind: "atom", pred: "a", args: []hTerm{badT}}) }},
		{"negated atom", func() *ordabs.Rec { return mk([]hTerm{X}, goodAtom, hPrem{kind: "neg", pred: "a", args: []hTerm{badT}}) }},
		{"left of an equality", func() *ordabs.Rec { return mk([]hTerm{X}, goodAtom, hPrem{kind: "eq", l: badT, r: X}) }},
		{"right of an equality", func() *ordabs.Rec { return mk([]hTerm{X}, goodAtom, hPrem{kind: "eq", l: X, r: badT}) }},
		{"left of an inequality", func() *ordabs.Rec { return mk([]hTerm{X}, goodAtom, hPrem{kind: "ineq", l: badT, r: X}) }},
		{"right of an inequality", func() *ordabs.Rec { return mk([]hTerm{X}, goodAtom, hPrem{kind: "ineq", l: X, r: badT}) }},
		{"atom inside a temporal literal", func() *ordabs.Rec { return withPrem(q.k.tl(q.atom("a", []hTerm{badT}), true, true)) }},
		{"negated atom inside a temporal literal", func() *ordabs.Rec { return withPrem(q.k.tl(negOf(q.atom("a", []hTerm{badT})), true, false)) }},
		{"temporal atom", func() *ordabs.Rec {
			ta := q.k.zero("ast", "TemporalAtom")
			ta.Fields["Atom"] = q.atom("a", []hTerm{badT})
			return withPrem(ta)
		}},
	}
	if !q.k.ok {
		c.Unres(rC10Fn, f.Name, f.Decl.Pos(), "anchor-unresolved: ast node types")
		return
	}
	var missed []string
	for _, p := range positions {
		in.Reset()
		out, err := in.Call(f, analyzer, []ordabs.Value{p.cl()})
		if !runORD(c, rC10Fn, f.Name, f, err) {
			return
		}
		if _, isErr := out[0].(ordabs.ErrVal); !isErr {
			missed = append(missed, p.name)
		}
	}
	// and a well-formed clause passes
	in.Reset()
	out, err := in.Call(f, analyzer, []ordabs.Value{mk([]hTerm{X}, goodAtom)})
	if !runORD(c, rC10Fn, f.Name, f, err) {
		return
	}
	if _, isErr := out[0].(ordabs.ErrVal); isErr {
		missed = append(missed, "(a clause without function expressions is rejected)")
	}
	c.Check(len(missed) == 0, rC10Fn, f.Name, f.Decl.Pos(), fmt.Sprintf("a malformed map expression is reported at each of %d positions", len(positions)), "a map expression with an odd number of arguments goes unreported at: "+strings.Join(missed, ", ")+" - the bounds analysis then reads past its arguments")
}
