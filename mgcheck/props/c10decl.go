package props

import (
	"fmt"
	"strings"

	"mgcheck/core"
	"mgcheck/ordabs"
)

const (
	rC10Descr = "ORDABS.descriptors-match-arity"
	rC10Fn    = "ORDABS.function-expressions-checked-at-every-position"
)

// c10Descriptors: descriptors whose length later code indexes by the predicate's arguments (mode, reflects) are
// rejected by CheckDecl when they do not fit the arity.
func c10Descriptors(c *core.Ctx) {
	c.Rule(rC10Descr, "declChecker.check (CheckDecl) is read from source and evaluated for every combination of declared arity 0..3 with a mode descriptor of 0..4 entries, and of arity 0..2 with a reflects descriptor: it records an error exactly when the mode does not have one entry per argument, resp. when a reflecting predicate does not take exactly one argument (rule checking and clause rewriting index the atom's arguments by these descriptors)", 2)
	f := c.MustFunc(rC10Descr, "analysis", "declChecker.check")
	if f == nil {
		return
	}
	k := &astKit{c: c, ok: true}
	tk := newTypeKit(c, rC10Descr)
	if !tk.ok {
		return
	}
	in := ordabs.New(c.Prog)
	for _, m := range []string{"IsExternal", "IsSynthetic"} {
		in.Stubs["ast.Decl."+m] = func(in *ordabs.Interp, _ ordabs.Value, _ []ordabs.Value) ([]ordabs.Value, error) {
			return []ordabs.Value{false}, nil
		}
	}
	in.Stubs["ast.Decl.Modes"] = func(in *ordabs.Interp, _ ordabs.Value, _ []ordabs.Value) ([]ordabs.Value, error) {
		return []ordabs.Value{(*ordabs.Slice)(nil)}, nil
	}
	for _, n := range []string{"ast.Atom.String", "ast.Decl.String"} {
		in.Stubs[n] = func(in *ordabs.Interp, _ ordabs.Value, _ []ordabs.Value) ([]ordabs.Value, error) {
			return []ordabs.Value{"<text>"}, nil
		}
	}
	mkDecl := func(arity int, descr string, descrArgs int) *ordabs.Rec {
		atom := k.atom("p", int64(arity))
		var vars []ordabs.Value
		for i := 0; i < arity; i++ {
			vars = append(vars, &ordabs.Rec{T: "ast.Variable", Fields: map[string]ordabs.Value{"Symbol": fmt.Sprintf("X%d", i)}})
		}
		if vars != nil {
			atom.Fields["Args"] = &ordabs.Slice{Elems: &vars}
		}
		da := k.atom(descr, int64(descrArgs))
		var das []ordabs.Value
		for i := 0; i < descrArgs; i++ {
			if descr == "reflects" {
				das = append(das, tk.name("/x"))
			} else {
				das = append(das, tk.str("+"))
			}
		}
		if das != nil {
			da.Fields["Args"] = &ordabs.Slice{Elems: &das}
		}
		// an arg(...) descriptor per argument, so that the declaration is otherwise complete
		ds := []ordabs.Value{da}
		decl := k.zero("ast", "Decl")
		decl.Fields["DeclaredAtom"] = atom
		decl.Fields["Descr"] = &ordabs.Slice{Elems: &ds}
		return decl
	}
	run := func(decl *ordabs.Rec) (bool, bool) {
		checker := &ordabs.Obj{Name: "checker", T: "analysis.declChecker", Fields: map[string]ordabs.Value{"decl": decl, "errs": (*ordabs.Slice)(nil)}}
		in.Reset()
		out, err := in.Call(f, checker, nil)
		if !runORD(c, rC10Descr, f.Name, f, err) {
			return false, false
		}
		errs, _ := out[0].(*ordabs.Slice)
		return errs != nil && len(*errs.Elems) > 0, true
	}
	if !k.ok {
		c.Unres(rC10Descr, f.Name, f.Decl.Pos(), "anchor-unresolved: ast.Decl")
		return
	}
	bad, n := "", 0
	for arity := 0; arity <= 3; arity++ {
		for ml := 0; ml <= 4; ml++ {
			rejected, ok := run(mkDecl(arity, "mode", ml))
			if !ok {
				return
			}
			n++
			if rejected != (arity != ml) && bad == "" {
				bad = fmt.Sprintf("a declaration of arity %d with a mode of %d entries is %s", arity, ml, map[bool]string{true: "rejected", false: "accepted: the rule check indexes the atom's arguments by the mode's positions"}[rejected])
			}
		}
	}
	c.Check(bad == "", rC10Descr, f.Name+":mode", f.Decl.Pos(), fmt.Sprintf("%d combinations: an error exactly when mode length and arity differ", n), bad)
	bad, n = "", 0
	for arity := 0; arity <= 2; arity++ {
		rejected, ok := run(mkDecl(arity, "reflects", 1))
		if !ok {
			return
		}
		n++
		if rejected != (arity != 1) && bad == "" {
			bad = fmt.Sprintf("a reflecting predicate of arity %d is %s", arity, map[bool]string{true: "rejected", false: "accepted: clause rewriting reads its first argument"}[rejected])
		}
	}
	c.Check(bad == "", rC10Descr, f.Name+":reflects", f.Decl.Pos(), fmt.Sprintf("%d arities: a reflecting predicate takes exactly one argument", n), bad)
}

const rC10Modes = "ORDABS.modes-have-one-entry-per-argument"

// c10Modes: whatever strings a mode descriptor holds, the modes handed to the rule check and to clause rewriting
// all have one entry per argument, and unifying them does not index past the end of one of them.
func c10Modes(c *core.Ctx) {
	c.Rule(rC10Modes, "Decl.Modes and analysis.unifyModes are read from source and evaluated on declarations of arity 1 and 2 with one to three mode descriptors of the right length over the entries \"+\", \"-\", \"?\", an unknown string and a number: every mode returned has exactly one entry per argument (a descriptor with an unknown entry is dropped as a whole, not shortened), and unifyModes returns a mode of that length without indexing out of range", 1)
	modes := c.MustFunc(rC10Modes, "ast", "Decl.Modes")
	unify := c.MustFunc(rC10Modes, "analysis", "unifyModes")
	if modes == nil || unify == nil {
		return
	}
	k := &astKit{c: c, ok: true}
	tk := newTypeKit(c, rC10Modes)
	if !tk.ok {
		return
	}
	in := ordabs.New(c.Prog)
	entries := []string{"+", "-", "?", "out", "#7"}
	mkEntry := func(e string) ordabs.Value {
		if e == "#7" {
			return tk.num(7)
		}
		return tk.str(e)
	}
	bad, n := "", 0
	for arity := 1; arity <= 2 && bad == ""; arity++ {
		// all descriptors of this arity
		var descrs [][]string
		var rec func(cur []string)
		rec = func(cur []string) {
			if len(cur) == arity {
				descrs = append(descrs, append([]string(nil), cur...))
				return
			}
			for _, e := range entries {
				rec(append(cur, e))
			}
		}
		rec(nil)
		var lists [][][]string
		for _, a := range descrs {
			lists = append(lists, [][]string{a})
			for _, b := range descrs {
				lists = append(lists, [][]string{a, b})
			}
		}
		if arity == 1 {
			for _, a := range descrs {
				for _, b := range descrs {
					for _, d := range descrs {
						lists = append(lists, [][]string{a, b, d})
					}
				}
			}
		}
		for _, l := range lists {
			atom := k.atom("p", int64(arity))
			var ds []ordabs.Value
			var text []string
			for _, m := range l {
				da := k.atom("mode", int64(arity))
				var das []ordabs.Value
				for _, e := range m {
					das = append(das, mkEntry(e))
				}
				da.Fields["Args"] = &ordabs.Slice{Elems: &das}
				ds = append(ds, da)
				text = append(text, "mode("+strings.Join(m, ",")+")")
			}
			decl := k.zero("ast", "Decl")
			decl.Fields["DeclaredAtom"] = atom
			decl.Fields["Descr"] = &ordabs.Slice{Elems: &ds}
			if !k.ok {
				c.Unres(rC10Modes, modes.Name, modes.Decl.Pos(), "anchor-unresolved: ast.Decl")
				return
			}
			in.Reset()
			in.Fuel = 200000
			out, err := in.Call(modes, decl, nil)
			if !runORD(c, rC10Modes, modes.Name, modes, err) {
				return
			}
			n++
			ms, _ := out[0].(*ordabs.Slice)
			if ms != nil && ms.Elems != nil {
				for _, m := range *ms.Elems {
					if sl, _ := m.(*ordabs.Slice); sl == nil || sl.Elems == nil || len(*sl.Elems) != arity {
						ln := 0
						if sl != nil && sl.Elems != nil {
							ln = len(*sl.Elems)
						}
						bad = fmt.Sprintf("a declaration of arity %d with %s yields a mode of %d entries: the rule check and clause rewriting index the atom's arguments and the other modes by its positions", arity, strings.Join(text, " "), ln)
					}
				}
			}
			if bad != "" {
				break
			}
			in.Reset()
			in.Fuel = 200000
			out, err = in.Call(unify, nil, []ordabs.Value{out[0]})
			if !runORD(c, rC10Modes, unify.Name, unify, err) {
				return
			}
			if um, _ := out[0].(*ordabs.Slice); ms != nil && ms.Elems != nil && len(*ms.Elems) > 0 && (um == nil || um.Elems == nil || len(*um.Elems) != arity) {
				bad = fmt.Sprintf("a declaration of arity %d with %s: unifyModes does not return one entry per argument", arity, strings.Join(text, " "))
			}
		}
	}
	c.Check(bad == "", rC10Modes, modes.Name, modes.Decl.Pos(), fmt.Sprintf("%d declarations: every mode has one entry per argument and unifies without indexing out of range", n), bad)
}

// c10FunctionPositions: the arity check of function expressions visits every place of a clause where the bounds
// analysis and the evaluator will later take such an expression apart.
func c10FunctionPositions(c *core.Ctx) {
	c.Rule(rC10Fn, "Analyzer.checkFunctions is read from source and evaluated on clauses that carry a map expression with an odd number of arguments at one position each - rule head, atom, negated atom, either side of an equality and of an inequality, the atom and the negated atom inside a temporal literal, a temporal atom, a transform statement: it returns an error for every position (the bounds analysis reads keys and values in pairs and indexes out of range otherwise)", 1)
	f := c.MustFunc(rC10Fn, "analysis", "Analyzer.checkFunctions")
	if f == nil {
		return
	}
	q := &clauseKit{k: &astKit{c: c, ok: true}, ck: newConstKit(c, rC10Fn)}
	if !q.ck.ok {
		return
	}
	in := ordabs.New(c.Prog)
	var isBad func(v ordabs.Value) bool
	isBad = func(v ordabs.Value) bool {
		r, _ := v.(*ordabs.Rec)
		if r == nil || r.T != "ast.ApplyFn" {
			return false
		}
		sym := fmt.Sprint(r.Fields["Function"].(*ordabs.Rec).Fields["Symbol"])
		sl, _ := r.Fields["Args"].(*ordabs.Slice)
		nargs := 0
		if sl != nil {
			nargs = len(*sl.Elems)
			for _, a := range *sl.Elems {
				if isBad(a) {
					return true
				}
			}
		}
		return sym == "fn:map" && nargs%2 != 0
	}
	// the arity logic itself is not at stake here, only which expressions are handed to it
	in.Stubs["analysis.Analyzer.checkExprArity"] = func(in *ordabs.Interp, _ ordabs.Value, a []ordabs.Value) ([]ordabs.Value, error) {
		if isBad(a[0]) {
			return []ordabs.Value{ordabs.ErrVal{Tag: "odd number of map arguments"}}, nil
		}
		return []ordabs.Value{nil}, nil
	}
	for _, n := range []string{"ast.ApplyFn.String", "ast.Atom.String"} {
		in.Stubs[n] = func(in *ordabs.Interp, _ ordabs.Value, _ []ordabs.Value) ([]ordabs.Value, error) {
			return []ordabs.Value{"<text>"}, nil
		}
	}
	X := hv("X")
	badT := hf("fn:map", X)
	goodAtom := hPrem{kind: "atom", pred: "b", args: []hTerm{X}}
	mk := func(head []hTerm, prems ...hPrem) *ordabs.Rec {
		return q.clause(hClause{headPred: "h", head: head, prems: prems})
	}
	analyzer := &ordabs.Obj{Name: "analyzer", Fields: q.k.zero("analysis", "Analyzer").Fields, T: "analysis.Analyzer"}
	type pos struct {
		name string
		cl   func() *ordabs.Rec
	}
	withPrem := func(p ordabs.Value) *ordabs.Rec {
		cl := mk([]hTerm{X}, goodAtom)
		ps := append(append([]ordabs.Value{}, *cl.Fields["Premises"].(*ordabs.Slice).Elems...), p)
		cl.Fields["Premises"] = &ordabs.Slice{Elems: &ps}
		return cl
	}
	negOf := func(a *ordabs.Rec) *ordabs.Rec {
		n := q.k.zero("ast", "NegAtom")
		n.Fields["Atom"] = a
		return n
	}
	positions := []pos{
		{"rule head", func() *ordabs.Rec { return mk([]hTerm{badT}, goodAtom) }},
		{"atom", func() *ordabs.Rec { return mk([]hTerm{X}, goodAtom, hPrem{kind: "atom", pred: "a", args: []hTerm{badT}}) }},
		{"negated atom", func() *ordabs.Rec { return mk([]hTerm{X}, goodAtom, hPrem{kind: "neg", pred: "a", args: []hTerm{badT}}) }},
		{"left of an equality", func() *ordabs.Rec { return mk([]hTerm{X}, goodAtom, hPrem{kind: "eq", l: badT, r: X}) }},
		{"right of an equality", func() *ordabs.Rec { return mk([]hTerm{X}, goodAtom, hPrem{kind: "eq", l: X, r: badT}) }},
		{"left of an inequality", func() *ordabs.Rec { return mk([]hTerm{X}, goodAtom, hPrem{kind: "ineq", l: badT, r: X}) }},
		{"right of an inequality", func() *ordabs.Rec { return mk([]hTerm{X}, goodAtom, hPrem{kind: "ineq", l: X, r: badT}) }},
		{"atom inside a temporal literal", func() *ordabs.Rec { return withPrem(q.k.tl(q.atom("a", []hTerm{badT}), true, true)) }},
		{"negated atom inside a temporal literal", func() *ordabs.Rec { return withPrem(q.k.tl(negOf(q.atom("a", []hTerm{badT})), true, false)) }},
		{"temporal atom", func() *ordabs.Rec {
			ta := q.k.zero("ast", "TemporalAtom")
			ta.Fields["Atom"] = q.atom("a", []hTerm{badT})
			return withPrem(ta)
		}},
	}
	if !q.k.ok {
		c.Unres(rC10Fn, f.Name, f.Decl.Pos(), "anchor-unresolved: ast node types")
		return
	}
	var missed []string
	for _, p := range positions {
		in.Reset()
		out, err := in.Call(f, analyzer, []ordabs.Value{p.cl()})
		if !runORD(c, rC10Fn, f.Name, f, err) {
			return
		}
		if _, isErr := out[0].(ordabs.ErrVal); !isErr {
			missed = append(missed, p.name)
		}
	}
	// and a well-formed clause passes
	in.Reset()
	out, err := in.Call(f, analyzer, []ordabs.Value{mk([]hTerm{X}, goodAtom)})
	if !runORD(c, rC10Fn, f.Name, f, err) {
		return
	}
	if _, isErr := out[0].(ordabs.ErrVal); isErr {
		missed = append(missed, "(a clause without function expressions is rejected)")
	}
	c.Check(len(missed) == 0, rC10Fn, f.Name, f.Decl.Pos(), fmt.Sprintf("a malformed map expression is reported at each of %d positions", len(positions)), "a map expression with an odd number of arguments goes unreported at: "+strings.Join(missed, ", ")+" - the bounds analysis then reads past its arguments")
}

const rC10Merge = "ORDABS.merge-target-columns"

// c10MergeDelta: a functional dependency whose target list does not have exactly one column (fundep([X],[Z]) with Z
// not an argument gives an empty list) must be answered with an error, not by indexing the list.
func c10MergeDelta(c *core.Ctx) {
	c.Rule(rC10Merge, "(*engine).mergeDelta is read from source and evaluated on a derived fact of a predicate with a merge declaration whose functional dependency has 0, 1 and 2 target columns, with and without a stored fact for the same key: it never indexes past the end of the target list - for 0 and 2 columns it returns an error, for 1 it stores the fact", 3)
	f := c.MustFunc(rC10Merge, "engine", "engine.mergeDelta")
	if f == nil {
		return
	}
	k := &astKit{c: c, ok: true}
	tk := newTypeKit(c, rC10Merge)
	if !tk.ok {
		return
	}
	for _, nTarget := range []int{0, 1, 2} {
		bad := ""
		for _, withExisting := range []bool{false, true} {
			in := ordabs.New(c.Prog)
			in.InstallErrorStubs()
			in.Stubs["ast.Atom.String"] = func(in *ordabs.Interp, _ ordabs.Value, _ []ordabs.Value) ([]ordabs.Value, error) {
				return []ordabs.Value{"<atom>"}, nil
			}
			fact := k.atom("p", 3)
			fargs := []ordabs.Value{tk.num(1), tk.num(2), tk.num(3)}
			fact.Fields["Args"] = &ordabs.Slice{Elems: &fargs}
			in.Stubs["factstore.GetAllFacts"] = func(in *ordabs.Interp, _ ordabs.Value, args []ordabs.Value) ([]ordabs.Value, error) {
				return in.CallValue(args[1], []ordabs.Value{fact})
			}
			var tgt []ordabs.Value
			for i := 0; i < nTarget; i++ {
				tgt = append(tgt, int64(1+i))
			}
			src := []ordabs.Value{int64(0)}
			fd := &ordabs.Rec{T: "ast.FunDep", Fields: map[string]ordabs.Value{"Source": &ordabs.Slice{Elems: &src}, "Target": &ordabs.Slice{Elems: &tgt}}}
			if nTarget == 0 {
				fd.Fields["Target"] = (*ordabs.Slice)(nil)
			}
			in.Stubs["engine.engine.hasMergePredicate"] = func(in *ordabs.Interp, _ ordabs.Value, _ []ordabs.Value) ([]ordabs.Value, error) {
				return []ordabs.Value{fd, predSym("merge_p", 3), true}, nil
			}
			added := 0
			in.Stubs["factstore.FactStore.Add"] = func(in *ordabs.Interp, _ ordabs.Value, _ []ordabs.Value) ([]ordabs.Value, error) {
				added++
				return []ordabs.Value{true}, nil
			}
			in.Stubs["factstore.FactStore.GetFacts"] = func(in *ordabs.Interp, _ ordabs.Value, args []ordabs.Value) ([]ordabs.Value, error) {
				if withExisting {
					return in.CallValue(args[1], []ordabs.Value{fact}) // the very fact: nothing to merge
				}
				return []ordabs.Value{nil}, nil
			}
			in.Stubs["factstore.ReadOnlyFactStore.GetFacts"] = in.Stubs["factstore.FactStore.GetFacts"]
			eng := k.zero("engine", "engine")
			eng.Fields["store"] = &ordabs.Obj{Name: "store", Opaque: true}
			eng.Fields["deltaStore"] = &ordabs.Obj{Name: "delta", Opaque: true}
			if !k.ok {
				c.Unres(rC10Merge, f.Name, f.Decl.Pos(), "anchor-unresolved: engine.engine")
				return
			}
			in.Fuel = 200000
			out, err := in.Call(f, &ordabs.Obj{Name: "engine", Fields: eng.Fields, T: "engine.engine"}, nil)
			if !runORD(c, rC10Merge, fmt.Sprintf("%s:%d-target-columns", f.Name, nTarget), f, err) {
				bad = "-"
				break
			}
			_, isErr := out[0].(ordabs.ErrVal)
			switch {
			case nTarget != 1 && !isErr:
				bad = fmt.Sprintf("a functional dependency with %d target columns is merged without an error", nTarget)
			case nTarget == 1 && isErr:
				bad = "a functional dependency with one target column makes mergeDelta fail"
			case nTarget == 1 && !withExisting && added != 1:
				bad = fmt.Sprintf("one target column, no stored fact for the key: the derived fact is added %d times, want once", added)
			}
			if bad != "" {
				break
			}
		}
		if bad != "-" {
			c.Check(bad == "", rC10Merge, fmt.Sprintf("%s:%d-target-columns", f.Name, nTarget), f.Decl.Pos(), "no index past the target list; error unless exactly one column", bad)
		}
	}
}
