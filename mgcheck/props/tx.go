package props

import (
	"fmt"
	"go/ast"
	"sort"
	"strings"

	"mgcheck/core"
)

// txSpec names a function whose type switches over ast.Term must cover the given kinds.
type txSpec struct {
	rel, fn  string
	required []string
	why      string
}

// termKindCoverage (rule engine E1): the kinds of ast.Term a function handles are the case
// labels of its type switches over ast.Term values, plus the kinds unwrapped before such a
// switch by `if x, ok := v.(K); ok { v = x.Field }`, plus comma-ok assertions `v.(K)` - in the function
// itself and in the functions of its own package that it reaches through static calls.
func termKindCoverage(c *core.Ctx, rule string, specs []txSpec) {
	for _, sp := range specs {
		f := c.MustFunc(rule, sp.rel, sp.fn)
		if f == nil {
			continue
		}
		handled := map[string]bool{}
		// the function and the helpers of its own package it calls (a case may have been moved into a helper)
		scope := c.Prog.ReachableFuncs([]*core.Func{f}, map[string]bool{sp.rel: true})
		for _, g := range scope {
			info := g.Pkg.TypesInfo
			for _, ts := range core.TypeSwitches(info, g.Decl.Body) {
				if core.TypeName(ts.TagType) != "ast.Term" {
					continue
				}
				for _, k := range ts.CaseList {
					handled[k] = true
				}
			}
			ast.Inspect(g.Decl.Body, func(n ast.Node) bool {
				ta, ok := n.(*ast.TypeAssertExpr)
				if !ok || ta.Type == nil {
					return true
				}
				if core.TypeName(info.TypeOf(ta.X)) == "ast.Term" {
					handled[core.TypeName(info.TypeOf(ta.Type))] = true
				}
				return true
			})
		}
		var missing []string
		for _, r := range sp.required {
			if !handled[r] {
				missing = append(missing, r)
			}
		}
		var hs []string
		for k := range handled {
			hs = append(hs, strings.TrimPrefix(k, "ast."))
		}
		sort.Strings(hs)
		if len(missing) == 0 {
			c.OK(rule, f.Name, f.Decl.Pos(), "handles %v (%s)", hs, sp.why)
		} else {
			c.Bad(rule, f.Name, f.Decl.Pos(), "no case for %v (handles %v): %s", missing, hs, sp.why)
		}
	}
}

var _ = fmt.Sprintf
