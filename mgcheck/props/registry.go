// Package props instantiates the rule engines per property.
package props

import "mgcheck/core"

// Registry maps a property id to its check.
var Registry = map[string]func(*core.Ctx){}

func register(id string, fn func(*core.Ctx)) { Registry[id] = fn }
