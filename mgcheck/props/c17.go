package props

import (
	"fmt"
	"go/ast"
	"go/types"
	"sort"
	"strings"

	"mgcheck/core"
	"mgcheck/ordabs"
)

func init() { register("C17", checkC17) }

const (
	rC17Loop  = "ORDABS.limit-in-loop"
	rC17Join  = "ORDABS.join-limit"
	rC17Total = "ORDABS.total-limit-setup"
	rC17Count = "ORDABS.fact-count"
	rC17Err   = "EFFECT.error-propagation"
)

func checkC17(c *core.Ctx) {
	c.Rule(rC17Loop, "(*engine).eval, evaluated over abstract programs with a created-fact limit: a program that keeps deriving new facts returns an error within the evaluation budget, a round that derives more than the limit returns an error, and a program whose model fits returns no error and the complete least model", 4)
	c.Rule(rC17Join, "oneStepEvalClause, evaluated with stub premises of every kind that multiply solutions: it returns an error as soon as a join holds more than the limit, whatever the premise kind and including the last expansion", 1)
	c.Rule(rC17Total, "EvalStratifiedProgramWithStats, evaluated with stubbed options and stores: the total limit is initial facts (plain and temporal) plus the created-fact limit whenever that is positive, also for an empty store, and zero otherwise", 1)
	c.Rule(rC17Count, "engine.factCount is the number of plain facts plus the number of temporal facts of the stores that receive derived facts", 1)
	c.Rule(rC17Err, "in every function of package engine that EvalProgram reaches through static calls (found by reachability on each run, so helpers may be extracted, inlined or renamed), no call to a function or interface method of the module that returns an error drops that error: the result is returned, wrapped, or bound to a variable that is tested or returned; the one accepted idiom is a store query whose callback literal returns nil on every path. eval, oneStepEvalClause and oneStepEvalPremise must be part of that tree", 40)
	c17Loop(c)
	c17Join(c)
	c17Total(c)
	c17Count(c)
	c17Errors(c)
	c.Rule("ORDABS.failing-layer-stops-evaluation", "(*engine).evalStrata, read from source and evaluated with a recording fixpoint that fails at the first, second or third layer, and with a temporal store that refuses an initial fact: the error (the fact limit among them) is returned at once and no later layer runs on the incomplete one", 1)
	strataErrorRule(c, "ORDABS.failing-layer-stops-evaluation")
}

func c17Loop(c *core.Ctx) {
	f := c.MustFunc(rC17Loop, "engine", "engine.eval")
	if f == nil {
		return
	}
	type tc struct {
		p        absProgram
		limit    int64
		wantErr  bool
		complete bool
	}
	var many []string
	for i := int64(0); i < 10; i++ {
		many = append(many, fact("a", i))
	}
	cases := []tc{
		{absProgram{"diverging-successor", []string{"n(0)"}, []absRule{{head: "n", body: []string{"n"}, succ: true, max: -1}}}, 5, true, false},
		{absProgram{"diverging-mutual", []string{"z(0)"}, []absRule{{head: "e", body: []string{"z"}}, {head: "o", body: []string{"e"}, succ: true, max: -1}, {head: "e", body: []string{"o"}, succ: true, max: -1}}}, 7, true, false},
		{absProgram{"wide-round", many, []absRule{{head: "b", body: []string{"a"}}, {head: "c", body: []string{"b"}}, {head: "d", body: []string{"c"}}}}, 3, true, false},
		{absProgram{"fits-under-limit", []string{"n(0)"}, []absRule{{head: "n", body: []string{"n"}, succ: true, max: 4}, {head: "m", body: []string{"n"}}}}, 50, false, true},
	}
	for _, temporal := range []bool{false, true} {
	for _, t := range cases {
		e := newEngineFixMode(c, rC17Loop, t.p, t.limit, temporal)
		if e == nil {
			return
		}
		if temporal {
			t.p.name += ":temporal"
		}
		final, isErr, returned, err := e.runEval(f, 300000)
		if !runORD(c, rC17Loop, f.Name+":"+t.p.name, f, err) {
			continue
		}
		bad := ""
		switch {
		case !returned:
			bad = fmt.Sprintf("with a created-fact limit of %d the evaluation of a program that keeps deriving new facts did not return within the evaluation budget (%d rule evaluations): no limit test lies on the loop's back edge", t.limit, e.clauses)
		case t.wantErr && !isErr:
			bad = fmt.Sprintf("limit %d: evaluation stopped without an error although the program derives more facts than the limit allows (store has %d facts): a silent partial result", t.limit, len(final))
		case !t.wantErr && isErr:
			bad = fmt.Sprintf("limit %d: evaluation failed although the whole model has %d facts", t.limit, len(t.p.leastModel(1000)))
		case t.complete:
			if miss, extra := diffSets(final, t.p.leastModel(1000)); len(miss)+len(extra) > 0 {
				bad = fmt.Sprintf("returned without error but the store is not the least model: missing %v extra %v", miss, extra)
			}
		}
		// (over temporal facts the first pass writes straight into the temporal store, so one pass can run every
		// rule of a chain; there the per-join limit inside the rule evaluator is what bounds a wide round, and
		// only "an error, not a silent stop" is required of the loop)
		if isErr && returned && !temporal {
			created := len(final) - len(t.p.facts)
			if int64(created) > 3*t.limit+int64(len(t.p.rules))*t.limit && bad == "" {
				bad = fmt.Sprintf("%d facts were created before the limit of %d tripped", created, t.limit)
			}
		}
		c.Check(bad == "", rC17Loop, f.Name+":"+t.p.name, f.Decl.Pos(), fmt.Sprintf("limit %d handled (error=%v) after %d rule evaluations", t.limit, isErr, e.clauses), bad)
	}
	}
	// a temporal store that refuses further facts (its own interval limit): the refusal is an error of the
	// evaluation, in the first pass and in a later round - never "nothing new was derived"
	for _, after := range []int{0, 4, 7} {
		p := absProgram{"refusing-temporal-store", []string{"n(0)"}, []absRule{{head: "n", body: []string{"n"}, succ: true, max: 6}, {head: "m", body: []string{"n"}}}}
		e := newEngineFixMode(c, rC17Loop, p, 0, true)
		if e == nil {
			return
		}
		e.tRefuseAfter = after
		final, isErr, returned, err := e.runEval(f, 300000)
		label := fmt.Sprintf("%s:refusing-temporal-store-after-%d", f.Name, after)
		if !runORD(c, rC17Loop, label, f, err) {
			continue
		}
		bad := ""
		if !returned {
			bad = "evaluation did not return"
		} else if !isErr {
			bad = fmt.Sprintf("the temporal store accepts %d derived facts and then refuses every further one with its interval-limit error; evaluation returned nil with %d of %d facts: a silent partial result", after, len(final), len(p.leastModel(1000)))
		}
		c.Check(bad == "", rC17Loop, label, f.Decl.Pos(), "the store's refusal is returned as an error", bad)
	}
}

func c17Join(c *core.Ctx) {
	f := c.MustFunc(rC17Join, "engine", "engine.oneStepEvalClause")
	if f == nil {
		return
	}
	k := &astKit{c: c, ok: true}
	in := ordabs.New(c.Prog)
	in.InstallErrorStubs()
	in.InstallTimeStubs()
	fan := int64(1)
	subst := func() ordabs.Value { return &ordabs.Rec{Fields: map[string]ordabs.Value{}, T: "unionfind.UnionFind"} }
	in.Stubs["unionfind.New"] = func(in *ordabs.Interp, _ ordabs.Value, _ []ordabs.Value) ([]ordabs.Value, error) {
		return []ordabs.Value{subst()}, nil
	}
	in.Stubs["engine.engine.oneStepEvalPremise"] = func(in *ordabs.Interp, _ ordabs.Value, _ []ordabs.Value) ([]ordabs.Value, error) {
		var out []ordabs.Value
		for i := int64(0); i < fan; i++ {
			out = append(out, subst())
		}
		return []ordabs.Value{&ordabs.Slice{Elems: &out}, nil}, nil
	}
	in.Stubs["functional.EvalAtom"] = func(in *ordabs.Interp, _ ordabs.Value, args []ordabs.Value) ([]ordabs.Value, error) {
		return []ordabs.Value{args[0], nil}, nil
	}
	in.Stubs["ast.Atom.String"] = func(in *ordabs.Interp, _ ordabs.Value, _ []ordabs.Value) ([]ordabs.Value, error) {
		return []ordabs.Value{"<atom>"}, nil
	}
	in.Stubs["factstore.ReadOnlyFactStore.EstimateFactCount"] = func(in *ordabs.Interp, _ ordabs.Value, _ []ordabs.Value) ([]ordabs.Value, error) {
		return []ordabs.Value{int64(0)}, nil
	}
	in.Stubs["factstore.FactStore.EstimateFactCount"] = in.Stubs["factstore.ReadOnlyFactStore.EstimateFactCount"]
	mkEngine := func(limit int64) *ordabs.Obj {
		opts := k.zero("engine", "EvalOptions")
		opts.Fields["createdFactLimit"] = limit
		eng := k.zero("engine", "engine")
		eng.Fields["options"] = opts
		eng.Fields["predToDecl"] = ordabs.NewMap()
		eng.Fields["store"] = &ordabs.Obj{Name: "store", Opaque: true}
		return &ordabs.Obj{Name: "engine", Fields: eng.Fields}
	}
	kinds := map[string]func() ordabs.Value{
		"atom":             func() ordabs.Value { return k.atom("q", 1) },
		"negated atom":     func() ordabs.Value { return k.neg("q") },
		"equality":         func() ordabs.Value { return k.zero("ast", "Eq") },
		"temporal literal": func() ordabs.Value { return k.tl(k.atom("q", 1), false, true) },
		"built-in atom":    func() ordabs.Value { return k.atom(":list:member", 2) },
		"comparison":       func() ordabs.Value { return k.atom(":lt", 2) },
	}
	if !k.ok {
		c.Unres(rC17Join, f.Name, f.Decl.Pos(), "anchor-unresolved: engine types")
		return
	}
	bad, n := "", 0
	for kname, mk := range kinds {
		for _, np := range []int{1, 2, 3} {
			for _, fn := range []int64{1, 2, 4, 9} {
				for _, limit := range []int64{0, 3, 8} {
					fan = fn
					var prem []ordabs.Value
					for i := 0; i < np; i++ {
						prem = append(prem, mk())
					}
					cl := k.zero("ast", "Clause")
					cl.Fields["Head"] = k.atom("p", 1)
					cl.Fields["Premises"] = &ordabs.Slice{Elems: &prem}
					in.Reset()
					out, err := in.Call(f, mkEngine(limit), []ordabs.Value{cl})
					if !runORD(c, rC17Join, f.Name, f, err) {
						return
					}
					n++
					_, isErr := out[1].(ordabs.ErrVal)
					// largest intermediate join size
					size, maxSize := int64(1), int64(1)
					for i := 0; i < np; i++ {
						size *= fn
						if size > maxSize {
							maxSize = size
						}
					}
					want := limit > 0 && maxSize > limit
					if isErr != want && bad == "" {
						bad = fmt.Sprintf("%d premise(s) of kind %q, each multiplying the solutions by %d, limit %d: largest join has %d solutions, error=%v want %v", np, kname, fn, limit, maxSize, isErr, want)
					}
				}
			}
		}
	}
	c.Check(bad == "", rC17Join, f.Name, f.Decl.Pos(), fmt.Sprintf("join limit enforced on %d premise-kind/fan-out/limit combinations", n), bad)
}

func c17Total(c *core.Ctx) {
	f := c.MustFunc(rC17Total, "engine", "EvalStratifiedProgramWithStats")
	if f == nil {
		return
	}
	k := &astKit{c: c, ok: true}
	in := ordabs.New(c.Prog)
	in.InstallErrorStubs()
	in.InstallTimeStubs()
	in.Stubs["time.Now"] = func(in *ordabs.Interp, _ ordabs.Value, _ []ordabs.Value) ([]ordabs.Value, error) {
		return []ordabs.Value{ordabs.TimeVal{NS: 100}}, nil
	}
	var limit, plain, temporal int64
	withTemporal := false
	tstore := &ordabs.Obj{Name: "temporal", Opaque: true}
	in.Stubs["engine.newEvalOptions"] = func(in *ordabs.Interp, _ ordabs.Value, _ []ordabs.Value) ([]ordabs.Value, error) {
		o := k.zero("engine", "EvalOptions")
		o.Fields["createdFactLimit"] = limit
		o.Fields["externalPredicates"] = ordabs.NewMap()
		if withTemporal {
			o.Fields["temporalStore"] = tstore
		}
		return []ordabs.Value{o}, nil
	}
	count := func(in *ordabs.Interp, recv ordabs.Value, _ []ordabs.Value) ([]ordabs.Value, error) {
		if recv == ordabs.Value(tstore) {
			return []ordabs.Value{temporal}, nil
		}
		return []ordabs.Value{plain}, nil
	}
	for _, n := range []string{"factstore.FactStore", "factstore.ReadOnlyFactStore", "factstore.TemporalFactStore", "factstore.ReadOnlyTemporalFactStore"} {
		in.Stubs[n+".EstimateFactCount"] = count
	}
	in.Stubs["factstore.NewMultiIndexedArrayInMemoryStore"] = func(in *ordabs.Interp, _ ordabs.Value, _ []ordabs.Value) ([]ordabs.Value, error) {
		return []ordabs.Value{&ordabs.Obj{Name: "delta", Opaque: true}}, nil
	}
	in.Stubs["factstore.NewTemporalStore"] = func(in *ordabs.Interp, _ ordabs.Value, _ []ordabs.Value) ([]ordabs.Value, error) {
		return []ordabs.Value{&ordabs.Obj{Name: "tdelta", Opaque: true}}, nil
	}
	var seen int64 = -1
	in.Stubs["engine.engine.evalStrata"] = func(in *ordabs.Interp, recv ordabs.Value, _ []ordabs.Value) ([]ordabs.Value, error) {
		eo, _ := recv.(*ordabs.Obj)
		if eo != nil {
			if o, ok := eo.Fields["options"].(*ordabs.Rec); ok {
				seen, _ = o.Fields["totalFactLimit"].(int64)
			}
		}
		return []ordabs.Value{nil}, nil
	}
	if !k.ok {
		c.Unres(rC17Total, f.Name, f.Decl.Pos(), "anchor-unresolved: engine types")
		return
	}
	bad, n := "", 0
	for _, lim := range []int64{0, 1, 5} {
		for _, pl := range []int64{0, 3} {
			for _, wt := range []bool{false, true} {
				for _, tc := range []int64{0, 4} {
					if !wt && tc != 0 {
						continue
					}
					limit, plain, temporal, withTemporal = lim, pl, tc, wt
					seen = -1
					pi := k.zero("analysis", "ProgramInfo")
					pi.Fields["Decls"] = ordabs.NewMap()
					store := &ordabs.Obj{Name: "store", Opaque: true}
					opt := []ordabs.Value{}
					in.Reset()
					_, err := in.Call(f, nil, []ordabs.Value{&ordabs.Obj{Name: "pi", Fields: pi.Fields}, (*ordabs.Slice)(nil), ordabs.NewMap(), store, &ordabs.Slice{Elems: &opt}})
					if !runORD(c, rC17Total, f.Name, f, err) {
						return
					}
					n++
					want := int64(0)
					if lim > 0 {
						want = lim + pl + tc
					}
					if seen != want && bad == "" {
						bad = fmt.Sprintf("created-fact limit %d, %d plain and %d temporal facts before evaluation (temporal store configured=%v): the engine runs with a total limit of %d, want %d (with a total of 0 the per-round growth is never compared with anything)", lim, pl, tc, wt, seen, want)
					}
				}
			}
		}
	}
	c.Check(bad == "", rC17Total, f.Name, f.Decl.Pos(), fmt.Sprintf("total limit derived correctly in %d configurations", n), bad)
}

func c17Count(c *core.Ctx) {
	f := c.MustFunc(rC17Count, "engine", "engine.factCount")
	if f == nil {
		return
	}
	in := ordabs.New(c.Prog)
	store := &ordabs.Obj{Name: "store", Opaque: true}
	tstore := &ordabs.Obj{Name: "temporal", Opaque: true}
	tdelta := &ordabs.Obj{Name: "temporal-delta", Opaque: true}
	cnt := func(in *ordabs.Interp, recv ordabs.Value, _ []ordabs.Value) ([]ordabs.Value, error) {
		switch recv {
		case ordabs.Value(store):
			return []ordabs.Value{int64(5)}, nil
		case ordabs.Value(tstore):
			return []ordabs.Value{int64(70)}, nil
		case ordabs.Value(tdelta):
			return []ordabs.Value{int64(900)}, nil
		}
		return []ordabs.Value{int64(0)}, nil
	}
	for _, n := range []string{"factstore.FactStore", "factstore.ReadOnlyFactStore", "factstore.TemporalFactStore", "factstore.ReadOnlyTemporalFactStore"} {
		in.Stubs[n+".EstimateFactCount"] = cnt
	}
	bad := ""
	for _, wt := range []bool{false, true} {
		eng := &ordabs.Obj{Name: "engine", Fields: map[string]ordabs.Value{"store": store, "deltaStore": &ordabs.Obj{Name: "d", Opaque: true}, "temporalStore": nil, "temporalDeltaStore": nil}}
		want := int64(5)
		if wt {
			eng.Fields["temporalStore"], eng.Fields["temporalDeltaStore"] = tstore, tdelta
			want = 75
		}
		in.Reset()
		out, err := in.Call(f, eng, nil)
		if !runORD(c, rC17Count, f.Name, f, err) {
			return
		}
		if got, _ := out[0].(int64); got != want && bad == "" {
			bad = fmt.Sprintf("store has 5 facts, temporal store 70, temporal delta 900 (temporal configured=%v): factCount=%d, want %d (the facts the limit bounds live in the store and the temporal store)", wt, got, want)
		}
	}
	c.Check(bad == "", rC17Count, f.Name, f.Decl.Pos(), "plain + temporal store counts", bad)
	teeTemporalCount(c, rC17Count)
}

// c17Errors: error propagation over the evaluation call tree. The functions are
// found by reachability from the entry points, so extracting, inlining or
// renaming a helper changes nothing; what must hold is that no error produced
// inside the tree is dropped on the way out.
func c17Errors(c *core.Ctx) {
	entry := c.MustFunc(rC17Err, "engine", "EvalProgram")
	ev := c.MustFunc(rC17Err, "engine", "engine.eval")
	if entry == nil || ev == nil {
		return
	}
	rels := map[string]bool{"engine": true}
	tree := c.Prog.ReachableFuncs([]*core.Func{entry}, rels)
	// anchors: the loop and the rule evaluator must be part of the tree
	for _, need := range []string{"engine.(*engine).eval", "engine.(*engine).oneStepEvalClause", "engine.(*engine).oneStepEvalPremise"} {
		if tree[need] == nil {
			c.Unres(rC17Err, "EvalProgram=>"+need, entry.Decl.Pos(), "anchor-unresolved: %s is not reachable from EvalProgram through static calls inside package engine", need)
		}
	}
	var names []string
	for n := range tree {
		names = append(names, n)
	}
	sort.Strings(names)
	for _, n := range names {
		f := tree[n]
		c.Touch(f)
		info := f.Pkg.TypesInfo
		type site struct {
			callee string
			calls  []*ast.CallExpr
		}
		var sites []*site
		idx := map[string]*site{}
		ast.Inspect(f.Decl.Body, func(x ast.Node) bool {
			call, ok := x.(*ast.CallExpr)
			if !ok {
				return true
			}
			fn, _ := core.Callee(info, call).(*types.Func)
			if fn == nil || core.RelOf(fn.Pkg()) == "" {
				return true
			}
			sig := fn.Type().(*types.Signature)
			if sig.Results().Len() == 0 || !isErrorType(sig.Results().At(sig.Results().Len()-1).Type()) {
				return true
			}
			name := core.ObjName(fn)
			s := idx[name]
			if s == nil {
				s = &site{callee: name}
				idx[name] = s
				sites = append(sites, s)
			}
			s.calls = append(s.calls, call)
			return true
		})
		for _, s := range sites {
			bad := ""
			for _, call := range s.calls {
				if callbackNeverFails(info, call) {
					continue // a store query whose callback returns nil on every path yields no error of its own
				}
				if !errorIsUsed(f, info, call) && bad == "" {
					bad = fmt.Sprintf("the error returned by %s at %s is not returned, wrapped or tested", s.callee, c.Prog.Pos(call.Pos()))
				}
			}
			c.Check(bad == "", rC17Err, f.Name+"->"+strings.TrimPrefix(s.callee, "engine."), s.calls[0].Pos(), fmt.Sprintf("%d call(s), error always handled", len(s.calls)), bad)
		}
	}
}

// callbackNeverFails recognises a query through an interface of the module (a
// fact store) whose last argument is a function literal that returns the nil
// error on every path: the stores hand back only the callback's error.
func callbackNeverFails(info *types.Info, call *ast.CallExpr) bool {
	fn, _ := core.Callee(info, call).(*types.Func)
	if fn == nil || len(call.Args) == 0 {
		return false
	}
	sig := fn.Type().(*types.Signature)
	if sig.Recv() == nil {
		return false
	}
	if _, isIface := sig.Recv().Type().Underlying().(*types.Interface); !isIface {
		return false
	}
	lit, ok := ast.Unparen(call.Args[len(call.Args)-1]).(*ast.FuncLit)
	if !ok {
		return false
	}
	allNil, any := true, false
	var walk func(n ast.Node) bool
	walk = func(n ast.Node) bool {
		switch x := n.(type) {
		case *ast.FuncLit:
			return x == lit
		case *ast.ReturnStmt:
			any = true
			if len(x.Results) != 1 || !core.IsNilIdent(info, x.Results[0]) {
				allNil = false
			}
		}
		return true
	}
	ast.Inspect(lit, walk)
	return any && allNil
}

func isErrorType(t types.Type) bool {
	n, ok := t.(*types.Named)
	return ok && n.Obj().Pkg() == nil && n.Obj().Name() == "error"
}

// errorIsUsed: the call's last result is bound to a variable that is tested against nil or returned, or the call is returned directly.
func errorIsUsed(f *core.Func, info interface{}, call *ast.CallExpr) bool {
	used := false
	var parentOf func(n ast.Node) ast.Node
	parents := map[ast.Node]ast.Node{}
	var stack []ast.Node
	ast.Inspect(f.Decl.Body, func(n ast.Node) bool {
		if n == nil {
			stack = stack[:len(stack)-1]
			return true
		}
		if len(stack) > 0 {
			parents[n] = stack[len(stack)-1]
		}
		stack = append(stack, n)
		return true
	})
	parentOf = func(n ast.Node) ast.Node { return parents[n] }
	switch p := parentOf(call).(type) {
	case *ast.ReturnStmt:
		used = true
	case *ast.AssignStmt:
		last := p.Lhs[len(p.Lhs)-1]
		id, ok := last.(*ast.Ident)
		if !ok || id.Name == "_" {
			return false
		}
		// the variable must be mentioned again after the assignment (err != nil, return err, ...)
		name := id.Name
		ast.Inspect(f.Decl.Body, func(n ast.Node) bool {
			if x, ok := n.(*ast.Ident); ok && x.Name == name && x.Pos() > p.End() {
				used = true
			}
			return true
		})
		// `if err := call(); err != nil` : the condition is after the assignment, covered above
	case *ast.ExprStmt:
		used = false
	default:
		used = true // argument of another call etc.
	}
	return used
}
