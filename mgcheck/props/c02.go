package props

import (
	"fmt"
	"sort"
	"strings"

	"mgcheck/core"
	"mgcheck/ordabs"
)

func init() { register("C02", checkC02) }

const (
	rC02Split = "ORDABS.rewrite-split"
	rC02Input = "ORDABS.aggregation-input"
	rC02Group = "ORDABS.group-keys"
	rC02TX    = "TX.binders"
	rC02Dep   = "ORDABS.dependency-graph"
	rC02Dedup = "ORDABS.reducers-over-rows"
)

func checkC02(c *core.Ctx) {
	c.Rule(rC02Split, "rewrite.Rewrite, evaluated on a stratum with two multi-premise aggregating rules for the same head, a temporal multi-premise one, a single-atom one and plain rules: every multi-premise aggregating rule gets an internal predicate of its own whose columns are exactly the non-wildcard variables its body can bind (including those bound by temporal literals and their intervals), and the aggregating rule that remains reads only that predicate and keeps its transform and head time; all other rules are unchanged", 1)
	c.Rule(rC02Input, "the do-transform pass of (*engine).eval, evaluated over a set-model store: aggregating rules are not evaluated before the fixpoint, and the rows handed to the transform are exactly the stored facts that unify with the rule's body atom (constants and repeated variables included); the emitted facts are added to the store", 1)
	c.Rule(rC02Group, "evalDo, evaluated on rows whose group keys are distinct constants with equal hashes: one group per distinct key value, each reducer sees exactly the rows of its group, one fact emitted per group and none for an empty input", 1)
	c.Rule(rC02TX, "rewrite.getVars covers every premise kind that can bind a variable", 1)
	c.Rule(rC02Dep, "an aggregated mention is a negative dependency edge (forces the body into a lower stratum)", 1)
	c02Rewrite(c)
	c02Input(c)
	c02Group(c)
	termKindCoverage(c, rC02TX, []txSpec{{"rewrite", "getVars", []string{"ast.Atom", "ast.Eq", "ast.TemporalLiteral", "ast.TemporalAtom"}, "a variable bound only by a premise kind without a case is not a column of the internal relation, and distinct body solutions are merged before the reducer runs"}})
	c03DepGraphRule(c, rC02Dep)
	c07ReducerLaws(c, rC02Dedup)
	c.Rule("ORDABS.aggregation-edge-never-weakened", "depGraph.addEdge, evaluated on every prior state of an edge and both polarities: an edge that records an aggregated (negative) mention is never overwritten by a later or earlier positive mention of the same predicate, so recursion through an aggregation is always seen by stratification (obligation shared with C03)", 1)
	c.Under("ORDABS.aggregation-edge-never-weakened", []string{rC03Edge}, func() { c03AddEdge(c) })
	c.Rule("ORDABS.aggregated-body-in-lower-stratum", "Stratify, evaluated from source on every labelled dependency graph over at most three predicates in both map orders (an aggregated mention is a negative edge): recursion through an aggregate is rejected whatever the map order, and otherwise the aggregated predicates lie in a strictly earlier layer, so the body's fixpoint is complete before the reducer runs (obligation shared with C03)", 1)
	c03StratifyRule(c, "ORDABS.aggregated-body-in-lower-stratum")
}

func c02Rewrite(c *core.Ctx) {
	f := c.MustFunc(rC02Split, "rewrite", "Rewrite")
	c.MustFunc(rC02Split, "rewrite", "nameGen.freshPredicateName")
	c.MustFunc(rC02Split, "rewrite", "makeHead")
	if f == nil {
		return
	}
	q := &clauseKit{k: &astKit{c: c, ok: true}, ck: newConstKit(c, rC02Split)}
	if !q.ck.ok {
		return
	}
	in := ordabs.New(c.Prog)
	in.InstallErrorStubs()
	in.StubSortSlice()
	in.Stubs["ast.Variable.Hash"] = func(in *ordabs.Interp, recv ordabs.Value, _ []ordabs.Value) ([]ordabs.Value, error) {
		s, _ := recv.(*ordabs.Rec).Fields["Symbol"].(string)
		var h int64
		for _, ch := range s {
			h = h*31 + int64(ch)
		}
		return []ordabs.Value{h}, nil
	}
	X, Y, K := hv("X"), hv("Y"), hv("K")
	mk := func(c hClause) *ordabs.Rec { return q.clause(c) }
	r1 := hClause{headPred: "h", head: []hTerm{K, hv("N")}, hasDo: true, doKeys: []string{"K"}, prems: []hPrem{{kind: "atom", pred: "a", args: []hTerm{K, X}}, {kind: "atom", pred: "a", args: []hTerm{K, Y}}}}
	r2 := hClause{headPred: "h", head: []hTerm{K, hv("N")}, hasDo: true, doKeys: []string{"K"}, prems: []hPrem{{kind: "atom", pred: "b", args: []hTerm{K, X}}, {kind: "atom", pred: "b", args: []hTerm{K, hv("_")}}}}
	r3 := hClause{headPred: "g", head: []hTerm{K, hv("N")}, hasDo: true, doKeys: []string{"K"}, prems: []hPrem{{kind: "atom", pred: "a", args: []hTerm{K, X}}}}
	r4 := hClause{headPred: "p", head: []hTerm{X}, prems: []hPrem{{kind: "atom", pred: "a", args: []hTerm{X, Y}}, {kind: "atom", pred: "b", args: []hTerm{X, Y}}}}
	// temporal: t(K,N) :- a(K,X), c(Y)@[S,E] |> do ...
	r5 := mk(hClause{headPred: "t", head: []hTerm{K, hv("N")}, hasDo: true, doKeys: []string{"K"}, prems: []hPrem{{kind: "atom", pred: "a", args: []hTerm{K, X}}}})
	{
		prems := r5.Fields["Premises"].(*ordabs.Slice)
		tl := q.k.tl(q.atom("c", []hTerm{Y}), false, true)
		iv := tl.Fields["Interval"].(*ordabs.Obj)
		vb, _ := constInt(c.Prog, "ast", "VariableBound")
		for side, name := range map[string]string{"Start": "S", "End": "E"} {
			b := iv.Fields[side].(*ordabs.Rec)
			b.Fields["Type"] = vb
			b.Fields["Variable"].(*ordabs.Rec).Fields["Symbol"] = name
		}
		ps := append(append([]ordabs.Value{}, *prems.Elems...), tl)
		r5.Fields["Premises"] = &ordabs.Slice{Elems: &ps}
		ht := q.k.zero("ast", "Interval")
		r5.Fields["HeadTime"] = &ordabs.Obj{Name: "headtime", Fields: ht.Fields, T: "ast.Interval"}
	}
	if !q.k.ok {
		c.Unres(rC02Split, f.Name, f.Decl.Pos(), "anchor-unresolved: ast node types")
		return
	}
	// a variable that receives its value on the right-hand side of an equation: u(K,N) :- a(K,X), fn:mult(X,10) = W |> do ...
	r6 := hClause{headPred: "u", head: []hTerm{K, hv("N")}, hasDo: true, doKeys: []string{"K"}, prems: []hPrem{{kind: "atom", pred: "a", args: []hTerm{K, X}}, {kind: "eq", l: hf("fn:mult", X, hc(10)), r: hv("W")}}}
	rules := []ordabs.Value{mk(r1), mk(r2), mk(r3), mk(r4), r5, mk(r6)}
	prog := q.k.zero("analysis", "Program")
	prog.Fields["Rules"] = &ordabs.Slice{Elems: &rules}
	in.Fuel = 500000
	out, err := in.Call(f, nil, []ordabs.Value{prog})
	if !runORD(c, rC02Split, f.Name, f, err) {
		return
	}
	res, _ := out[0].(*ordabs.Rec)
	var got []*ordabs.Rec
	if res != nil {
		if sl, _ := res.Fields["Rules"].(*ordabs.Slice); sl != nil {
			for _, r := range *sl.Elems {
				got = append(got, r.(*ordabs.Rec))
			}
		}
	}
	var problems []string
	internal := map[string]int{}
	isInternal := func(s string) bool { return strings.HasSuffix(s, "__tmp") }
	byHead := map[string][]*ordabs.Rec{}
	for _, r := range got {
		hp, _ := backAtom(r.Fields["Head"])
		byHead[hp] = append(byHead[hp], r)
		if isInternal(hp) {
			internal[hp]++
		}
	}
	if len(internal) != 4 {
		problems = append(problems, fmt.Sprintf("four multi-premise aggregating rules must get three different internal predicates, got %v (rules sharing one intermediate relation reduce the union of their bodies' solutions)", internal))
	}
	for name, n := range internal {
		if n != 1 {
			problems = append(problems, fmt.Sprintf("internal predicate %s is the head of %d rules", name, n))
		}
	}
	// each internal rule: columns = variables of its body; the consumer reads exactly that atom
	wantCols := map[string]string{"a(K,X), a(K,Y)": "K X Y", "b(K,X), b(K,_)": "K X", "a(K,X), c(Y)": "E K S X Y", "a(K,X), fn:mult(X,10) = W": "K W X"}
	for name := range internal {
		r := byHead[name][0]
		_, cols := backAtom(r.Fields["Head"])
		var cs []string
		for _, col := range cols {
			cs = append(cs, col.String())
		}
		sort.Strings(cs)
		var body []string
		for _, p := range backPremsTL(r.Fields["Premises"]) {
			body = append(body, p)
		}
		key := strings.Join(body, ", ")
		if want, ok := wantCols[key]; !ok {
			problems = append(problems, "unexpected internal rule body "+key)
		} else if strings.Join(cs, " ") != want {
			problems = append(problems, fmt.Sprintf("the internal relation for body [%s] has columns [%s], want [%s]: a variable that is not a column merges distinct solutions before they are counted", key, strings.Join(cs, " "), want))
		}
		if r.Fields["Transform"] != ordabs.Value((*ordabs.Obj)(nil)) && r.Fields["Transform"] != nil {
			if o, _ := r.Fields["Transform"].(*ordabs.Obj); o != nil {
				problems = append(problems, "the internal rule for "+key+" still carries the transform")
			}
		}
		// consumer
		found := false
		for _, cons := range got {
			ps, _ := cons.Fields["Premises"].(*ordabs.Slice)
			if ps == nil || len(*ps.Elems) != 1 {
				continue
			}
			pa, ok := (*ps.Elems)[0].(*ordabs.Rec)
			if !ok || pa.T != "ast.Atom" {
				continue
			}
			pp, pargs := backAtom(pa)
			if pp != name {
				continue
			}
			found = true
			var as []string
			for _, a := range pargs {
				as = append(as, a.String())
			}
			sort.Strings(as)
			if strings.Join(as, " ") != strings.Join(cs, " ") {
				problems = append(problems, "the aggregating rule reads "+name+" with other arguments than its head has")
			}
			if o, _ := cons.Fields["Transform"].(*ordabs.Obj); o == nil {
				problems = append(problems, "the aggregating rule over "+name+" lost its transform")
			}
			if key == "a(K,X), c(Y)" {
				if o, _ := cons.Fields["HeadTime"].(*ordabs.Obj); o == nil {
					problems = append(problems, "the aggregating rule over "+name+" lost its head time annotation")
				}
			}
		}
		if !found {
			problems = append(problems, "no aggregating rule reads the internal predicate "+name)
		}
	}
	// unchanged rules
	if len(byHead["g"]) != 1 || len(byHead["p"]) != 1 {
		problems = append(problems, "single-atom aggregating rules and plain rules must pass through unchanged")
	} else {
		if ps := backPrems(byHead["p"][0].Fields["Premises"]); len(ps) != 2 {
			problems = append(problems, "the plain rule was changed")
		}
		if ps := backPrems(byHead["g"][0].Fields["Premises"]); len(ps) != 1 || ps[0].pred != "a" {
			problems = append(problems, "the single-atom aggregating rule was changed")
		}
	}
	c.Check(len(problems) == 0, rC02Split, f.Name, f.Decl.Pos(), fmt.Sprintf("%d rules in, %d out: three private internal relations with all bound variables as columns", len(rules), len(got)), strings.Join(problems, "; "))
}

// backPremsTL renders premises, looking through temporal literals.
func backPremsTL(v ordabs.Value) []string {
	var out []string
	sl, _ := v.(*ordabs.Slice)
	if sl == nil {
		return nil
	}
	for _, p := range *sl.Elems {
		r := p.(*ordabs.Rec)
		if r.T == "ast.TemporalLiteral" {
			r, _ = r.Fields["Literal"].(*ordabs.Rec)
		}
		if r != nil && r.T == "ast.Eq" {
			out = append(out, backTerm(r.Fields["Left"]).String()+" = "+backTerm(r.Fields["Right"]).String())
			continue
		}
		pr, as := backAtom(r)
		var ss []string
		for _, a := range as {
			ss = append(ss, a.String())
		}
		out = append(out, pr+"("+strings.Join(ss, ",")+")")
	}
	return out
}

func c02Input(c *core.Ctx) {
	X := hv("X")
	c02InputCase(c, "do-transform-pass", "q(X,5,X)", []hTerm{X, hc(5), X}, "[1 5 1 2 5 2]")
	c02InputCase(c, "do-transform-pass:wildcards", "q(_,5,_)", []hTerm{hv("_"), hc(5), hv("_")}, "[1 5 1 1 5 2 2 5 2]")
}

func c02InputCase(c *core.Ctx, label, bodyText string, bodyArgs []hTerm, wantRows string) {
	c02InputCaseRule(c, rC02Input, label, bodyText, bodyArgs, wantRows)
}

func c02InputCaseRule(c *core.Ctx, rule, label, bodyText string, bodyArgs []hTerm, wantRows string) {
	f := c.MustFunc(rule, "engine", "engine.eval")
	if f == nil {
		return
	}
	prog := absProgram{"aggregation", nil, nil}
	e := newEngineFix(c, rule, prog, 0)
	if e == nil {
		return
	}
	q := &clauseKit{k: e.k, ck: e.ck}
	// do-rule: cnt(N) :- q(X, 5, X) |> do fn:group_by(), let N = fn:count().
	do := q.clause(hClause{headPred: "cnt", head: []hTerm{hv("N")}, hasDo: true, doKeys: []string{}, prems: []hPrem{{kind: "atom", pred: "q", args: bodyArgs}}})
	rules := []ordabs.Value{do}
	e.engine.Fields["programInfo"].(*ordabs.Obj).Fields["Rules"] = &ordabs.Slice{Elems: &rules}
	type row struct{ a, b, cc int64 }
	stored := []row{{1, 5, 1}, {1, 5, 2}, {2, 5, 2}, {3, 6, 3}}
	mkFact := func(r row) *ordabs.Rec { return q.atom("q", []hTerm{hc(r.a), hc(r.b), hc(r.cc)}) }
	var queries []string
	getFacts := func(in *ordabs.Interp, _ ordabs.Value, args []ordabs.Value) ([]ordabs.Value, error) {
		pred, qargs := backAtom(args[0])
		var qs []string
		for _, a := range qargs {
			qs = append(qs, a.String())
		}
		queries = append(queries, pred+"("+strings.Join(qs, ",")+")")
		for _, r := range stored {
			vals := []int64{r.a, r.b, r.cc}
			ok := pred == "q" && len(qargs) == 3
			for i := 0; ok && i < 3; i++ {
				if qargs[i].kind == "const" && qargs[i].n != vals[i] {
					ok = false
				}
			}
			if !ok {
				continue
			}
			out, err := in.CallValue(args[1], []ordabs.Value{mkFact(r)})
			if err != nil {
				return nil, err
			}
			if out[0] != nil {
				return out, nil
			}
		}
		return []ordabs.Value{nil}, nil
	}
	e.in.Stubs["factstore.ReadOnlyFactStore.GetFacts"] = getFacts
	e.in.Stubs["factstore.FactStore.GetFacts"] = getFacts
	var rowsSeen []string
	emitted := false
	e.in.Stubs["engine.EvalTransformWithInputFacts"] = func(in *ordabs.Interp, _ ordabs.Value, args []ordabs.Value) ([]ordabs.Value, error) {
		facts, _ := args[3].(*ordabs.Slice)
		substs, _ := args[2].(*ordabs.Slice)
		if facts != nil {
			for _, fct := range *facts.Elems {
				_, as := backAtom(fct)
				rowsSeen = append(rowsSeen, fmt.Sprint(as[0].n, as[1].n, as[2].n))
			}
		}
		if substs != nil && facts != nil && len(*substs.Elems) != len(*facts.Elems) {
			rowsSeen = append(rowsSeen, fmt.Sprintf("MISMATCH %d rows for %d facts", len(*substs.Elems), len(*facts.Elems)))
		}
		// emit one fact
		head := q.atom("cnt", []hTerm{hc(int64(len(rowsSeen)))})
		out, err := in.CallValue(args[4], []ordabs.Value{head, int64(1), (*ordabs.Slice)(nil), (*ordabs.Slice)(nil)})
		if err != nil {
			return nil, err
		}
		_ = out
		emitted = true
		return []ordabs.Value{nil}, nil
	}
	e.in.Stubs["functional.EvalAtom"] = func(in *ordabs.Interp, _ ordabs.Value, args []ordabs.Value) ([]ordabs.Value, error) {
		return []ordabs.Value{args[0], nil}, nil
	}
	preFix := false
	orig := e.in.Stubs["engine.engine.oneStepEvalClause"]
	e.in.Stubs["engine.engine.oneStepEvalClause"] = func(in *ordabs.Interp, recv ordabs.Value, args []ordabs.Value) ([]ordabs.Value, error) {
		if cl, _ := args[0].(*ordabs.Rec); cl != nil {
			if o, _ := cl.Fields["Transform"].(*ordabs.Obj); o != nil {
				preFix = true
				return []ordabs.Value{(*ordabs.Slice)(nil), nil}, nil
			}
		}
		return orig(in, recv, args)
	}
	_, _, returned, err := e.runEval(f, 400000)
	if !runORD(c, rule, f.Name, f, err) {
		return
	}
	var problems []string
	if !returned {
		problems = append(problems, "evaluation did not return")
	}
	if preFix {
		problems = append(problems, "the aggregating rule was evaluated as an ordinary rule before the fixpoint (it would aggregate partial results)")
	}
	sort.Strings(rowsSeen)
	if fmt.Sprint(rowsSeen) != wantRows {
		problems = append(problems, fmt.Sprintf("store holds q(1,5,1) q(1,5,2) q(2,5,2) q(3,6,3); the rule body %s was given the rows %v (store queried with %v), want exactly %s", bodyText, rowsSeen, queries, wantRows))
	}
	if !emitted {
		problems = append(problems, "the transform was not applied")
	} else if !e.stores[e.engine.Fields["store"].(*ordabs.Obj)][fmt.Sprintf("cnt(%d)", len(rowsSeen))] {
		problems = append(problems, "the emitted fact was not added to the store")
	}
	c.Check(len(problems) == 0, rule, f.Name+":"+label, f.Decl.Pos(), "rows = stored facts unifying with the body atom; applied after the fixpoint; result stored", strings.Join(problems, "; "))
}

func c02Group(c *core.Ctx) {
	f := c.MustFunc(rC02Group, "engine", "evalDo")
	c.MustFunc(rC02Group, "engine", "groupKeyString")
	if f == nil {
		return
	}
	q := &clauseKit{k: &astKit{c: c, ok: true}, ck: newConstKit(c, rC02Group)}
	if !q.ck.ok {
		return
	}
	in := ordabs.New(c.Prog)
	in.InstallErrorStubs()
	in.InstallBuilderStubs()
	in.Stubs["ast.Constant.Hash"] = func(in *ordabs.Interp, _ ordabs.Value, _ []ordabs.Value) ([]ordabs.Value, error) {
		return []ordabs.Value{int64(7)}, nil
	}
	in.Stubs["ast.Constant.String"] = func(in *ordabs.Interp, recv ordabs.Value, _ []ordabs.Value) ([]ordabs.Value, error) {
		r := recv.(*ordabs.Rec)
		return []ordabs.Value{fmt.Sprintf("%v#%v", r.Fields["Type"], r.Fields["NumValue"])}, nil
	}
	in.Stubs["builtin.IsReducerFunction"] = func(in *ordabs.Interp, _ ordabs.Value, _ []ordabs.Value) ([]ordabs.Value, error) {
		return []ordabs.Value{true}, nil
	}
	in.Stubs["functional.EvalReduceFn"] = func(in *ordabs.Interp, _ ordabs.Value, args []ordabs.Value) ([]ordabs.Value, error) {
		rows, _ := args[1].(*ordabs.Slice)
		n := 0
		if rows != nil {
			n = len(*rows.Elems)
		}
		return []ordabs.Value{q.ck.mk(q.ck.Number, int64(n)), nil}, nil
	}
	pairT := c.Prog.Named("ast", "ConstSubstPair")
	mkRow := func(kv map[string]*ordabs.Rec, order []string) ordabs.Value {
		var ps []ordabs.Value
		for _, name := range order {
			z, _ := ordabs.ZeroOf(pairT)
			p := z.(*ordabs.Rec)
			p.Fields["v"] = &ordabs.Rec{Fields: map[string]ordabs.Value{"Symbol": name}, T: "ast.Variable"}
			p.Fields["c"] = kv[name]
			ps = append(ps, p)
		}
		return &ordabs.Slice{Elems: &ps}
	}
	if pairT == nil {
		c.Unres(rC02Group, "ast.ConstSubstPair", 0, "anchor-unresolved")
		return
	}
	// keys: Number 5 and Duration 5 (equal hash, different value), and a second column
	k1, k2 := q.ck.mk(q.ck.Number, 5), q.ck.mk(q.ck.Duration, 5)
	rows := []ordabs.Value{
		mkRow(map[string]*ordabs.Rec{"K": k1, "V": q.ck.mk(q.ck.Number, 1)}, []string{"K", "V"}),
		mkRow(map[string]*ordabs.Rec{"K": k2, "V": q.ck.mk(q.ck.Number, 2)}, []string{"K", "V"}),
		mkRow(map[string]*ordabs.Rec{"K": k1, "V": q.ck.mk(q.ck.Number, 3)}, []string{"K", "V"}),
	}
	cl := q.clause(hClause{headPred: "h", head: []hTerm{hv("K"), hv("N")}, hasDo: true, doKeys: []string{"K"}, prems: []hPrem{{kind: "atom", pred: "a", args: []hTerm{hv("K"), hv("V")}}}})
	transform := &ordabs.Rec{Fields: cl.Fields["Transform"].(*ordabs.Obj).Fields, T: "ast.Transform"}
	var emits []string
	emit := &ordabs.Stub{Name: "emit", Fn: func(in *ordabs.Interp, args []ordabs.Value) ([]ordabs.Value, error) {
		a := args[0].(*ordabs.Rec)
		sl := a.Fields["Args"].(*ordabs.Slice)
		var parts []string
		for _, x := range *sl.Elems {
			r := x.(*ordabs.Rec)
			parts = append(parts, fmt.Sprintf("%v#%v", r.Fields["Type"], r.Fields["NumValue"]))
		}
		emits = append(emits, strings.Join(parts, ","))
		return []ordabs.Value{true}, nil
	}}
	in.Fuel = 500000
	_, err := in.Call(f, nil, []ordabs.Value{cl.Fields["Head"], transform, &ordabs.Slice{Elems: &rows}, (*ordabs.Slice)(nil), emit})
	if !runORD(c, rC02Group, f.Name, f, err) {
		return
	}
	sort.Strings(emits)
	want := []string{fmt.Sprintf("%d#5,%d#2", q.ck.Number, q.ck.Number), fmt.Sprintf("%d#5,%d#1", q.ck.Duration, q.ck.Number)}
	sort.Strings(want)
	bad := ""
	if fmt.Sprint(emits) != fmt.Sprint(want) {
		bad = fmt.Sprintf("rows with keys 5, 5ns, 5 (the two constants have equal hashes) give %v, want one group per distinct key: %v (kind#value,count)", emits, want)
	}
	// empty input
	emits = nil
	empty := []ordabs.Value{}
	if _, err := in.Call(f, nil, []ordabs.Value{cl.Fields["Head"], transform, &ordabs.Slice{Elems: &empty}, (*ordabs.Slice)(nil), emit}); runORD(c, rC02Group, f.Name, f, err) {
		if len(emits) != 0 && bad == "" {
			bad = "an empty body yields a fact"
		}
	}
	// no key: one global group over a non-empty input, nothing at all for an empty one (empty and nil slices)
	cl0 := q.clause(hClause{headPred: "h", head: []hTerm{hv("N")}, hasDo: true, prems: []hPrem{{kind: "atom", pred: "a", args: []hTerm{hv("K"), hv("V")}}}})
	transform0 := &ordabs.Rec{Fields: cl0.Fields["Transform"].(*ordabs.Obj).Fields, T: "ast.Transform"}
	for i, input := range []ordabs.Value{&ordabs.Slice{Elems: &rows}, &ordabs.Slice{Elems: &[]ordabs.Value{}}, (*ordabs.Slice)(nil)} {
		emits = nil
		in.Reset()
		in.Fuel = 500000
		if _, err := in.Call(f, nil, []ordabs.Value{cl0.Fields["Head"], transform0, input, (*ordabs.Slice)(nil), emit}); !runORD(c, rC02Group, f.Name, f, err) {
			return
		}
		if bad != "" {
			continue
		}
		if i == 0 && fmt.Sprint(emits) != fmt.Sprintf("[%d#3]", q.ck.Number) {
			bad = fmt.Sprintf("fn:group_by() without keys over 3 rows gives %v, want the single fact with count 3", emits)
		}
		if i > 0 && len(emits) != 0 {
			bad = fmt.Sprintf("fn:group_by() without keys over an empty body yields %v: an empty body must yield no fact", emits)
		}
	}
	c.Check(bad == "", rC02Group, f.Name, f.Decl.Pos(), "one group per distinct key value, each reduced over its own rows; a key-less group_by gives one fact for a non-empty body and none for an empty one", bad)
}
