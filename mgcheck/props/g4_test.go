package props

import "testing"

func TestG4(t *testing.T) {
	g, err := loadG4("/repo")
	if err != nil {
		t.Fatal(err)
	}
	for _, q := range [][3]string{{"temporalAnnotation", "", "temporalBound"}, {"temporalOperator", "", "temporalBound"}, {"literalOrFml", "", "term"}, {"clause", "", "clauseBody"}, {"clause", "", "atom"}, {"term", "Appl", "term"}, {"term", "Appl", "NAME"}, {"term", "Str", "STRING"}, {"descrBlock", "", "atoms"}, {"decl", "", "descrBlock"}, {"literalOrFml", "", "EQ"}, {"literalOrFml", "", "BANG"}, {"start", "", "program"}, {"member", "", "term"}, {"transform", "", "letStmt"}, {"clause", "", "COLONDASH"}} {
		r, ok := g.childCount(q[0], q[1], q[2])
		t.Logf("%v -> %v %v", q, r, ok)
	}
	for _, tok := range []string{"STRING", "BYTESTRING", "DOT_TYPE", "CONSTANT", "NAME", "VARIABLE", "NUMBER", "FLOAT", "TIMESTAMP", "DURATION"} {
		n, ok := g.tokenMinLen(tok)
		t.Logf("%s minlen %d %v", tok, n, ok)
	}
	t.Log(g.ruleOfLabel("Appl"), len(g.order))
}
