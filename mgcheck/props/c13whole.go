package props

import (
	"fmt"
	"sort"
	"strings"

	"mgcheck/core"
	"mgcheck/ordabs"
)

const rC13Whole = "ORDABS.tree-as-a-whole"

// c13WholeTree: IntervalTree.Insert (with contains/findExact, insert, rebalance, the rotations, updateHeight,
// updateMaxEnd), QueryPoint, QueryRange, All and Size are read from source and evaluated TOGETHER on every
// insertion sequence of a given length over a small universe of intervals (duplicates included). After each
// sequence the answers must be those of the set of inserted intervals under the closed-interval meaning, and the
// tree must satisfy its own invariants (search order, max-end augmentation, AVL balance, heights). This is the
// small-scope counterpart of the one-node inductive obligations: it exercises the interplay of rebalancing and
// augmentation that a single node cannot show.
func c13WholeTree(c *core.Ctx, k *tkit) {
	c.Rule(rC13Whole, "IntervalTree.Insert with everything below it, QueryPoint, QueryRange, All and Size are read from source and evaluated on every insertion sequence (quick: every sequence of three over seven intervals on a four-point line, among them one unbounded on each side; thorough: of three over thirteen and of four over the seven; always ascending, descending and zig-zag runs of six), duplicates included: Insert reports true exactly for a new interval, Size and All agree with the set inserted, a point query yields exactly the intervals containing the instant and a range query exactly those intersecting the range, each once; the tree keeps its search order, its max-end augmentation, its heights and the AVL balance", 1)
	ins := c.MustFunc(rC13Whole, "factstore", "IntervalTree.Insert")
	qp := c.MustFunc(rC13Whole, "factstore", "IntervalTree.QueryPoint")
	qr := c.MustFunc(rC13Whole, "factstore", "IntervalTree.QueryRange")
	all := c.MustFunc(rC13Whole, "factstore", "IntervalTree.All")
	size := c.MustFunc(rC13Whole, "factstore", "IntervalTree.Size")
	if ins == nil || qp == nil || qr == nil || all == nil || size == nil {
		return
	}
	in := ordabs.New(c.Prog)
	const lo, hi = int64(-1 << 63), int64(1<<63 - 1)
	type iv struct {
		st, s, et, e int64
	}
	var univ []iv
	for s := int64(0); s <= 3; s++ {
		for e := s; e <= 3; e++ {
			univ = append(univ, iv{k.TS, s, k.TS, e})
		}
	}
	univ = append(univ, iv{k.NEG, 0, k.TS, 2}, iv{k.TS, 1, k.POS, 0}, iv{k.NEG, 0, k.POS, 0})
	low := func(x iv) int64 {
		if x.st == k.NEG {
			return lo
		}
		return x.s
	}
	high := func(x iv) int64 {
		if x.et == k.POS {
			return hi
		}
		return x.e
	}
	name := func(x iv) string {
		l, h := fmt.Sprint(x.s), fmt.Sprint(x.e)
		if x.st == k.NEG {
			l = "-inf"
		}
		if x.et == k.POS {
			h = "+inf"
		}
		return "[" + l + "," + h + "]"
	}
	back := func(v ordabs.Value) string {
		f, ok := recInterval(k, v)
		if !ok {
			return "?"
		}
		return name(iv{f.st, f.s, f.et, f.e})
	}
	var got []string
	collect := &ordabs.Stub{Name: "collect", Fn: func(in *ordabs.Interp, a []ordabs.Value) ([]ordabs.Value, error) {
		got = append(got, back(a[0]))
		return []ordabs.Value{nil}, nil
	}}
	bad, nseq := "", 0
	var checkInv func(n *ordabs.Obj) (h int64, maxEnd int64, mn, mx int64, problem string)
	checkInv = func(n *ordabs.Obj) (int64, int64, int64, int64, string) {
		if n == nil {
			return 0, lo, hi, lo, ""
		}
		f, ok := recInterval(k, n.Fields["interval"])
		if !ok {
			return 0, 0, 0, 0, "a node without an interval"
		}
		x := iv{f.st, f.s, f.et, f.e}
		l, _ := n.Fields["left"].(*ordabs.Obj)
		r, _ := n.Fields["right"].(*ordabs.Obj)
		lh, lm, lmn, lmx, p := checkInv(l)
		if p != "" {
			return 0, 0, 0, 0, p
		}
		rh, rm, rmn, rmx, p := checkInv(r)
		if p != "" {
			return 0, 0, 0, 0, p
		}
		if l != nil && lmx > low(x) {
			return 0, 0, 0, 0, "search order broken: the left subtree of " + name(x) + " holds a later start"
		}
		if r != nil && rmn < low(x) {
			return 0, 0, 0, 0, "search order broken: the right subtree of " + name(x) + " holds an earlier start"
		}
		me := max64(high(x), lm, rm)
		if got, _ := n.Fields["maxEnd"].(int64); got != me {
			return 0, 0, 0, 0, fmt.Sprintf("max-end of node %s is %d, the largest end below it is %d", name(x), got, me)
		}
		h := lh
		if rh > h {
			h = rh
		}
		h++
		if got, _ := n.Fields["height"].(int64); got != h {
			return 0, 0, 0, 0, fmt.Sprintf("height of node %s is %d, want %d", name(x), got, h)
		}
		if d := lh - rh; d > 1 || d < -1 {
			return 0, 0, 0, 0, fmt.Sprintf("node %s is out of balance (subtree heights %d and %d)", name(x), lh, rh)
		}
		mn, mx := low(x), low(x)
		if l != nil && lmn < mn {
			mn = lmn
		}
		if r != nil && rmx > mx {
			mx = rmx
		}
		return h, me, mn, mx, ""
	}
	runSeq := func(seq []int) bool {
		tree := &ordabs.Obj{Name: "tree", Fields: map[string]ordabs.Value{"root": (*ordabs.Obj)(nil), "size": int64(0)}, T: "factstore.IntervalTree"}
		model := map[string]iv{}
		var desc []string
		for _, i := range seq {
			x := univ[i]
			desc = append(desc, name(x))
			in.Reset()
			in.Fuel = 400000
			out, err := in.Call(ins, tree, []ordabs.Value{k.iv(x.st, x.s, x.et, x.e)})
			if !runORD(c, rC13Whole, ins.Name, ins, err) {
				return false
			}
			_, dup := model[name(x)]
			if added, _ := out[0].(bool); added == dup && bad == "" {
				bad = fmt.Sprintf("inserting %s: Insert returned %v for an interval that was %s", strings.Join(desc, ", "), added, map[bool]string{true: "already stored", false: "new"}[dup])
			}
			model[name(x)] = x
		}
		nseq++
		if bad != "" {
			return true
		}
		d := strings.Join(desc, ", ")
		in.Reset()
		out, err := in.Call(size, tree, nil)
		if !runORD(c, rC13Whole, size.Name, size, err) {
			return false
		}
		if n, _ := out[0].(int64); int(n) != len(model) {
			bad = fmt.Sprintf("after inserting %s: Size() = %d, %d distinct intervals were inserted", d, n, len(model))
			return true
		}
		root, _ := tree.Fields["root"].(*ordabs.Obj)
		if _, _, _, _, p := checkInv(root); p != "" {
			bad = "after inserting " + d + ": " + p
			return true
		}
		want := func(pred func(iv) bool) string {
			var w []string
			for n, x := range model {
				if pred(x) {
					w = append(w, n)
				}
			}
			sort.Strings(w)
			return strings.Join(w, " ")
		}
		sorted := func() string { s := append([]string{}, got...); sort.Strings(s); return strings.Join(s, " ") }
		got = nil
		in.Reset()
		in.Fuel = 400000
		if _, err := in.Call(all, tree, []ordabs.Value{collect}); !runORD(c, rC13Whole, all.Name, all, err) {
			return false
		}
		if g, w := sorted(), want(func(iv) bool { return true }); g != w {
			bad = fmt.Sprintf("after inserting %s: a full scan yields {%s}, want {%s}", d, g, w)
			return true
		}
		for t := int64(-1); t <= 4; t++ {
			got = nil
			in.Reset()
			in.Fuel = 400000
			if _, err := in.Call(qp, tree, []ordabs.Value{t, collect}); !runORD(c, rC13Whole, qp.Name, qp, err) {
				return false
			}
			if g, w := sorted(), want(func(x iv) bool { return low(x) <= t && t <= high(x) }); g != w {
				bad = fmt.Sprintf("after inserting %s: the point query at %d yields {%s}, want {%s}", d, t, g, w)
				return true
			}
		}
		for s := int64(-1); s <= 4; s++ {
			for e := s; e <= 4; e++ {
				got = nil
				in.Reset()
				in.Fuel = 400000
				if _, err := in.Call(qr, tree, []ordabs.Value{s, e, collect}); !runORD(c, rC13Whole, qr.Name, qr, err) {
					return false
				}
				if g, w := sorted(), want(func(x iv) bool { return low(x) <= e && s <= high(x) }); g != w {
					bad = fmt.Sprintf("after inserting %s: the range query [%d,%d] yields {%s}, want {%s}", d, s, e, g, w)
					return true
				}
			}
		}
		return true
	}
	// quick: all sequences of three over seven intervals; thorough: of three over all thirteen and of four over the seven
	pick := []int{0, 3, 4, 5, 8, 10, 11} // [0,0] [0,3] [1,1] [1,2] [2,3] [-inf,2] [1,+inf]
	n := 3
	choices := pick
	seq := make([]int, 4)
	var rec func(i int) bool
	rec = func(i int) bool {
		if i == n {
			return runSeq(seq[:n]) && bad == ""
		}
		for _, x := range choices {
			seq[i] = x
			if !rec(i + 1) {
				return false
			}
		}
		return true
	}
	rec(0)
	if c.Tier == "thorough" && bad == "" {
		choices = nil
		for x := range univ {
			choices = append(choices, x)
		}
		rec(0)
		if bad == "" {
			n, choices = 4, pick
			rec(0)
		}
	}
	// long monotone runs force repeated single and double rotations
	if bad == "" {
		closed := 10
		for start := 0; start+6 <= closed && bad == ""; start++ {
			asc := []int{start, start + 1, start + 2, start + 3, start + 4, start + 5}
			desc := []int{start + 5, start + 4, start + 3, start + 2, start + 1, start}
			zig := []int{start, start + 5, start + 1, start + 4, start + 2, start + 3}
			for _, s := range [][]int{asc, desc, zig} {
				if !runSeq(s) {
					return
				}
			}
		}
	}
	c.Cover("insertion_sequences", nseq)
	c.Check(bad == "", rC13Whole, ins.Name, ins.Decl.Pos(), fmt.Sprintf("%d insertion sequences: answers of a set of intervals, tree invariants kept", nseq), bad)
}

const rC13Store = "ORDABS.store-queries"

// c13StoreQueries: the temporal store as a whole - NewTemporalStore, Add, GetFactsAt, GetFactsDuring, ContainsAt,
// GetAllFacts and EstimateFactCount with the real interval tree below them, all read from source - on every
// sequence of three insertions of (atom, interval) pairs over two atoms and four intervals: the answers are those
// of the set of stored pairs under the closed-interval meaning. This decides, by its effect, that the store hands
// the query instant / the query range's own bounds to the tree and the matching atoms to the caller.
func c13StoreQueries(c *core.Ctx, k *tkit) {
	c.Rule(rC13Store, "NewTemporalStore, TemporalStore.Add, GetFactsAt, GetFactsDuring, ContainsAt, GetAllFacts and EstimateFactCount, read from source with the interval tree below them, evaluated on every sequence of three insertions over two atoms and four intervals (one unbounded to the left): an exact duplicate is refused, a point query yields exactly the stored pairs whose closed interval contains the instant, a range query exactly those intersecting the range (for an all-variable and for a constant query atom), ContainsAt agrees with them, the full scan yields every pair once and the count is their number", 1)
	ctor := c.MustFunc(rC13Store, "factstore", "NewTemporalStore")
	add := c.MustFunc(rC13Store, "factstore", "TemporalStore.Add")
	at := c.MustFunc(rC13Store, "factstore", "TemporalStore.GetFactsAt")
	during := c.MustFunc(rC13Store, "factstore", "TemporalStore.GetFactsDuring")
	contains := c.MustFunc(rC13Store, "factstore", "TemporalStore.ContainsAt")
	all := c.MustFunc(rC13Store, "factstore", "TemporalStore.GetAllFacts")
	cnt := c.MustFunc(rC13Store, "factstore", "TemporalStore.EstimateFactCount")
	if ctor == nil || add == nil || at == nil || during == nil || contains == nil || all == nil || cnt == nil {
		return
	}
	ak := &astKit{c: c, ok: true}
	ck := newConstKit(c, rC13Store)
	if !ck.ok {
		return
	}
	r := newStoreRig(c, ak, ck, storeImpl{"TemporalStore", "NewTemporalStore"}, false)
	r.in.InstallTimeStubs()
	r.in.Globals = map[string]ordabs.Value{"factstore.ErrIntervalLimitExceeded": ordabs.ErrVal{Tag: "ErrIntervalLimitExceeded"}}
	const lo, hi = int64(-1 << 63), int64(1<<63 - 1)
	type iv struct{ st, s, et, e int64 }
	ivs := []iv{{k.TS, 0, k.TS, 1}, {k.TS, 1, k.TS, 3}, {k.TS, 2, k.TS, 2}, {k.NEG, 0, k.TS, 1}}
	low := func(x iv) int64 {
		if x.st == k.NEG {
			return lo
		}
		return x.s
	}
	atoms := []*ordabs.Rec{r.mkAtom("p", 1), r.mkAtom("p", 2)}
	type pair struct {
		a int
		x iv
	}
	var univ []pair
	for a := range atoms {
		for _, x := range ivs {
			univ = append(univ, pair{a, x})
		}
	}
	nameOf := func(p pair) string {
		l := fmt.Sprint(p.x.s)
		if p.x.st == k.NEG {
			l = "-inf"
		}
		return fmt.Sprintf("p(%d)@[%s,%d]", p.a+1, l, p.x.e)
	}
	var got []string
	cb := &ordabs.Stub{Name: "cb", Fn: func(in *ordabs.Interp, a []ordabs.Value) ([]ordabs.Value, error) {
		tf, _ := a[0].(*ordabs.Rec)
		if tf == nil {
			got = append(got, "?")
			return []ordabs.Value{nil}, nil
		}
		f, _ := recInterval(k, tf.Fields["Interval"])
		l := fmt.Sprint(f.s)
		if f.st == k.NEG {
			l = "-inf"
		}
		got = append(got, fmt.Sprintf("%s@[%s,%d]", atomKey(tf.Fields["Atom"]), l, f.e))
		return []ordabs.Value{nil}, nil
	}}
	bad, nseq := "", 0
	fail := func(f *core.Func, err error) bool { return !runORD(c, rC13Store, f.Name, f, err) }
	run := func(seq []int) bool {
		empty := []ordabs.Value{}
		r.in.Reset()
		out, err := r.in.Call(ctor, nil, []ordabs.Value{&ordabs.Slice{Elems: &empty}})
		if fail(ctor, err) {
			return false
		}
		store := out[0]
		model := map[string]pair{}
		var desc []string
		for _, i := range seq {
			p := univ[i]
			desc = append(desc, nameOf(p))
			r.in.Reset()
			r.in.Fuel = 400000
			o, err := r.in.Call(add, store, []ordabs.Value{atoms[p.a], k.iv(p.x.st, p.x.s, p.x.et, p.x.e)})
			if fail(add, err) {
				return false
			}
			_, dup := model[nameOf(p)]
			if added, _ := o[0].(bool); (added == dup || o[1] != nil) && bad == "" {
				bad = fmt.Sprintf("adding %s: Add returned (%v, %v), want (%v, nil)", strings.Join(desc, ", "), o[0], o[1], !dup)
			}
			model[nameOf(p)] = p
		}
		nseq++
		if bad != "" {
			return true
		}
		d := strings.Join(desc, ", ")
		want := func(pred func(pair) bool) string {
			var w []string
			for n, p := range model {
				if pred(p) {
					w = append(w, n)
				}
			}
			sort.Strings(w)
			return strings.Join(w, " ")
		}
		sorted := func() string { s := append([]string{}, got...); sort.Strings(s); return strings.Join(s, " ") }
		queries := []struct {
			q    *ordabs.Rec
			name string
			ok   func(pair) bool
		}{{r.mkAtom("p", -1), "p(X)", func(pair) bool { return true }}, {r.mkAtom("p", 2), "p(2)", func(p pair) bool { return p.a == 1 }}}
		r.in.Reset()
		o, err := r.in.Call(cnt, store, nil)
		if fail(cnt, err) {
			return false
		}
		if n, _ := o[0].(int64); int(n) != len(model) {
			bad = fmt.Sprintf("after adding %s: EstimateFactCount = %d, %d pairs are stored", d, n, len(model))
			return true
		}
		for _, q := range queries {
			got = nil
			r.in.Reset()
			r.in.Fuel = 400000
			if _, err := r.in.Call(all, store, []ordabs.Value{q.q, cb}); fail(all, err) {
				return false
			}
			if g, w := sorted(), want(q.ok); g != w {
				bad = fmt.Sprintf("after adding %s: the full scan for %s yields {%s}, want {%s}", d, q.name, g, w)
				return true
			}
			for t := int64(-1); t <= 4; t++ {
				got = nil
				r.in.Reset()
				r.in.Fuel = 400000
				if _, err := r.in.Call(at, store, []ordabs.Value{q.q, ordabs.TimeVal{NS: t}, cb}); fail(at, err) {
					return false
				}
				if g, w := sorted(), want(func(p pair) bool { return q.ok(p) && low(p.x) <= t && t <= p.x.e }); g != w {
					bad = fmt.Sprintf("after adding %s: the point query %s at %d yields {%s}, want {%s}", d, q.name, t, g, w)
					return true
				}
			}
			for s := int64(-1); s <= 4; s++ {
				for e := s; e <= 4; e++ {
					got = nil
					r.in.Reset()
					r.in.Fuel = 400000
					if _, err := r.in.Call(during, store, []ordabs.Value{q.q, k.tsiv(s, e), cb}); fail(during, err) {
						return false
					}
					if g, w := sorted(), want(func(p pair) bool { return q.ok(p) && low(p.x) <= e && s <= p.x.e }); g != w {
						bad = fmt.Sprintf("after adding %s: the range query %s during [%d,%d] yields {%s}, want {%s}", d, q.name, s, e, g, w)
						return true
					}
				}
			}
		}
		for ai, a := range atoms {
			for t := int64(-1); t <= 4; t++ {
				r.in.Reset()
				r.in.Fuel = 400000
				o, err := r.in.Call(contains, store, []ordabs.Value{a, ordabs.TimeVal{NS: t}})
				if fail(contains, err) {
					return false
				}
				w := want(func(p pair) bool { return p.a == ai && low(p.x) <= t && t <= p.x.e }) != ""
				if g, _ := o[0].(bool); g != w {
					bad = fmt.Sprintf("after adding %s: ContainsAt(p(%d), %d) = %v, want %v", d, ai+1, t, g, w)
					return true
				}
			}
		}
		return true
	}
	n := 3
	seq := make([]int, n)
	var rec func(i int) bool
	rec = func(i int) bool {
		if i == n {
			return run(seq) && bad == ""
		}
		for x := range univ {
			if c.Tier != "thorough" && i > 0 && x < seq[i-1]-4 {
				continue // quick: skip part of the orders (the tree's own orders are covered by the tree family)
			}
			seq[i] = x
			if !rec(i + 1) {
				return false
			}
		}
		return true
	}
	rec(0)
	c.Cover("store_histories", nseq)
	c.Check(bad == "", rC13Store, add.Name, add.Decl.Pos(), fmt.Sprintf("%d insertion histories answered by the pointwise meaning of intervals", nseq), bad)
}
