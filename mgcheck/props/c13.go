package props

import (
	"fmt"
	"go/ast"
	"go/token"
	"sort"
	"strings"

	"mgcheck/core"
	"mgcheck/ordabs"
)

func init() { register("C13", checkC13) }

const (
	rC13Query   = "ORDABS.tree-search"
	rC13Aug     = "ORD.augmentation"
	rC13Rot     = "ORDABS.rotation"
	rC13Bounds  = "ORDABS.interval-bounds"
	rC13Coal    = "ORDABS.coalesce"
	rC13Add     = "ORDABS.temporal-add"
	rC13Wire    = "TABLE.query-wiring"
)

func checkC13(c *core.Ctx) {
	c.Rule(rC13Query, "each recursive search of the interval tree (queryPoint, queryRange, findExact, insert) is evaluated at one node with symbolic children over every ordering of its integer inputs: it must emit the node exactly when the documented closed-interval condition holds, descend into a child whenever the BST/max-end invariants allow a match below, visit nothing twice, and propagate callback errors", 14)
	c.Rule(rC13Rot, "rotations preserve the in-order sequence and leave maxEnd of both rotated nodes equal to the maximum over their subtrees; updateMaxEnd computes that maximum; a new leaf starts with its own end", 5)
	c.Rule(rC13Bounds, "GetStartTime/GetEndTime/containsTimestamp map bound kinds to the closed-interval meaning (-inf, +inf, timestamp)", 3)
	c.Rule(rC13Coal, "coalesceIntervals, evaluated over all lists of up to 3 finite intervals on a 7-point line, keeps the point set and leaves finite intervals pairwise non-overlapping and non-adjacent; Coalesce adjusts the cached count by the number of removed intervals", 3)
	c.Rule(rC13Add, "TemporalStore.Add, evaluated with a stubbed tree over limits -1..3, sizes 0..4, valid and inverted intervals and both Insert results: an inverted interval and a reached limit (max > 0 && size >= max) return an error before any insertion, count moves only with a successful Insert; IntervalTree.Insert refuses what findExact finds and counts only real insertions", 4)
	c.Assume("interval-tree invariants assumed at children (inductive step): left subtree starts <= node start <= right subtree starts; child.maxEnd >= every end below it")

	k := newTkit(c, rC13Bounds)
	if !k.ok {
		return
	}
	c13Bounds(c, k)
	c13QueryPoint(c, k)
	c13QueryRange(c, k)
	c13FindExact(c, k)
	c13Insert(c, k)
	c13Rotations(c, k)
	c13Coalesce(c, k)
	c13Add(c, k)
	c13WholeTree(c, k)
	c13StoreQueries(c, k)
	hashPresenceTemporal(c)
}

// ---- bound kinds ----

func c13Bounds(c *core.Ctx, k *tkit) {
	in := ordabs.New(c.Prog)
	for _, side := range []string{"GetStartTime", "GetEndTime"} {
		f := c.MustFunc(rC13Bounds, "factstore", side)
		if f == nil {
			continue
		}
		bad := ""
		for _, tc := range []struct {
			typ  int64
			want int64
			name string
		}{{k.TS, 5, "timestamp"}, {k.NEG, k.MinI, "-inf"}, {k.POS, k.MaxI, "+inf"}} {
			iv := k.iv(k.TS, 3, k.TS, 4)
			if side == "GetStartTime" {
				iv = k.iv(tc.typ, 5, k.TS, 9)
			} else {
				iv = k.iv(k.TS, 1, tc.typ, 5)
			}
			in.Reset()
			out, err := in.Call(f, nil, []ordabs.Value{iv})
			if !runORD(c, rC13Bounds, f.Name, f, err) {
				bad = "unresolved"
				break
			}
			if got, _ := out[0].(int64); got != tc.want {
				bad = fmt.Sprintf("%s bound maps to %d, want %d", tc.name, got, tc.want)
				break
			}
		}
		if bad == "unresolved" {
			continue
		}
		c.Check(bad == "", rC13Bounds, f.Name, f.Decl.Pos(), "timestamp -> value, -inf -> MinInt64, +inf -> MaxInt64", bad)
	}
	f := c.MustFunc(rC13Bounds, "factstore", "containsTimestamp")
	if f == nil {
		return
	}
	bad, n := "", 0
	ordabs.Tuples(3, 3, func(v []int64) bool {
		s, e, t := v[0], v[1], v[2]
		for _, st := range []int64{k.TS, k.NEG} {
			for _, et := range []int64{k.TS, k.POS} {
				in.Reset()
				out, err := in.Call(f, nil, []ordabs.Value{k.iv(st, s, et, e), t})
				if !runORD(c, rC13Bounds, f.Name, f, err) {
					bad = "unresolved"
					return false
				}
				n++
				want := (st == k.NEG || s <= t) && (et == k.POS || t <= e)
				if got, _ := out[0].(bool); got != want {
					bad = fmt.Sprintf("start(kind %d)=%d end(kind %d)=%d t=%d: got %v want %v", st, s, et, e, t, got, want)
					return false
				}
			}
		}
		return true
	})
	if bad != "unresolved" {
		c.Check(bad == "", rC13Bounds, f.Name, f.Decl.Pos(), fmt.Sprintf("equals start <= t <= end on %d bound/ordering combinations", n), bad)
	}
}

// ---- tree node construction ----

type treeFix struct {
	node, left, right *ordabs.Obj
}

// mkNode builds node{interval [ns,ne], maxEnd m} with symbolic children.
func mkNode(k *tkit, ns, ne, m int64, withLeft, withRight bool) treeFix {
	var l, r *ordabs.Obj
	if withLeft {
		l = &ordabs.Obj{Name: "left-subtree", Opaque: true}
	}
	if withRight {
		r = &ordabs.Obj{Name: "right-subtree", Opaque: true}
	}
	n := &ordabs.Obj{Name: "node", Fields: map[string]ordabs.Value{
		"interval": k.tsiv(ns, ne), "maxEnd": m, "height": int64(2), "left": l, "right": r}}
	return treeFix{n, l, r}
}

func treeRecv() *ordabs.Obj {
	return &ordabs.Obj{Name: "tree", Fields: map[string]ordabs.Value{"root": (*ordabs.Obj)(nil), "size": int64(0)}}
}

func count(ev []string, s string) int {
	n := 0
	for _, e := range ev {
		if e == s {
			n++
		}
	}
	return n
}

// searchStubs installs stubs for the recursive call and returns the callback stub.
func searchStubs(in *ordabs.Interp, name string, fx *treeFix, failOn *string) *ordabs.Stub {
	in.Stubs[name] = func(in *ordabs.Interp, _ ordabs.Value, args []ordabs.Value) ([]ordabs.Value, error) {
		o, _ := args[0].(*ordabs.Obj)
		switch {
		case o == nil:
			in.Emit("descend-nil")
			return []ordabs.Value{nil}, nil
		case o == fx.left:
			in.Emit("left")
			if *failOn == "left" {
				return []ordabs.Value{ordabs.ErrVal{Tag: "E"}}, nil
			}
		case o == fx.right:
			in.Emit("right")
			if *failOn == "right" {
				return []ordabs.Value{ordabs.ErrVal{Tag: "E"}}, nil
			}
		default:
			in.Emit("descend-other")
		}
		return []ordabs.Value{nil}, nil
	}
	return &ordabs.Stub{Name: "fn", Fn: func(in *ordabs.Interp, args []ordabs.Value) ([]ordabs.Value, error) {
		in.Emit("emit")
		if *failOn == "emit" {
			return []ordabs.Value{ordabs.ErrVal{Tag: "E"}}, nil
		}
		return []ordabs.Value{nil}, nil
	}}
}

type cond struct {
	name string
	bad  string
}

func report(c *core.Ctx, rule string, f *core.Func, conds []*cond, n int) {
	for _, cd := range conds {
		c.Check(cd.bad == "", rule, f.Name+":"+cd.name, f.Decl.Pos(), fmt.Sprintf("holds on all %d abstract states", n), cd.bad)
	}
}

func c13QueryPoint(c *core.Ctx, k *tkit) {
	f := c.MustFunc(rC13Query, "factstore", "IntervalTree.queryPoint")
	if f == nil {
		return
	}
	in := ordabs.New(c.Prog)
	var fx treeFix
	failOn := ""
	cb := searchStubs(in, "factstore.IntervalTree.queryPoint", &fx, &failOn)
	emitIff := &cond{name: "emit-iff-contains"}
	leftC := &cond{name: "left-descent-complete"}
	rightC := &cond{name: "right-descent-complete"}
	once := &cond{name: "visits-at-most-once"}
	errP := &cond{name: "callback-error-propagates"}
	nilC := &cond{name: "nil-node-is-empty"}
	n := 0
	ok := true
	// nil node
	in.Reset()
	out, err := in.Call(f, treeRecv(), []ordabs.Value{(*ordabs.Obj)(nil), int64(1), cb})
	if !runORD(c, rC13Query, f.Name, f, err) {
		return
	}
	if len(in.Events) != 0 || out[0] != nil {
		nilC.bad = fmt.Sprintf("nil node produced events %v result %v", in.Events, out[0])
	}
	const K = 4
	ordabs.Tuples(4, K, func(v []int64) bool {
		ts, ns, ne, m := v[0], v[1], v[2], v[3]
		if m < ne {
			return true // invariant: maxEnd >= own end
		}
		fx = mkNode(k, ns, ne, m, true, true)
		failOn = ""
		in.Reset()
		out, err := in.Call(f, treeRecv(), []ordabs.Value{fx.node, ts, cb})
		if !runORD(c, rC13Query, f.Name, f, err) {
			ok = false
			return false
		}
		n++
		st := fmt.Sprintf("t=%d node=[%d,%d] maxEnd=%d events=%v", ts, ns, ne, m, in.Events)
		emitted := count(in.Events, "emit")
		if want := ns <= ts && ts <= ne; (emitted > 0) != want && emitIff.bad == "" {
			emitIff.bad = fmt.Sprintf("%s: node emitted=%v but closed interval contains t=%v", st, emitted > 0, want)
		}
		if (emitted > 1 || count(in.Events, "left") > 1 || count(in.Events, "right") > 1) && once.bad == "" {
			once.bad = st + ": something visited twice (duplicate results)"
		}
		if out[0] != nil && errP.bad == "" {
			errP.bad = st + ": returned an error although no callback failed"
		}
		// is there an interval [s,e] allowed below that contains ts?
		for s := int64(0); s < K; s++ {
			for e := int64(0); e <= m && e < K; e++ {
				if !(s <= ts && ts <= e) {
					continue
				}
				if s <= ns && count(in.Events, "left") == 0 && leftC.bad == "" {
					leftC.bad = fmt.Sprintf("%s: left subtree may hold [%d,%d] containing t but was not searched", st, s, e)
				}
				if s >= ns && count(in.Events, "right") == 0 && rightC.bad == "" {
					rightC.bad = fmt.Sprintf("%s: right subtree may hold [%d,%d] containing t but was not searched", st, s, e)
				}
			}
		}
		// error propagation
		for _, fo := range []string{"left", "emit", "right"} {
			if count(in.Events, fo) == 0 {
				continue
			}
			failOn = fo
			in.Reset()
			out, err := in.Call(f, treeRecv(), []ordabs.Value{fx.node, ts, cb})
			if !runORD(c, rC13Query, f.Name, f, err) {
				ok = false
				return false
			}
			if _, isErr := out[0].(ordabs.ErrVal); !isErr && errP.bad == "" {
				errP.bad = fmt.Sprintf("%s: error from %s was dropped", st, fo)
			}
		}
		return true
	})
	if ok {
		report(c, rC13Query, f, []*cond{nilC, emitIff, leftC, rightC, once, errP}, n)
	}
}

func c13QueryRange(c *core.Ctx, k *tkit) {
	f := c.MustFunc(rC13Query, "factstore", "IntervalTree.queryRange")
	if f == nil {
		return
	}
	in := ordabs.New(c.Prog)
	var fx treeFix
	failOn := ""
	cb := searchStubs(in, "factstore.IntervalTree.queryRange", &fx, &failOn)
	emitIff := &cond{name: "emit-iff-overlaps"}
	leftC := &cond{name: "left-descent-complete"}
	rightC := &cond{name: "right-descent-complete"}
	once := &cond{name: "visits-at-most-once"}
	n := 0
	ok := true
	const K = 5
	ordabs.Tuples(5, K, func(v []int64) bool {
		qs, qe, ns, ne, m := v[0], v[1], v[2], v[3], v[4]
		if m < ne {
			return true
		}
		fx = mkNode(k, ns, ne, m, true, true)
		in.Reset()
		_, err := in.Call(f, treeRecv(), []ordabs.Value{fx.node, qs, qe, cb})
		if !runORD(c, rC13Query, f.Name, f, err) {
			ok = false
			return false
		}
		n++
		st := fmt.Sprintf("range=[%d,%d] node=[%d,%d] maxEnd=%d events=%v", qs, qe, ns, ne, m, in.Events)
		emitted := count(in.Events, "emit")
		if want := ns <= qe && qs <= ne; (emitted > 0) != want && emitIff.bad == "" {
			emitIff.bad = fmt.Sprintf("%s: emitted=%v but intervals intersect=%v", st, emitted > 0, want)
		}
		if (emitted > 1 || count(in.Events, "left") > 1 || count(in.Events, "right") > 1) && once.bad == "" {
			once.bad = st + ": something visited twice"
		}
		for s := int64(0); s < K; s++ {
			for e := int64(0); e <= m && e < K; e++ {
				if !(s <= qe && qs <= e) {
					continue
				}
				if s <= ns && count(in.Events, "left") == 0 && leftC.bad == "" {
					leftC.bad = fmt.Sprintf("%s: left subtree may hold [%d,%d] intersecting the range but was not searched", st, s, e)
				}
				if s >= ns && count(in.Events, "right") == 0 && rightC.bad == "" {
					rightC.bad = fmt.Sprintf("%s: right subtree may hold [%d,%d] intersecting the range but was not searched", st, s, e)
				}
			}
		}
		return true
	})
	if ok {
		report(c, rC13Query, f, []*cond{emitIff, leftC, rightC, once}, n)
	}
}

func c13FindExact(c *core.Ctx, k *tkit) {
	f := c.MustFunc(rC13Query, "factstore", "IntervalTree.findExact")
	if f == nil {
		return
	}
	in := ordabs.New(c.Prog)
	var fx treeFix
	var bL, bR bool
	in.Stubs["factstore.IntervalTree.findExact"] = func(in *ordabs.Interp, _ ordabs.Value, args []ordabs.Value) ([]ordabs.Value, error) {
		o, _ := args[0].(*ordabs.Obj)
		switch {
		case o == fx.left && o != nil:
			in.Emit("left")
			return []ordabs.Value{bL}, nil
		case o == fx.right && o != nil:
			in.Emit("right")
			return []ordabs.Value{bR}, nil
		}
		in.Emit("nil")
		return []ordabs.Value{false}, nil
	}
	res := &cond{name: "found-iff-present"}
	n := 0
	ok := true
	ordabs.Tuples(4, 3, func(v []int64) bool {
		qs, qe, ns, ne := v[0], v[1], v[2], v[3]
		for _, bl := range []bool{false, true} {
			for _, br := range []bool{false, true} {
				// a subtree can only hold the sought interval where the BST order allows it
				if (bl && !(qs <= ns)) || (br && !(qs >= ns)) {
					continue
				}
				bL, bR = bl, br
				fx = mkNode(k, ns, ne, max64(ne, qe), true, true)
				in.Reset()
				out, err := in.Call(f, treeRecv(), []ordabs.Value{fx.node, k.tsiv(qs, qe)})
				if !runORD(c, rC13Query, f.Name, f, err) {
					ok = false
					return false
				}
				n++
				eq := qs == ns && qe == ne
				want := eq || bl || br
				if got, _ := out[0].(bool); got != want && res.bad == "" {
					res.bad = fmt.Sprintf("sought=[%d,%d] node=[%d,%d] in-left=%v in-right=%v: findExact=%v, want %v (events %v)", qs, qe, ns, ne, bl, br, got, want, in.Events)
				}
			}
		}
		return true
	})
	if ok {
		report(c, rC13Query, f, []*cond{res}, n)
	}
}

func c13Insert(c *core.Ctx, k *tkit) {
	f := c.MustFunc(rC13Query, "factstore", "IntervalTree.insert")
	if f == nil {
		return
	}
	in := ordabs.New(c.Prog)
	var fx treeFix
	var child *ordabs.Obj
	in.Stubs["factstore.IntervalTree.insert"] = func(in *ordabs.Interp, _ ordabs.Value, args []ordabs.Value) ([]ordabs.Value, error) {
		o, _ := args[0].(*ordabs.Obj)
		switch {
		case o == fx.left:
			in.Emit("left")
		case o == fx.right:
			in.Emit("right")
		default:
			in.Emit("other")
		}
		return []ordabs.Value{child}, nil
	}
	dir := &cond{name: "placement-respects-order"}
	aug := &cond{name: "maxEnd-after-insert"}
	leaf := &cond{name: "new-leaf"}
	// new leaf
	in.Reset()
	out, err := in.Call(f, treeRecv(), []ordabs.Value{(*ordabs.Obj)(nil), k.tsiv(2, 7)})
	if !runORD(c, rC13Query, f.Name, f, err) {
		return
	}
	if o, _ := out[0].(*ordabs.Obj); o == nil {
		leaf.bad = "insert(nil, iv) did not return a node"
	} else {
		iv, _ := o.Fields["interval"].(*ordabs.Rec)
		l, _ := o.Fields["left"].(*ordabs.Obj)
		r, _ := o.Fields["right"].(*ordabs.Obj)
		if m, _ := o.Fields["maxEnd"].(int64); m != 7 || iv == nil || l != nil || r != nil {
			leaf.bad = fmt.Sprintf("new leaf for [2,7] has maxEnd=%v left=%v right=%v (want 7, nil, nil)", o.Fields["maxEnd"], l, r)
		}
	}
	n := 0
	ok := true
	ordabs.Tuples(6, 3, func(v []int64) bool {
		qs, qe, ns, ne, lm, rm := v[0], v[1], v[2], v[3], v[4], v[5]
		if qs > qe {
			return true
		}
		// concrete children with equal heights so that no rotation is chosen
		mk := func(name string, m int64) *ordabs.Obj {
			return &ordabs.Obj{Name: name, Fields: map[string]ordabs.Value{"interval": k.tsiv(0, m), "maxEnd": m, "height": int64(1), "left": (*ordabs.Obj)(nil), "right": (*ordabs.Obj)(nil)}}
		}
		l, r := mk("L", lm), mk("R", rm)
		node := &ordabs.Obj{Name: "node", Fields: map[string]ordabs.Value{"interval": k.tsiv(ns, ne), "maxEnd": max64(ne, lm, rm), "height": int64(2), "left": l, "right": r}}
		fx = treeFix{node, l, r}
		// the recursive insert returns the child subtree now holding [qs,qe]
		child = mk("C", 0)
		in.Reset()
		// child maxEnd: at least the old one of that side and the new end; decided after we know the side,
		// so run twice: first to learn the side.
		out, err := in.Call(f, treeRecv(), []ordabs.Value{node, k.tsiv(qs, qe)})
		if !runORD(c, rC13Query, f.Name, f, err) {
			ok = false
			return false
		}
		n++
		left, right := count(in.Events, "left"), count(in.Events, "right")
		st := fmt.Sprintf("new=[%d,%d] node=[%d,%d] events=%v", qs, qe, ns, ne, in.Events)
		if left+right != 1 && dir.bad == "" {
			dir.bad = st + ": the interval must go into exactly one subtree"
		}
		if left == 1 && !(qs <= ns) && dir.bad == "" {
			dir.bad = st + ": placed left although its start is greater than the node's (searches prune left for such starts)"
		}
		if right == 1 && !(qs >= ns) && dir.bad == "" {
			dir.bad = st + ": placed right although its start is smaller than the node's (searches prune right for such starts)"
		}
		// augmentation: redo with a child whose maxEnd reflects the insertion
		side := lm
		if right == 1 {
			side = rm
		}
		child = mk("C", max64(side, qe))
		node.Fields["left"], node.Fields["right"], node.Fields["maxEnd"] = l, r, max64(ne, lm, rm)
		in.Reset()
		out, err = in.Call(f, treeRecv(), []ordabs.Value{node, k.tsiv(qs, qe)})
		if !runORD(c, rC13Query, f.Name, f, err) {
			ok = false
			return false
		}
		if root, _ := out[0].(*ordabs.Obj); root == node {
			lo, _ := node.Fields["left"].(*ordabs.Obj)
			ro, _ := node.Fields["right"].(*ordabs.Obj)
			want := ne
			if lo != nil {
				want = max64(want, lo.Fields["maxEnd"].(int64))
			}
			if ro != nil {
				want = max64(want, ro.Fields["maxEnd"].(int64))
			}
			if got, _ := node.Fields["maxEnd"].(int64); got != want && aug.bad == "" {
				aug.bad = fmt.Sprintf("%s: node.maxEnd=%d after insert, subtree maximum is %d", st, got, want)
			}
		}
		return true
	})
	if ok {
		report(c, rC13Query, f, []*cond{leaf, dir, aug}, n)
	}
}

// ---- rotations and updateMaxEnd ----

func inorder(o *ordabs.Obj, out *[]string, depth int) {
	if o == nil || depth > 8 {
		return
	}
	if o.Opaque {
		*out = append(*out, o.Name)
		return
	}
	l, _ := o.Fields["left"].(*ordabs.Obj)
	r, _ := o.Fields["right"].(*ordabs.Obj)
	inorder(l, out, depth+1)
	*out = append(*out, o.Name)
	inorder(r, out, depth+1)
}

func subtreeMax(o *ordabs.Obj, depth int) int64 {
	if o == nil || depth > 8 {
		return -1 << 62
	}
	m := o.Fields["end"].(int64)
	if l, _ := o.Fields["left"].(*ordabs.Obj); l != nil {
		m = max64(m, subtreeMax(l, depth+1))
	}
	if r, _ := o.Fields["right"].(*ordabs.Obj); r != nil {
		m = max64(m, subtreeMax(r, depth+1))
	}
	return m
}

func c13Rotations(c *core.Ctx, k *tkit) {
	in := ordabs.New(c.Prog)
	leaf := func(name string, e int64, present bool) *ordabs.Obj {
		if !present {
			return nil
		}
		return &ordabs.Obj{Name: name, Fields: map[string]ordabs.Value{"interval": k.tsiv(0, e), "end": e, "maxEnd": e, "height": int64(1), "left": (*ordabs.Obj)(nil), "right": (*ordabs.Obj)(nil)}}
	}
	inner := func(name string, e int64, l, r *ordabs.Obj) *ordabs.Obj {
		m := e
		if l != nil {
			m = max64(m, l.Fields["maxEnd"].(int64))
		}
		if r != nil {
			m = max64(m, r.Fields["maxEnd"].(int64))
		}
		return &ordabs.Obj{Name: name, Fields: map[string]ordabs.Value{"interval": k.tsiv(0, e), "end": e, "maxEnd": m, "height": int64(2), "left": l, "right": r}}
	}
	for _, side := range []string{"rotateRight", "rotateLeft"} {
		f := c.MustFunc(rC13Rot, "factstore", "IntervalTree."+side)
		if f == nil {
			continue
		}
		order := &cond{name: "in-order-preserved"}
		aug := &cond{name: "maxEnd-of-both-nodes"}
		n, ok := 0, true
		ordabs.Tuples(5, 3, func(v []int64) bool {
			for mask := 0; mask < 8; mask++ {
				a := leaf("A", v[0], mask&1 != 0)
				b := leaf("B", v[1], mask&2 != 0)
				cc := leaf("C", v[2], mask&4 != 0)
				var top, low *ordabs.Obj
				if side == "rotateRight" {
					low = inner("x", v[3], a, b)
					top = inner("y", v[4], low, cc)
				} else {
					low = inner("y", v[3], b, cc)
					top = inner("x", v[4], a, low)
				}
				var before []string
				inorder(top, &before, 0)
				in.Reset()
				out, err := in.Call(f, treeRecv(), []ordabs.Value{top})
				if !runORD(c, rC13Rot, f.Name, f, err) {
					ok = false
					return false
				}
				n++
				root, _ := out[0].(*ordabs.Obj)
				var after []string
				inorder(root, &after, 0)
				st := fmt.Sprintf("ends A=%d B=%d C=%d low=%d top=%d present=%03b", v[0], v[1], v[2], v[3], v[4], mask)
				if strings.Join(before, " ") != strings.Join(after, " ") && order.bad == "" {
					order.bad = fmt.Sprintf("%s: in-order was %v, is %v after %s", st, before, after, side)
				}
				for _, nd := range []*ordabs.Obj{top, low} {
					if got, want := nd.Fields["maxEnd"].(int64), subtreeMax(nd, 0); got != want && aug.bad == "" {
						aug.bad = fmt.Sprintf("%s: after %s node %s has maxEnd=%d but the largest end in its subtree is %d", st, side, nd.Name, got, want)
					}
				}
			}
			return true
		})
		if ok {
			report(c, rC13Rot, f, []*cond{order, aug}, n)
		}
	}
	f := c.MustFunc(rC13Rot, "factstore", "updateMaxEnd")
	if f == nil {
		return
	}
	res := &cond{name: "is-subtree-maximum"}
	n, ok := 0, true
	ordabs.Tuples(3, 3, func(v []int64) bool {
		for mask := 0; mask < 4; mask++ {
			nd := inner("n", v[0], leaf("L", v[1], mask&1 != 0), leaf("R", v[2], mask&2 != 0))
			nd.Fields["maxEnd"] = int64(-7)
			in.Reset()
			_, err := in.Call(f, nil, []ordabs.Value{nd})
			if !runORD(c, rC13Rot, f.Name, f, err) {
				ok = false
				return false
			}
			n++
			if got, want := nd.Fields["maxEnd"].(int64), subtreeMax(nd, 0); got != want && res.bad == "" {
				res.bad = fmt.Sprintf("own end %d, left %d, right %d (present %02b): maxEnd=%d want %d", v[0], v[1], v[2], mask, got, want)
			}
		}
		return true
	})
	if ok {
		report(c, rC13Rot, f, []*cond{res}, n)
	}
}

// ---- augmentation ordering on the CFG ----

func c13Coalesce(c *core.Ctx, k *tkit) {
	f := c.MustFunc(rC13Coal, "factstore", "coalesceIntervals")
	if f == nil {
		return
	}
	in := ordabs.New(c.Prog)
	in.StubSortSlice()
	pts := &cond{name: "point-set-preserved"}
	sep := &cond{name: "finite-results-separated"}
	inf := &cond{name: "unbounded-intervals-kept"}
	const K = 7
	type iv struct{ s, e int64 }
	var all []iv
	for s := int64(0); s < K; s++ {
		for e := s; e < K; e++ {
			all = append(all, iv{s, e})
		}
	}
	n, ok := 0, true
	run := func(list []iv, extra *ordabs.Rec) bool {
		var elems []ordabs.Value
		for _, x := range list {
			elems = append(elems, k.tsiv(x.s, x.e))
		}
		if extra != nil {
			elems = append(elems, extra)
		}
		in.Reset()
		in.Fuel = 1000000
		out, err := in.Call(f, nil, []ordabs.Value{&ordabs.Slice{Elems: &elems}})
		if !runORD(c, rC13Coal, f.Name, f, err) {
			ok = false
			return false
		}
		n++
		res, _ := out[0].(*ordabs.Slice)
		var got []iv
		sawExtra := false
		if res != nil {
			for _, e := range *res.Elems {
				r := e.(*ordabs.Rec)
				sb, eb := r.Fields["Start"].(*ordabs.Rec), r.Fields["End"].(*ordabs.Rec)
				if sb.Fields["Type"].(int64) != k.TS || eb.Fields["Type"].(int64) != k.TS {
					sawExtra = true
					continue
				}
				got = append(got, iv{sb.Fields["Timestamp"].(int64), eb.Fields["Timestamp"].(int64)})
			}
		}
		st := fmt.Sprintf("input %v -> output %v", list, got)
		if extra != nil && !sawExtra && inf.bad == "" {
			inf.bad = st + ": the unbounded interval of the input is missing from the result"
		}
		for t := int64(-1); t <= K; t++ {
			a, b := false, false
			for _, x := range list {
				a = a || (x.s <= t && t <= x.e)
			}
			for _, x := range got {
				b = b || (x.s <= t && t <= x.e)
			}
			if a != b && pts.bad == "" {
				pts.bad = fmt.Sprintf("%s: instant %d holds before=%v after=%v", st, t, a, b)
			}
		}
		if len(list) > 1 || extra == nil {
			for i := range got {
				for j := range got {
					if i != j && got[i].s <= got[j].e+1 && got[j].s <= got[i].e+1 && sep.bad == "" {
						sep.bad = fmt.Sprintf("%s: results [%d,%d] and [%d,%d] overlap or touch", st, got[i].s, got[i].e, got[j].s, got[j].e)
					}
				}
			}
		}
		return true
	}
	for _, a := range all {
		for _, b := range all {
			if !run([]iv{a, b}, nil) {
				return
			}
			if !run([]iv{a, b}, k.iv(k.TS, 2, k.POS, 0)) {
				return
			}
			if a.e < 5 && b.e < 5 {
				for _, d := range all {
					if d.e < 5 && !run([]iv{a, b, d}, nil) {
						return
					}
				}
			}
		}
	}
	// boundary values: the same law at the ends of the int64 nanosecond line, where "adjacent" (next.start == end+1)
	// computed by subtraction or addition would overflow. The expected result is computed with overflow-free tests.
	bnd := &cond{name: "boundary-timestamps"}
	if ok {
		const lo, hi = int64(-1 << 63), int64(1<<63 - 1)
		qs := []int64{lo, lo + 1, -1, 0, 1, hi - 1, hi}
		var ivs []iv
		for i, a := range qs {
			for _, b := range qs[i:] {
				ivs = append(ivs, iv{a, b})
			}
		}
		for _, a := range ivs {
			for _, b := range ivs {
				var elems []ordabs.Value
				elems = append(elems, k.tsiv(a.s, a.e), k.tsiv(b.s, b.e))
				in.Reset()
				in.Fuel = 1000000
				out, err := in.Call(f, nil, []ordabs.Value{&ordabs.Slice{Elems: &elems}})
				if !runORD(c, rC13Coal, f.Name, f, err) {
					ok = false
					break
				}
				n++
				x, y := a, b
				if y.s < x.s || (y.s == x.s && y.e < x.e) {
					x, y = y, x
				}
				var want []iv
				if y.s <= x.e || (x.e < hi && y.s == x.e+1) {
					e := x.e
					if y.e > e {
						e = y.e
					}
					want = []iv{{x.s, e}}
				} else {
					want = []iv{x, y}
				}
				var got []iv
				if res, _ := out[0].(*ordabs.Slice); res != nil {
					for _, e := range *res.Elems {
						r := e.(*ordabs.Rec)
						got = append(got, iv{r.Fields["Start"].(*ordabs.Rec).Fields["Timestamp"].(int64), r.Fields["End"].(*ordabs.Rec).Fields["Timestamp"].(int64)})
					}
				}
				sort.Slice(got, func(i, j int) bool { return got[i].s < got[j].s })
				if fmt.Sprint(got) != fmt.Sprint(want) && bnd.bad == "" {
					bnd.bad = fmt.Sprintf("input [%d,%d] and [%d,%d] -> output %v, want %v (intervals far apart must not be merged, touching ones must)", a.s, a.e, b.s, b.e, got, want)
				}
			}
			if !ok {
				break
			}
		}
	}
	if ok {
		report(c, rC13Coal, f, []*cond{pts, sep, inf, bnd}, n)
	}
	// count adjustment in Coalesce
	cf := c.MustFunc(rC13Coal, "factstore", "TemporalStore.Coalesce")
	if cf == nil {
		return
	}
	info := cf.Pkg.TypesInfo
	g := c.Prog.CFGOf(cf)
	rebuilds := g.Find(func(n ast.Node) bool { return core.ContainsCall(info, n, false, "factstore.IntervalTree.Rebuild") })
	adj := func(n ast.Node) bool {
		as, ok := n.(*ast.AssignStmt)
		return ok && core.AssignsField(info, as, "TemporalStore.count") && as.Tok == token.SUB_ASSIGN && strings.Count(core.Src(c.Prog.Fset, as.Rhs[0]), "len(") == 2
	}
	if len(rebuilds) == 0 {
		c.Unres(rC13Coal, cf.Name+":count", cf.Decl.Pos(), "no call of IntervalTree.Rebuild found in Coalesce")
		return
	}
	missing := false
	for _, rb := range rebuilds {
		dominated := false
		for _, a := range g.Find(adj) {
			if g.RefDominates(a, rb) {
				dominated = true
			}
		}
		if !dominated {
			missing = true
		}
	}
	c.Check(!missing, rC13Coal, cf.Name+":count", rebuilds[0].Node().Pos(), "count is reduced by len(before)-len(after) before each Rebuild", "a tree is rebuilt from coalesced intervals without subtracting the number of removed intervals from TemporalStore.count: EstimateFactCount no longer equals the number of stored pairs")
}

// ---- TemporalStore.Add / IntervalTree.Insert ----

func c13Add(c *core.Ctx, k *tkit) {
	f := c.MustFunc(rC13Add, "factstore", "TemporalStore.Add")
	if f != nil {
		itp := ordabs.New(c.Prog)
		insertResult := true
		itp.Stubs["ast.Atom.Hash"] = func(in *ordabs.Interp, _ ordabs.Value, _ []ordabs.Value) ([]ordabs.Value, error) {
			return []ordabs.Value{int64(42)}, nil
		}
		itp.Stubs["fmt.Errorf"] = func(in *ordabs.Interp, _ ordabs.Value, _ []ordabs.Value) ([]ordabs.Value, error) {
			return []ordabs.Value{ordabs.ErrVal{Tag: "fmt.Errorf"}}, nil
		}
		itp.Stubs["factstore.IntervalTree.Insert"] = func(in *ordabs.Interp, _ ordabs.Value, _ []ordabs.Value) ([]ordabs.Value, error) {
			in.Emit("insert")
			return []ordabs.Value{insertResult}, nil
		}
		itp.Globals = map[string]ordabs.Value{"factstore.ErrIntervalLimitExceeded": ordabs.ErrVal{Tag: "ErrIntervalLimitExceeded"}}
		atomT := c.Prog.Named("ast", "Atom")
		if atomT == nil {
			c.Unres(rC13Add, "ast.Atom", 0, "anchor-unresolved: type ast.Atom")
			return
		}
		mkStore := func(max, size, cnt int64) (*ordabs.Obj, ordabs.Value) {
			az, _ := ordabs.ZeroOf(atomT)
			atom := az.(*ordabs.Rec)
			atom.Fields["Predicate"].(*ordabs.Rec).Fields["Symbol"] = "p"
			facts := ordabs.NewMap()
			st := &ordabs.Obj{Name: "store", Fields: map[string]ordabs.Value{"facts": facts, "atoms": ordabs.NewMap(), "count": cnt, "maxIntervalsPerAtom": max}}
			return st, atom
		}
		valid := &cond{name: "invalid-interval-refused"}
		limit := &cond{name: "limit-enforced"}
		cnt := &cond{name: "count-follows-insert"}
		n, ok := 0, true
		// the existing tree is installed through the first Add of the run: we call Add twice on the same store,
		// first with a stubbed Insert that reports true and a tree of the wanted size.
		for max := int64(-1); max <= 3 && ok; max++ {
			for size := int64(0); size <= 4 && ok; size++ {
				for _, ins := range []bool{true, false} {
					for _, ivs := range [][2]int64{{1, 2}, {2, 2}, {3, 1}} {
						st, atom := mkStore(max, size, 10)
						// install a tree of the wanted size under the atom's key
						tree := &ordabs.Obj{Name: "tree", Fields: map[string]ordabs.Value{"root": (*ordabs.Obj)(nil), "size": size}}
						pm := ordabs.NewMap()
						pm.M["int64:42"], pm.Keys["int64:42"] = tree, int64(42)
						fm := st.Fields["facts"].(*ordabs.Map)
						pk := atom.(*ordabs.Rec).Fields["Predicate"]
						fm.M[ordabsKey(pk)], fm.Keys[ordabsKey(pk)] = pm, pk
						insertResult = ins
						itp.Reset()
						out, err := itp.Call(f, st, []ordabs.Value{atom, k.tsiv(ivs[0], ivs[1])})
						if !runORD(c, rC13Add, f.Name, f, err) {
							ok = false
							break
						}
						n++
						added, _ := out[0].(bool)
						_, isErr := out[1].(ordabs.ErrVal)
						inserted := count(itp.Events, "insert")
						count2 := st.Fields["count"].(int64)
						desc := fmt.Sprintf("limit=%d size=%d interval=[%d,%d] Insert()=%v -> added=%v err=%v inserts=%d count %d->%d", max, size, ivs[0], ivs[1], ins, added, isErr, inserted, 10, count2)
						switch {
						case ivs[0] > ivs[1]:
							if (!isErr || inserted != 0 || added || count2 != 10) && valid.bad == "" {
								valid.bad = desc + ": an interval whose start is after its end must be refused with an error before insertion"
							}
						case max > 0 && size >= max:
							if (!isErr || inserted != 0 || added || count2 != 10) && limit.bad == "" {
								limit.bad = desc + ": the per-atom limit is reached, Add must return an error and insert nothing"
							}
						default:
							if isErr && limit.bad == "" {
								limit.bad = desc + ": error although the limit is not reached"
							}
							if !isErr && (inserted != 1 || added != ins || (ins && count2 != 11) || (!ins && count2 != 10)) && cnt.bad == "" {
								cnt.bad = desc + ": want exactly one Insert, added == Insert's result, count+1 only when it was true"
							}
						}
					}
				}
			}
		}
		if ok {
			report(c, rC13Add, f, []*cond{valid, limit, cnt}, n)
		}
	}
	fi := c.MustFunc(rC13Add, "factstore", "IntervalTree.Insert")
	if fi == nil {
		return
	}
	// evaluate Insert with stubs: contains -> b, insert -> marker
	itp := ordabs.New(c.Prog)
	var present bool
	itp.Stubs["factstore.IntervalTree.findExact"] = func(in *ordabs.Interp, _ ordabs.Value, _ []ordabs.Value) ([]ordabs.Value, error) {
		in.Emit("find")
		return []ordabs.Value{present}, nil
	}
	newRoot := &ordabs.Obj{Name: "newroot", Opaque: true}
	itp.Stubs["factstore.IntervalTree.insert"] = func(in *ordabs.Interp, _ ordabs.Value, _ []ordabs.Value) ([]ordabs.Value, error) {
		in.Emit("insert")
		return []ordabs.Value{newRoot}, nil
	}
	bad := ""
	for _, p := range []bool{false, true} {
		present = p
		tr := treeRecv()
		tr.Fields["size"] = int64(3)
		itp.Reset()
		out, err := itp.Call(fi, tr, []ordabs.Value{k.tsiv(1, 2)})
		if !runORD(c, rC13Add, fi.Name, fi, err) {
			return
		}
		got, _ := out[0].(bool)
		size := tr.Fields["size"].(int64)
		ins := count(itp.Events, "insert")
		if p && (got || size != 3 || ins != 0) {
			bad = fmt.Sprintf("exact duplicate present: Insert returned %v, size %d, inserted %d times (want false, 3, 0)", got, size, ins)
		}
		if !p && (!got || size != 4 || ins != 1 || tr.Fields["root"] != ordabs.Value(newRoot)) {
			bad = fmt.Sprintf("new interval: Insert returned %v, size %d, inserted %d times (want true, 4, 1 and root replaced)", got, size, ins)
		}
	}
	c.Check(bad == "", rC13Add, fi.Name+":duplicate-refused", fi.Decl.Pos(), "a present interval is refused without touching size; a new one is inserted once and counted", bad)
}

func ordabsKey(v ordabs.Value) string { return ordabs.KeyString(v) }

// ---- wiring of store queries to tree searches ----
