package props

import (
	"fmt"

	"mgcheck/core"
	"mgcheck/ordabs"
)

const rC10Types = "ORDABS.accepted-type-expressions-total"

// malformedTypes are type expressions as a user can write them in a bound:
// constructors applied to the wrong number or kind of arguments, at top level and nested.
func malformedTypes() []hTerm {
	num, str, a, b := tname("/number"), tname("/string"), tname("/a"), tname("/b")
	x := hTerm{kind: "var", name: "X"}
	sq := tname("\"a\"")
	var out []hTerm
	opts := []hTerm{
		hf("fn:opt"), hf("fn:opt", a), hf("fn:opt", a, num), hf("fn:opt", a, num, str), hf("fn:opt", x, num), hf("fn:opt", sq, num), hf("fn:opt", hc(1), num),
		hf("fn:opt", a, hf("fn:List")), hf("fn:opt", a, x), hf("fn:opt", hf("fn:List", num), num),
	}
	for _, o := range opts {
		out = append(out, hf("fn:Struct", o), hf("fn:Struct", a, num, o), hf("fn:Struct", o, b, str), o,
			hf("fn:List", hf("fn:Struct", o)), hf("fn:Union", num, hf("fn:Struct", o)))
	}
	out = append(out,
		hf("fn:Struct"), hf("fn:Struct", a), hf("fn:Struct", a, num, b), hf("fn:Struct", x, num), hf("fn:Struct", sq, num), hf("fn:Struct", a, hf("fn:List")),
		hf("fn:List"), hf("fn:List", num, num), hf("fn:List", x), hf("fn:List", hc(1)), hf("fn:List", sq),
		hf("fn:Pair"), hf("fn:Pair", num), hf("fn:Pair", num, str, a),
		hf("fn:Map"), hf("fn:Map", num), hf("fn:Map", num, str, a),
		hf("fn:Tuple"), hf("fn:Tuple", num), hf("fn:Tuple", num, str), hf("fn:Tuple", num, str, a), hf("fn:Tuple", num, str, a, b),
		hf("fn:Union"), hf("fn:Union", num), hf("fn:Union", hf("fn:List")),
		hf("fn:Option"), hf("fn:Option", num), hf("fn:Option", num, str),
		hf("fn:Singleton"), hf("fn:Singleton", a), hf("fn:Singleton", x), hf("fn:Singleton", a, b), hf("fn:Singleton", hf("fn:List", num)),
		hf("fn:TaggedUnion"), hf("fn:TaggedUnion", a), hf("fn:TaggedUnion", a, b), hf("fn:TaggedUnion", a, b, hf("fn:Struct")), hf("fn:TaggedUnion", a, b, num),
		hf("fn:TaggedUnion", x, b, hf("fn:Struct")), hf("fn:TaggedUnion", a, x, hf("fn:Struct")), hf("fn:TaggedUnion", a, b, hf("fn:Struct", hf("fn:opt", a))),
		hf("fn:TaggedUnion", a, b, hf("fn:Struct"), tname("/c")), hf("fn:TaggedUnion", a, b, hf("fn:Struct", a, num)),
		hf("fn:Fun"), hf("fn:Fun", num), hf("fn:Fun", num, str), hf("fn:Fun", x, str), hf("fn:Rel"), hf("fn:Rel", num),
		hf("fn:nosuch", num), hf("fn:list", num), x, hc(1), sq,
	)
	return out
}

func c10TypeExprs(c *core.Ctx) {
	c.Rule(rC10Types, "symbols.WellformedBound is read from source and evaluated on more than 110 type expressions a user can write in a bound - every type constructor applied to too few, too many and ill-kinded arguments (variables, strings, numbers in place of names), optional struct fields of every malformed shape, nested under list, union and struct; for each expression it accepts, TypeHandle.HasType against constants of every shape, SetConforms against itself and well-formed types in both directions, UpperBound and LowerBound are evaluated and must return (index, assertion and nil panics are reported)", 3)
	wf := c.MustFunc(rC10Types, "symbols", "WellformedBound")
	has := c.MustFunc(rC10Types, "symbols", "TypeHandle.HasType")
	conf := c.MustFunc(rC10Types, "symbols", "SetConforms")
	ub := c.MustFunc(rC10Types, "symbols", "UpperBound")
	lb := c.MustFunc(rC10Types, "symbols", "LowerBound")
	k := newTypeKit(c, rC10Types)
	if wf == nil || has == nil || conf == nil || ub == nil || lb == nil || !k.ok {
		return
	}
	in := k.newTypeInterp()
	consts := constUniverse(k)
	consts = append(consts, k.structc(), k.structc(k.name("/b"), k.num(1)))
	peers := []hTerm{tname("/any"), tname("/number"), hf("fn:Struct", tname("/a"), tname("/number")), hf("fn:Struct", tname("/a"), tname("/number"), hf("fn:opt", tname("/b"), tname("/string"))), hf("fn:List", tname("/number")), hf("fn:Union", tname("/number"), tname("/string"))}
	accepted, rejected := 0, 0
	okWf, okHas, okConf, okBounds := true, true, true, true
	for _, t := range malformedTypes() {
		tv := k.typ(t)
		in.Reset()
		in.Fuel = 400000
		out, err := in.Call(wf, nil, []ordabs.Value{tv})
		if err != nil {
			if okWf && !runORD(c, rC10Types, fmt.Sprintf("%s:type=%s", wf.Name, t), wf, err) {
				okWf = false
			}
			continue
		}
		if out[0] != nil {
			rejected++
			continue
		}
		accepted++
		if okHas {
			for _, cst := range consts {
				th := &ordabs.Rec{Fields: map[string]ordabs.Value{"expr": tv, "ctx": (*ordabs.Map)(nil)}, T: "symbols.TypeHandle"}
				in.Reset()
				in.Fuel = 400000
				if _, err := in.Call(has, th, []ordabs.Value{cst}); err != nil {
					if !runORD(c, rC10Types, fmt.Sprintf("%s:type=%s:constant=%s", has.Name, t, k.render(cst)), has, err) {
						okHas = false
						break
					}
				}
			}
		}
		for _, p := range append([]hTerm{t}, peers...) {
			pv := k.typ(p)
			for _, pair := range [][2]ordabs.Value{{tv, pv}, {pv, tv}} {
				if okConf {
					in.Reset()
					in.Fuel = 400000
					if _, err := in.Call(conf, nil, []ordabs.Value{(*ordabs.Map)(nil), pair[0], pair[1]}); err != nil {
						if !runORD(c, rC10Types, fmt.Sprintf("%s:types=%s,%s", conf.Name, t, p), conf, err) {
							okConf = false
						}
					}
				}
				if okBounds {
					for _, f := range []*core.Func{ub, lb} {
						es := []ordabs.Value{pair[0], pair[1]}
						in.Reset()
						in.Fuel = 400000
						if _, err := in.Call(f, nil, []ordabs.Value{(*ordabs.Map)(nil), &ordabs.Slice{Elems: &es}}); err != nil {
							if !runORD(c, rC10Types, fmt.Sprintf("%s:types=%s,%s", f.Name, t, p), f, err) {
								okBounds = false
								break
							}
						}
					}
				}
			}
		}
	}
	c.Cover("type_expressions", len(malformedTypes()))
	c.Cover("accepted", accepted)
	if okWf {
		c.OK(rC10Types, wf.Name, wf.Decl.Pos(), "%d expressions: %d accepted, %d rejected, every evaluation returns", len(malformedTypes()), accepted, rejected)
	}
	if okHas {
		c.OK(rC10Types, has.Name, has.Decl.Pos(), "membership of %d constants in each of the %d accepted expressions returns", len(consts), accepted)
	}
	if okConf {
		c.OK(rC10Types, conf.Name, conf.Decl.Pos(), "conformance of each accepted expression with itself and %d well-formed types, both ways, returns", len(peers))
	}
	if okBounds {
		c.OK(rC10Types, ub.Name+"/LowerBound", ub.Decl.Pos(), "upper and lower bound with the same partners return")
	}
}
