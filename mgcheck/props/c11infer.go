package props

import (
	"fmt"
	"sort"
	"strings"

	"mgcheck/core"
	"mgcheck/ordabs"
)

const rC11Infer = "ORDABS.inference-sound-on-small-programs"

// c11Inference: newBoundsAnalyzer and BoundsCheck are read from source and evaluated - with the real inference
// (inferRelTypes, inferContext, feasibleAlternatives) and the real conformance judgement - on a family of small
// programs over unary predicates: two declared base predicates (strings, numbers), two undeclared predicates aa and
// bb with every subset of six rules among them in two orders, optional base facts of aa, and a declared predicate
// out(X) :- bb(X) bound to /number or to /string. Whenever the program is accepted, every out fact of its least
// model (computed by a reference evaluator) is a member of out's bound.
func c11Inference(c *core.Ctx) {
	c.Rule(rC11Infer, "newBoundsAnalyzer and BoundsAnalyzer.BoundsCheck, read from source and evaluated with the real type inference and conformance judgement on a family of small programs (declared base predicates of strings and of numbers, two undeclared, possibly mutually recursive predicates with every small subset of six rules in two orders and optional base facts, a declared predicate defined from them): whenever bounds checking accepts the program, every fact of the declared predicate in the program's least model is a member of the declared bound", 1)
	nb := c.MustFunc(rC11Infer, "analysis", "newBoundsAnalyzer")
	bcF := c.MustFunc(rC11Infer, "analysis", "BoundsAnalyzer.BoundsCheck")
	if nb == nil || bcF == nil {
		return
	}
	k := newTypeKit(c, rC11Infer)
	if !k.ok {
		return
	}
	ak := &astKit{c: c, ok: true}
	in := k.newTypeInterp()
	in.InstallBuilderStubs()
	in.Globals["symbols.BuiltinRelations"] = ordabs.NewMap() // the family uses no built-in relations
	in.Stubs["ast.Decl.IsSynthetic"] = func(in *ordabs.Interp, recv ordabs.Value, _ []ordabs.Value) ([]ordabs.Value, error) {
		b := false
		switch r := recv.(type) {
		case *ordabs.Rec:
			b, _ = r.Fields["__synthetic"].(bool)
		case *ordabs.Obj:
			if r != nil {
				b, _ = r.Fields["__synthetic"].(bool)
			}
		}
		return []ordabs.Value{b}, nil
	}
	in.Stubs["ast.Decl.IsExtensional"] = func(in *ordabs.Interp, recv ordabs.Value, _ []ordabs.Value) ([]ordabs.Value, error) {
		b := false
		switch r := recv.(type) {
		case *ordabs.Rec:
			b, _ = r.Fields["__extensional"].(bool)
		case *ordabs.Obj:
			if r != nil {
				b, _ = r.Fields["__extensional"].(bool)
			}
		}
		return []ordabs.Value{b}, nil
	}
	for _, n := range []string{"ast.Clause.String", "ast.Atom.String", "ast.Decl.String", "ast.PredicateSym.String"} {
		in.Stubs[n] = func(in *ordabs.Interp, _ ordabs.Value, _ []ordabs.Value) ([]ordabs.Value, error) {
			return []ordabs.Value{"<text>"}, nil
		}
	}
	// constants: n < 100 is the number n, n >= 100 the string "s<n>"
	constOf := func(n int64) *ordabs.Rec {
		if n >= 100 {
			return k.str(fmt.Sprintf("s%d", n))
		}
		return k.num(n)
	}
	X := &ordabs.Rec{Fields: map[string]ordabs.Value{"Symbol": "X"}, T: "ast.Variable"}
	atom := func(p string, arg ordabs.Value) *ordabs.Rec {
		a := ak.atom(p, 1)
		as := []ordabs.Value{arg}
		a.Fields["Args"] = &ordabs.Slice{Elems: &as}
		return a
	}
	mkDecl := func(p string, bound string, synthetic, extensional bool) *ordabs.Obj {
		d := ak.zero("ast", "Decl")
		d.Fields["DeclaredAtom"] = atom(p, X)
		bd := ak.zero("ast", "BoundDecl")
		bs := []ordabs.Value{k.name(bound)}
		bd.Fields["Bounds"] = &ordabs.Slice{Elems: &bs}
		bds := []ordabs.Value{bd}
		d.Fields["Bounds"] = &ordabs.Slice{Elems: &bds}
		d.Fields["__synthetic"], d.Fields["__extensional"] = synthetic, extensional
		return &ordabs.Obj{Name: "decl-" + p, Fields: d.Fields, T: "ast.Decl"}
	}
	if !ak.ok {
		c.Unres(rC11Infer, nb.Name, nb.Decl.Pos(), "anchor-unresolved: ast.Decl / ast.BoundDecl")
		return
	}
	type rule struct{ head, body string }
	ruleSet := []rule{{"aa", "bb"}, {"aa", "es"}, {"aa", "en"}, {"bb", "aa"}, {"bb", "es"}, {"bb", "en"}}
	maxRules := 3
	if c.Tier == "thorough" {
		maxRules = 6
	}
	bad, n, accepted := "", 0, 0
	for mask := 0; mask < 1<<len(ruleSet) && bad == ""; mask++ {
		var rs []rule
		for i, r := range ruleSet {
			if mask&(1<<i) != 0 {
				rs = append(rs, r)
			}
		}
		if len(rs) > maxRules {
			continue
		}
		for _, reversed := range []bool{false, true} {
			if reversed && len(rs) < 2 {
				continue
			}
			order := append([]rule{}, rs...)
			if reversed {
				for i, j := 0, len(order)-1; i < j; i, j = i+1, j-1 {
					order[i], order[j] = order[j], order[i]
				}
			}
			for _, aaBase := range []int64{-1, 1, 100} {
				for _, outBound := range []string{"/number", "/string"} {
					for _, outBody := range []string{"bb", "aa"} {
						if c.Tier != "thorough" && (outBody == "aa" || aaBase == 100) {
							continue
						}
						for _, wrap := range []string{"", "operator", "operator+interval"} {
						if wrap != "" && aaBase != -1 {
							continue // the wrapped variants: the out rule reads its body through a temporal literal
						}
						// reference: least model
						hp := hProgram{name: "p", base: []string{"es(100)", "en(1)"}}
						if aaBase >= 0 {
							hp.base = append(hp.base, hFact("aa", []int64{aaBase}))
						}
						var cls []hClause
						for _, r := range order {
							cls = append(cls, hClause{headPred: r.head, head: []hTerm{hv("X")}, prems: []hPrem{{kind: "atom", pred: r.body, args: []hTerm{hv("X")}}}})
						}
						cls = append(cls, hClause{headPred: "out", head: []hTerm{hv("X")}, prems: []hPrem{{kind: "atom", pred: outBody, args: []hTerm{hv("X")}}}})
						hp.strata = [][]hClause{cls}
						model, _ := hp.evaluate()
						// the program for the analyzer
						decls := ordabs.NewMap()
						idb := ordabs.NewMap()
						rulesMap := ordabs.NewMap()
						put := func(m *ordabs.Map, p string, v ordabs.Value) {
							ps := predSym(p, 1)
							m.M[ordabs.KeyString(ps)], m.Keys[ordabs.KeyString(ps)] = v, ps
						}
						put(decls, "es", mkDecl("es", "/string", false, true))
						put(decls, "en", mkDecl("en", "/number", false, true))
						put(decls, "aa", mkDecl("aa", "/any", true, false))
						put(decls, "bb", mkDecl("bb", "/any", true, false))
						put(decls, "out", mkDecl("out", outBound, false, false))
						byHead := map[string][]ordabs.Value{}
						for _, r := range append(append([]rule{}, order...), rule{"out", outBody}) {
							cl := ak.zero("ast", "Clause")
							cl.Fields["Head"] = atom(r.head, X)
							ps := []ordabs.Value{atom(r.body, X)}
							if r.head == "out" && wrap != "" {
								ps[0] = ak.tl(atom(r.body, X), true, wrap == "operator+interval")
							}
							cl.Fields["Premises"] = &ordabs.Slice{Elems: &ps}
							byHead[r.head] = append(byHead[r.head], cl)
						}
						for h, v := range byHead {
							vv := v
							put(rulesMap, h, &ordabs.Slice{Elems: &vv})
							put(idb, h, &ordabs.Rec{Fields: map[string]ordabs.Value{}})
						}
						facts := []ordabs.Value{atom("es", constOf(100)), atom("en", constOf(1))}
						if aaBase >= 0 {
							facts = append(facts, atom("aa", constOf(aaBase)))
						}
						pi := ak.zero("analysis", "ProgramInfo")
						pi.Fields["Decls"] = decls
						pi.Fields["IdbPredicates"] = idb
						pio := &ordabs.Obj{Name: "programInfo", Fields: pi.Fields, T: "analysis.ProgramInfo"}
						trie := &ordabs.Obj{Name: "trie", Fields: map[string]ordabs.Value{"children": ordabs.NewMap()}, T: "symbols.NameTrieNode"}
						in.Reset()
						in.Fuel = 2000000
						out, err := in.Call(nb, nil, []ordabs.Value{pio, trie, &ordabs.Slice{Elems: &facts}, rulesMap})
						if !runORD(c, rC11Infer, nb.Name, nb, err) {
							return
						}
						if out[1] != nil {
							c.Unres(rC11Infer, nb.Name, nb.Decl.Pos(), "newBoundsAnalyzer fails on a well-formed small program")
							return
						}
						in.Fuel = 4000000
						res, err := in.Call(bcF, out[0], nil)
						if !runORD(c, rC11Infer, bcF.Name, bcF, err) {
							return
						}
						n++
						if _, isErr := res[0].(ordabs.ErrVal); isErr {
							continue // rejected: always sound
						}
						accepted++
						var outside []string
						for f := range model {
							pred, args := parseHFact(f)
							if pred != "out" {
								continue
							}
							isNum := args[0] < 100
							if (outBound == "/number") != isNum {
								outside = append(outside, f)
							}
						}
						if len(outside) > 0 {
							sort.Strings(outside)
							var rtxt []string
							for _, r := range order {
								rtxt = append(rtxt, r.head+"(X) :- "+r.body+"(X).")
							}
							base := "es(\"s\"). en(1)."
							if aaBase >= 0 {
								base += fmt.Sprintf(" aa(%s).", map[bool]string{true: "\"s\"", false: "1"}[aaBase >= 100])
							}
							bad = fmt.Sprintf("the program [%s %s out(X) :- %s(X).] with out bound to %s (es: /string, en: /number) is accepted, but its least model holds %v (numbers >= 100 stand for strings): facts outside the declared bound", base, strings.Join(rtxt, " "), outBody, outBound, outside)
							if wrap != "" {
								bad += " (the out rule reads its body through a temporal literal with " + wrap + ")"
							}
						}
						}
					}
				}
			}
		}
	}
	c.Cover("programs_checked", n)
	c.Check(bad == "" && accepted > 20 && n-accepted > 20, rC11Infer, bcF.Name, bcF.Decl.Pos(), fmt.Sprintf("%d programs, %d accepted, every accepted one keeps its declared predicate within the bound", n, accepted), bad)
}
