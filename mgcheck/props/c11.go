package props

import (
	"fmt"
	"sort"
	"strings"

	"mgcheck/core"
	"mgcheck/ordabs"
)

func init() { register("C11", checkC11) }

const (
	rC11All    = "ORDABS.every-predicate-checked"
	rC11Clause = "ORDABS.every-clause-and-fact-checked"
	rC11Mode   = "ORDABS.mismatch-is-an-error"
	rC11State  = "ORDABS.inference-state"
	rC11Neg    = "ORDABS.negative-refinement"
	rC11Sound  = "ORDABS.conformance-sound-for-membership"
	rC11Prefix = "ORDABS.match-prefix-agrees-with-type"
)

func checkC11(c *core.Ctx) {
	c.Rule(rC11All, "BoundsCheck, evaluated with a stubbed per-predicate check: every intensional predicate and every predicate with base facts is checked exactly once, predicates of the same name and different arity included, and the first error is returned", 1)
	c.Rule(rC11Clause, "checkClauses, evaluated with stubbed inference and conformance over all combinations of conforming / non-conforming base facts and rules: an error is returned exactly when some base fact type or some rule's inferred type does not conform to the declaration, also for a predicate that has both base facts and rules", 1)
	c.Rule(rC11Mode, "Analyzer.Analyze returns the bounds checker's error in error mode (and only logs it otherwise)", 1)
	c.Rule(rC11State, "inferState.makeNext copies the variable types: refining a successor state does not change its sibling states", 1)
	c.Rule(rC11Neg, "RemoveFromUnionType(T, U), evaluated over the type/constant universe: every member of U that is not a member of T is still a member of the result (a negated test never narrows away values it did not exclude)", 1)
	c.Rule(rC11Sound, "the conformance judgement that checkClauses relies on is sound for the run-time membership test (evaluation shared with C12)", 3)
	c.Rule(rC11Prefix, "the run-time :match_prefix test and membership in the name-prefix type agree on all names of the universe", 1)
	c11BoundsCheck(c)
	c11CheckClauses(c)
	c11Mode(c)
	c11State(c)
	c11Negative(c)
	c12Evaluate(c, rC11Sound, "", "")
	c11MatchPrefix(c)
}

func c11BoundsCheck(c *core.Ctx) {
	c11Inference(c)
	f := c.MustFunc(rC11All, "analysis", "BoundsAnalyzer.BoundsCheck")
	if f == nil {
		return
	}
	in := ordabs.New(c.Prog)
	in.InstallErrorStubs()
	in.StubSortSlice()
	var checked []string
	failOn := ""
	in.Stubs["analysis.BoundsAnalyzer.inferAndCheckBounds"] = func(in *ordabs.Interp, _ ordabs.Value, args []ordabs.Value) ([]ordabs.Value, error) {
		p := args[0].(*ordabs.Rec)
		name := fmt.Sprintf("%v/%v", p.Fields["Symbol"], p.Fields["Arity"])
		checked = append(checked, name)
		if name == failOn {
			return []ordabs.Value{ordabs.ErrVal{Tag: "mismatch"}}, nil
		}
		return []ordabs.Value{nil}, nil
	}
	set := func(ps ...*ordabs.Rec) *ordabs.Map {
		m := ordabs.NewMap()
		for _, p := range ps {
			m.M[ordabs.KeyString(p)], m.Keys[ordabs.KeyString(p)] = &ordabs.Rec{Fields: map[string]ordabs.Value{}}, p
		}
		return m
	}
	mk := func() *ordabs.Obj {
		pi := &ordabs.Obj{Name: "programInfo", Fields: map[string]ordabs.Value{"IdbPredicates": set(predSym("p", 1), predSym("p", 2), predSym("q", 1))}}
		return &ordabs.Obj{Name: "bc", Fields: map[string]ordabs.Value{"programInfo": pi, "initialFactMap": set(predSym("e", 1), predSym("q", 1))}, T: "analysis.BoundsAnalyzer"}
	}
	bad := ""
	for _, rev := range []bool{false, true} {
		for _, fo := range []string{"", "p/1", "p/2", "e/1"} {
			checked, failOn = nil, fo
			in.Reset()
			in.ReverseMaps = rev
			out, err := in.Call(f, mk(), nil)
			if !runORD(c, rC11All, f.Name, f, err) {
				return
			}
			_, isErr := out[0].(ordabs.ErrVal)
			if fo == "" {
				sort.Strings(checked)
				if fmt.Sprint(checked) != "[e/1 p/1 p/2 q/1]" && bad == "" {
					bad = fmt.Sprintf("intensional {p/1, p/2, q/1}, base facts for {e/1, q/1}: the predicates checked are %v, want each of e/1 p/1 p/2 q/1 once", checked)
				}
				if isErr && bad == "" {
					bad = "error although every predicate passed"
				}
			} else if !isErr && bad == "" {
				bad = fmt.Sprintf("the check of %s failed but BoundsCheck returned no error (predicates checked: %v)", fo, checked)
			}
		}
	}
	in.ReverseMaps = false
	c.Check(bad == "", rC11All, f.Name, f.Decl.Pos(), "every predicate checked once under both map orders; errors returned", bad)
}

func c11CheckClauses(c *core.Ctx) {
	f := c.MustFunc(rC11Clause, "analysis", "BoundsAnalyzer.checkClauses")
	if f == nil {
		return
	}
	k := &astKit{c: c, ok: true}
	in := ordabs.New(c.Prog)
	in.InstallErrorStubs()
	in.InstallBuilderStubs()
	marker := func(s string) *ordabs.Rec { return &ordabs.Rec{Fields: map[string]ordabs.Value{"m": s}, T: "ast.Constant"} }
	in.Stubs["symbols.RelTypeExprFromDecl"] = func(in *ordabs.Interp, _ ordabs.Value, _ []ordabs.Value) ([]ordabs.Value, error) {
		return []ordabs.Value{marker("declared"), nil}, nil
	}
	in.Stubs["symbols.RelTypeAlternatives"] = func(in *ordabs.Interp, _ ordabs.Value, args []ordabs.Value) ([]ordabs.Value, error) {
		xs := []ordabs.Value{args[0]}
		return []ordabs.Value{&ordabs.Slice{Elems: &xs}}, nil
	}
	in.Stubs["symbols.GetTypeContext"] = func(in *ordabs.Interp, _ ordabs.Value, _ []ordabs.Value) ([]ordabs.Value, error) {
		return []ordabs.Value{(*ordabs.Map)(nil)}, nil
	}
	in.Stubs["symbols.SetConforms"] = func(in *ordabs.Interp, _ ordabs.Value, args []ordabs.Value) ([]ordabs.Value, error) {
		r, _ := args[1].(*ordabs.Rec)
		return []ordabs.Value{r != nil && r.Fields["m"] == "good"}, nil
	}
	ruleTypes := map[int64]string{}
	in.Stubs["analysis.newInferContext"] = func(in *ordabs.Interp, _ ordabs.Value, args []ordabs.Value) ([]ordabs.Value, error) {
		cl, _ := args[2].(*ordabs.Obj)
		idx, _ := cl.Fields["__idx"].(int64)
		return []ordabs.Value{&ordabs.Obj{Name: "ic", Fields: map[string]ordabs.Value{"idx": idx}}}, nil
	}
	in.Stubs["analysis.inferContext.inferRelTypesFromClause"] = func(in *ordabs.Interp, recv ordabs.Value, _ []ordabs.Value) ([]ordabs.Value, error) {
		idx := recv.(*ordabs.Obj).Fields["idx"].(int64)
		return []ordabs.Value{marker(ruleTypes[idx]), nil}, nil
	}
	in.Stubs["ast.Clause.String"] = func(in *ordabs.Interp, _ ordabs.Value, _ []ordabs.Value) ([]ordabs.Value, error) {
		return []ordabs.Value{"<clause>"}, nil
	}
	in.Stubs["strings.Builder.WriteString"] = func(in *ordabs.Interp, _ ordabs.Value, _ []ordabs.Value) ([]ordabs.Value, error) {
		return []ordabs.Value{int64(0), nil}, nil
	}
	in.Stubs["strings.Builder.String"] = func(in *ordabs.Interp, _ ordabs.Value, _ []ordabs.Value) ([]ordabs.Value, error) {
		return []ordabs.Value{""}, nil
	}
	d := k.zero("ast", "Decl")
	d.Fields["DeclaredAtom"] = k.atom("p", 1)
	decl := &ordabs.Obj{Name: "decl", Fields: d.Fields, T: "ast.Decl"}
	if !k.ok {
		c.Unres(rC11Clause, f.Name, f.Decl.Pos(), "anchor-unresolved")
		return
	}
	bad, n := "", 0
	for _, factKind := range []string{"none", "good", "bad"} {
		for _, rules := range [][]string{{}, {"good"}, {"bad"}, {"good", "bad"}, {"good", "good"}} {
			var cls []ordabs.Value
			for i, rt := range rules {
				cl := k.zero("ast", "Clause")
				cl.Fields["__idx"] = int64(i)
				ruleTypes[int64(i)] = rt
				cls = append(cls, cl)
			}
			rm := ordabs.NewMap()
			ps := predSym("p", 1)
			rm.M[ordabs.KeyString(ps)], rm.Keys[ordabs.KeyString(ps)] = &ordabs.Slice{Elems: &cls}, ps
			fm := ordabs.NewMap()
			if factKind != "none" {
				fm.M[ordabs.KeyString(ps)], fm.Keys[ordabs.KeyString(ps)] = marker(factKind), ps
			}
			bc := &ordabs.Obj{Name: "bc", Fields: map[string]ordabs.Value{"RulesMap": rm, "initialFactMap": fm}, T: "analysis.BoundsAnalyzer"}
			in.Reset()
			in.Fuel = 200000
			out, err := in.Call(f, bc, []ordabs.Value{decl})
			if !runORD(c, rC11Clause, f.Name, f, err) {
				return
			}
			n++
			_, isErr := out[0].(ordabs.ErrVal)
			want := factKind == "bad" || strings.Contains(strings.Join(rules, ","), "bad")
			if isErr != want && bad == "" {
				bad = fmt.Sprintf("declared predicate with base facts of a %s type and rules with inferred types %v: checkClauses error=%v, want %v (every base fact and every rule of a declared predicate is subject to the declaration)", factKind, rules, isErr, want)
			}
		}
	}
	c.Check(bad == "", rC11Clause, f.Name, f.Decl.Pos(), fmt.Sprintf("error exactly when something does not conform, on %d combinations", n), bad)
}

func c11Mode(c *core.Ctx) {
	f := c.MustFunc(rC11Mode, "analysis", "Analyzer.Analyze")
	if f == nil {
		return
	}
	errMode, ok1 := constInt(c.Prog, "analysis", "ErrorForBoundsMismatch")
	logMode, ok2 := constInt(c.Prog, "analysis", "LogBoundsMismatch")
	if !ok1 {
		c.Unres(rC11Mode, "analysis.ErrorForBoundsMismatch", 0, "anchor-unresolved")
		return
	}
	q := &clauseKit{k: &astKit{c: c, ok: true}, ck: newConstKit(c, rC11Mode)}
	in := ordabs.New(c.Prog)
	in.InstallErrorStubs()
	nilErr := func(in *ordabs.Interp, _ ordabs.Value, _ []ordabs.Value) ([]ordabs.Value, error) { return []ordabs.Value{nil}, nil }
	in.Stubs["analysis.Analyzer.EnsureDecl"] = nilErr
	in.Stubs["symbols.CheckAndDesugar"] = func(in *ordabs.Interp, _ ordabs.Value, _ []ordabs.Value) ([]ordabs.Value, error) {
		return []ordabs.Value{ordabs.NewMap(), nil}, nil
	}
	in.Stubs["analysis.CheckTemporalRecursion"] = func(in *ordabs.Interp, _ ordabs.Value, _ []ordabs.Value) ([]ordabs.Value, error) {
		return []ordabs.Value{(*ordabs.Slice)(nil)}, nil
	}
	in.Stubs["analysis.collectNames"] = func(in *ordabs.Interp, _ ordabs.Value, _ []ordabs.Value) ([]ordabs.Value, error) {
		return []ordabs.Value{&ordabs.Rec{Fields: map[string]ordabs.Value{}, T: "symbols.NameTrie"}}, nil
	}
	in.Stubs["analysis.newBoundsAnalyzer"] = func(in *ordabs.Interp, _ ordabs.Value, _ []ordabs.Value) ([]ordabs.Value, error) {
		return []ordabs.Value{&ordabs.Obj{Name: "bc", Opaque: true}, nil}, nil
	}
	in.Stubs["analysis.BoundsAnalyzer.BoundsCheck"] = func(in *ordabs.Interp, _ ordabs.Value, _ []ordabs.Value) ([]ordabs.Value, error) {
		return []ordabs.Value{ordabs.ErrVal{Tag: "bounds mismatch"}}, nil
	}
	bad := ""
	modes := []int64{errMode}
	if ok2 {
		modes = append(modes, logMode)
	}
	for _, mode := range modes {
		an := q.k.zero("analysis", "Analyzer")
		an.Fields["decl"] = ordabs.NewMap()
		an.Fields["extraPredicates"] = ordabs.NewMap()
		an.Fields["boundsCheckingMode"] = mode
		empty := []ordabs.Value{}
		in.Reset()
		out, err := in.Call(f, &ordabs.Obj{Name: "analyzer", Fields: an.Fields, T: "analysis.Analyzer"}, []ordabs.Value{&ordabs.Slice{Elems: &empty}})
		if !runORD(c, rC11Mode, f.Name, f, err) {
			return
		}
		e, isErr := out[1].(ordabs.ErrVal)
		if mode == errMode && (!isErr || !strings.Contains(e.Tag, "bounds mismatch")) && bad == "" {
			bad = "in error mode the bounds checker's error is not what Analyze returns: a program that violates its declared bounds is accepted"
		}
		if mode != errMode && isErr && bad == "" {
			bad = "outside error mode a bounds mismatch makes Analyze fail"
		}
	}
	c.Check(bad == "" && q.k.ok, rC11Mode, f.Name, f.Decl.Pos(), "bounds mismatch is returned in error mode only", bad)
}

func c11State(c *core.Ctx) {
	mk := c.MustFunc(rC11State, "analysis", "inferState.makeNext")
	if mk == nil {
		return
	}
	in := ordabs.New(c.Prog)
	t1 := &ordabs.Rec{Fields: map[string]ordabs.Value{"m": "T1"}, T: "ast.Constant"}
	t2 := &ordabs.Rec{Fields: map[string]ordabs.Value{"m": "T2"}, T: "ast.Constant"}
	tpes := []ordabs.Value{t1}
	vars := []ordabs.Value{&ordabs.Rec{Fields: map[string]ordabs.Value{"Symbol": "X"}, T: "ast.Variable"}}
	st := &ordabs.Obj{Name: "state", Fields: map[string]ordabs.Value{"index": int64(3), "usedVars": &ordabs.Rec{Fields: map[string]ordabs.Value{"Vars": &ordabs.Slice{Elems: &vars}}, T: "analysis.VarList"}, "varTpe": &ordabs.Slice{Elems: &tpes}}, T: "analysis.inferState"}
	out1, err := in.Call(mk, st, nil)
	if !runORD(c, rC11State, mk.Name, mk, err) {
		return
	}
	out2, err := in.Call(mk, st, nil)
	if !runORD(c, rC11State, mk.Name, mk, err) {
		return
	}
	n1, _ := out1[0].(*ordabs.Obj)
	n2, _ := out2[0].(*ordabs.Obj)
	bad := ""
	if n1 == nil || n2 == nil {
		bad = "makeNext returned no state"
	} else {
		if n1.Fields["index"] != ordabs.Value(int64(4)) {
			bad = "the successor state does not point at the next premise"
		}
		// refine X in the first successor (what addOrRefine does: s.varTpe[i] = tpe)
		s1 := n1.Fields["varTpe"].(*ordabs.Slice)
		(*s1.Elems)[0] = t2
		s2 := n2.Fields["varTpe"].(*ordabs.Slice)
		orig := st.Fields["varTpe"].(*ordabs.Slice)
		tag := func(v ordabs.Value) string {
			r, _ := v.(*ordabs.Rec)
			if r == nil {
				return "?"
			}
			return fmt.Sprint(r.Fields["m"])
		}
		if tag((*s2.Elems)[0]) != "T1" || tag((*orig.Elems)[0]) != "T1" {
			bad = "refining a variable's type in one successor state changed it in a sibling state or in the parent: the states share their type slice, and alternatives of a premise overwrite each other"
		}
	}
	c.Check(bad == "", rC11State, mk.Name, mk.Decl.Pos(), "successor states own their variable types", bad)
}

func c11Negative(c *core.Ctx) {
	f := c.MustFunc(rC11Neg, "symbols", "RemoveFromUnionType")
	has := c.MustFunc(rC11Neg, "symbols", "TypeHandle.HasType")
	k := newTypeKit(c, rC11Neg)
	if f == nil || has == nil || !k.ok {
		return
	}
	in := k.newTypeInterp()
	consts := constUniverse(k)
	member := func(tv ordabs.Value, cst *ordabs.Rec) (bool, error) {
		th := &ordabs.Rec{Fields: map[string]ordabs.Value{"expr": tv, "ctx": (*ordabs.Map)(nil)}, T: "symbols.TypeHandle"}
		in.Reset()
		in.Fuel = 400000
		out, err := in.Call(has, th, []ordabs.Value{cst})
		if err != nil {
			return false, err
		}
		b, _ := out[0].(bool)
		return b, nil
	}
	unions := []hTerm{hf("fn:Union", tname("/foo"), tname("/number")), hf("fn:Union", tname("/foo"), tname("/foobar")), hf("fn:Union", tname("/foo/bar"), tname("/string")), hf("fn:Union", tname("/foo"), tname("/foo/bar"))}
	removes := []hTerm{tname("/foo"), tname("/foo/bar"), tname("/foobar"), tname("/number"), tname("/name"), tname("/string")}
	bad, n := "", 0
	for _, u := range unions {
		for _, t := range removes {
			uv, tv := k.typ(u), k.typ(t)
			in.Reset()
			in.Fuel = 400000
			out, err := in.Call(f, nil, []ordabs.Value{tv, uv})
			if !runORD(c, rC11Neg, f.Name, f, err) {
				return
			}
			res := out[0]
			n++
			for _, cst := range consts {
				inU, err := member(uv, cst)
				if !runORD(c, rC11Neg, f.Name, f, err) {
					return
				}
				inT, _ := member(tv, cst)
				if !inU || inT {
					continue
				}
				inR, err := member(res, cst)
				if !runORD(c, rC11Neg, f.Name, f, err) {
					return
				}
				if !inR && bad == "" {
					bad = fmt.Sprintf("removing %s from %s drops %s, which is a member of the union and not of the removed type: after a negated test the variable's type no longer covers the values that can reach the head", t, u, k.render(cst))
				}
			}
		}
	}
	c.Check(bad == "", rC11Neg, f.Name, f.Decl.Pos(), fmt.Sprintf("no value outside the removed type is lost on %d union/type pairs", n), bad)
}

func c11MatchPrefix(c *core.Ctx) {
	f := c.MustFunc(rC11Prefix, "builtin", "match")
	has := c.MustFunc(rC11Prefix, "symbols", "hasBaseType")
	k := newTypeKit(c, rC11Prefix)
	if f == nil || has == nil || !k.ok {
		return
	}
	in := k.newTypeInterp()
	in.Stubs["functional.EvalExpr"] = func(in *ordabs.Interp, _ ordabs.Value, args []ordabs.Value) ([]ordabs.Value, error) {
		return []ordabs.Value{args[0], nil}, nil
	}
	ak := &astKit{c: c, ok: true}
	names := []string{"/foo", "/foo/x", "/foo/bar", "/foo/bar/y", "/foobar", "/foobar/z", "/q"}
	prefixes := []string{"/foo", "/foo/bar", "/foobar"}
	bad, n := "", 0
	for _, p := range prefixes {
		for _, nm := range names {
			atom := ak.atom(":match_prefix", 2)
			args := []ordabs.Value{k.name(nm), k.name(p)}
			atom.Fields["Args"] = &ordabs.Slice{Elems: &args}
			in.Reset()
			out, err := in.Call(f, nil, []ordabs.Value{atom, (*ordabs.Obj)(nil)})
			if !runORD(c, rC11Prefix, f.Name, f, err) {
				return
			}
			matched, _ := out[0].(bool)
			in.Reset()
			out, err = in.Call(has, nil, []ordabs.Value{k.name(p), k.name(nm)})
			if !runORD(c, rC11Prefix, has.Name, has, err) {
				return
			}
			isMember, _ := out[0].(bool)
			n++
			if matched != isMember && bad == "" {
				bad = fmt.Sprintf(":match_prefix(%s, %s) is %v at run time, but %s is a member of the type %s: %v; bounds analysis narrows the variable to that type after the test", nm, p, matched, nm, p, isMember)
			}
		}
	}
	c.Check(bad == "" && ak.ok, rC11Prefix, f.Name+"::match_prefix", f.Decl.Pos(), fmt.Sprintf("run-time test and type membership agree on %d name/prefix pairs", n), bad)
}
