package props

import (
	"fmt"
	"go/ast"
	"go/constant"
	"go/token"
	"go/types"
	"sort"
	"strings"

	"golang.org/x/tools/go/cfg"

	"mgcheck/core"
)

// Grammar-aware analysis of the visitor in parse/parse.go.
//
// A node of the parse tree is abstracted by a "child vector": how many
// children of each grammar symbol it has. The possible vectors of a rule (or
// labelled alternative) are enumerated from Mangle.g4 (repetitions capped at
// three, which is exact for the comparisons with constants <= 2 that occur).
// A forward dataflow over the CFG of each visitor method narrows the set of
// vectors by the branch conditions (x != nil, len(xs) OP k); at every site
// that dereferences a child, indexes a child list or asserts the type of a
// visit result, the remaining vectors must all make the operation safe.

const g4Cap = 3

type childVec map[string]int

func (v childVec) key() string {
	ks := make([]string, 0, len(v))
	for k, n := range v {
		if n > 0 {
			ks = append(ks, fmt.Sprintf("%s=%d", k, n))
		}
	}
	sort.Strings(ks)
	return strings.Join(ks, ",")
}

func addVec(a, b childVec) childVec {
	out := childVec{}
	for k, n := range a {
		out[k] += n
	}
	for k, n := range b {
		out[k] += n
	}
	for k := range out {
		if out[k] > g4Cap {
			out[k] = g4Cap
		}
	}
	return out
}

func dedupe(vs []childVec) []childVec {
	seen := map[string]bool{}
	var out []childVec
	for _, v := range vs {
		if k := v.key(); !seen[k] {
			seen[k] = true
			out = append(out, v)
		}
	}
	return out
}

func (g *g4Grammar) expand(n *g4Node) []childVec {
	switch n.kind {
	case "ref":
		return []childVec{{n.name: 1}}
	case "lit":
		if tok := g.literals[n.name]; tok != "" {
			return []childVec{{tok: 1}}
		}
		return []childVec{{}}
	case "set":
		return []childVec{{}}
	case "seq":
		cur := []childVec{{}}
		for _, k := range n.kids {
			var next []childVec
			for _, a := range cur {
				for _, b := range g.expand(k) {
					next = append(next, addVec(a, b))
				}
			}
			cur = dedupe(next)
		}
		return cur
	case "alt":
		var out []childVec
		for _, k := range n.kids {
			out = append(out, g.expand(k)...)
		}
		return dedupe(out)
	case "opt":
		return dedupe(append([]childVec{{}}, g.expand(n.kids[0])...))
	case "star", "plus":
		body := g.expand(n.kids[0])
		cur := []childVec{{}}
		all := []childVec{}
		if n.kind == "star" {
			all = append(all, childVec{})
		}
		for i := 0; i < g4Cap; i++ {
			var next []childVec
			for _, a := range cur {
				for _, b := range body {
					next = append(next, addVec(a, b))
				}
			}
			cur = dedupe(next)
			all = append(all, cur...)
		}
		return dedupe(all)
	}
	return []childVec{{}}
}

func (g *g4Grammar) vectors(rule, label string) []childVec {
	r := g.rules[rule]
	if r == nil {
		return nil
	}
	if label == "" {
		return g.expand(r.body)
	}
	for _, alt := range r.body.kids {
		if strings.EqualFold(alt.label, label) {
			return g.expand(alt)
		}
	}
	return nil
}

func lowerFirst(s string) string {
	if s == "" {
		return s
	}
	return strings.ToLower(s[:1]) + s[1:]
}

// ctxRule maps a generated context type to its grammar rule and label.
func (g *g4Grammar) ctxRule(t types.Type) (rule, label string, ok bool) {
	if p, isPtr := t.(*types.Pointer); isPtr {
		t = p.Elem()
	}
	n, isNamed := t.(*types.Named)
	if !isNamed || n.Obj().Pkg() == nil || !strings.HasSuffix(n.Obj().Pkg().Path(), "/parse/gen") {
		return "", "", false
	}
	name := n.Obj().Name()
	if !strings.HasSuffix(name, "Context") {
		return "", "", false
	}
	name = strings.TrimSuffix(name, "Context")
	if _, isIface := n.Underlying().(*types.Interface); isIface {
		name = strings.TrimPrefix(name, "I")
	}
	if r := g.rules[lowerFirst(name)]; r != nil && lowerFirst(name) != name {
		return lowerFirst(name), "", true
	}
	if r := g.ruleOfLabel(name); r != "" {
		return r, name, true
	}
	return "", "", false
}

// accessor describes ctx.X(), ctx.X(i) or ctx.AllX().
type accessor struct {
	recv string // source text of the receiver
	rule string
	lab  string
	sym  string
	idx  int
	all  bool
}

type c10fn struct {
	a      *c10Analysis
	f      *core.Func
	info   *types.Info
	alias  map[types.Object]accessor // v := ctx.X()
	elems  map[types.Object]bool     // range variables over ctx.AllX(): non-nil contexts
	texts  map[types.Object]string   // text := ctx.TOK().GetText(): token name
	g      *core.Graph
	state  map[int32]map[int]bool // block index -> possible vector indices
	vecs   []childVec
	rule   string
	lab    string
	ctxObj types.Object
}

type c10Analysis struct {
	c        *core.Ctx
	g        *g4Grammar
	visit    *core.Func
	cases    []types.Type          // case types of Parser.Visit
	caseFn   map[string]*core.Func // type string -> VisitX
	resMemo  map[*core.Func][]resT
	fnMemo   map[*core.Func]*c10fn
	visiting map[*core.Func]bool
}

type resT struct {
	t   types.Type // nil: untyped nil
	pos token.Pos
	why string // non-empty: undecidable
}

func (a *c10Analysis) accessorOf(info *types.Info, e ast.Expr) (accessor, bool) {
	call, ok := ast.Unparen(e).(*ast.CallExpr)
	if !ok {
		return accessor{}, false
	}
	sel, ok := call.Fun.(*ast.SelectorExpr)
	if !ok {
		return accessor{}, false
	}
	rule, lab, ok := a.g.ctxRule(info.TypeOf(sel.X))
	if !ok {
		return accessor{}, false
	}
	name := sel.Sel.Name
	acc := accessor{recv: core.SrcFull(a.c.Prog.Fset, sel.X), rule: rule, lab: lab}
	if strings.HasPrefix(name, "All") && len(call.Args) == 0 {
		acc.all = true
		name = name[3:]
	}
	switch {
	case a.g.rules[name] != nil && strings.ToUpper(name) == name:
		acc.sym = name
	case a.g.rules[lowerFirst(name)] != nil && lowerFirst(name) != name:
		acc.sym = lowerFirst(name)
	default:
		return accessor{}, false
	}
	if !acc.all && len(call.Args) == 1 {
		tv := info.Types[call.Args[0]]
		if tv.Value == nil {
			return accessor{}, false
		}
		n, _ := constant.Int64Val(tv.Value)
		acc.idx = int(n)
	} else if len(call.Args) > 0 {
		return accessor{}, false
	}
	return acc, true
}

func (a *c10Analysis) analyse(f *core.Func) *c10fn {
	if fa, ok := a.fnMemo[f]; ok {
		return fa
	}
	fa := &c10fn{a: a, f: f, info: f.Pkg.TypesInfo, alias: map[types.Object]accessor{}, elems: map[types.Object]bool{}, texts: map[types.Object]string{}}
	a.fnMemo[f] = fa
	// the context parameter
	if f.Decl.Type.Params != nil {
		for _, fld := range f.Decl.Type.Params.List {
			for _, nm := range fld.Names {
				if r, l, ok := a.g.ctxRule(fa.info.TypeOf(fld.Type)); ok {
					fa.rule, fa.lab, fa.ctxObj = r, l, fa.info.Defs[nm]
				}
			}
		}
	}
	if fa.rule != "" {
		fa.vecs = a.g.vectors(fa.rule, fa.lab)
	} else {
		fa.vecs = []childVec{{}}
	}
	// aliases: single definitions from accessors
	assigned := map[types.Object]int{}
	core.Walk(f.Decl.Body, true, func(n ast.Node) bool {
		switch s := n.(type) {
		case *ast.AssignStmt:
			for _, l := range s.Lhs {
				if id, ok := l.(*ast.Ident); ok {
					if o := fa.info.ObjectOf(id); o != nil {
						assigned[o]++
					}
				}
			}
		case *ast.RangeStmt:
			for _, l := range []ast.Expr{s.Key, s.Value} {
				if id, ok := l.(*ast.Ident); ok && id != nil {
					if o := fa.info.ObjectOf(id); o != nil {
						assigned[o]++
					}
				}
			}
		}
		return true
	})
	core.Walk(f.Decl.Body, true, func(n ast.Node) bool {
		switch s := n.(type) {
		case *ast.AssignStmt:
			if len(s.Lhs) == 1 && len(s.Rhs) == 1 && s.Tok == token.DEFINE {
				id, ok := s.Lhs[0].(*ast.Ident)
				if !ok {
					return true
				}
				o := fa.info.Defs[id]
				if o == nil {
					return true
				}
				if acc, ok := a.accessorOf(fa.info, s.Rhs[0]); ok && assigned[o] == 1 {
					fa.alias[o] = acc
				}
				// text := ctx.TOK().GetText()   (the variable may be reassigned later; uses are checked positionally)
				if call, ok := s.Rhs[0].(*ast.CallExpr); ok {
					if sel, ok := call.Fun.(*ast.SelectorExpr); ok && sel.Sel.Name == "GetText" {
						if acc, ok := a.accessorOf(fa.info, sel.X); ok && !acc.all && strings.ToUpper(acc.sym) == acc.sym {
							fa.texts[o] = acc.sym
						}
					}
				}
			}
		case *ast.RangeStmt:
			if id, ok := s.Value.(*ast.Ident); ok && s.Tok == token.DEFINE {
				src := s.X
				if xid, ok := ast.Unparen(src).(*ast.Ident); ok {
					if acc, ok := fa.alias[fa.info.ObjectOf(xid)]; ok && acc.all {
						fa.elems[fa.info.Defs[id]] = true
					}
				} else if acc, ok := a.accessorOf(fa.info, src); ok && acc.all {
					fa.elems[fa.info.Defs[id]] = true
				}
			}
		}
		return true
	})
	// dataflow
	fa.g = a.c.Prog.CFGOf(f)
	fa.state = map[int32]map[int]bool{}
	blocks := fa.g.CFG.Blocks
	if len(blocks) == 0 {
		return fa
	}
	all := map[int]bool{}
	for i := range fa.vecs {
		all[i] = true
	}
	fa.state[blocks[0].Index] = all
	work := []*cfg.Block{blocks[0]}
	push := func(b *cfg.Block, s map[int]bool) {
		cur := fa.state[b.Index]
		if cur == nil {
			cur = map[int]bool{}
			fa.state[b.Index] = cur
		}
		changed := false
		for i := range s {
			if !cur[i] {
				cur[i] = true
				changed = true
			}
		}
		if changed {
			work = append(work, b)
		}
	}
	for len(work) > 0 {
		b := work[0]
		work = work[1:]
		s := fa.state[b.Index]
		if len(b.Succs) == 2 && len(b.Nodes) > 0 {
			if cond, ok := b.Nodes[len(b.Nodes)-1].(ast.Expr); ok {
				t, f := map[int]bool{}, map[int]bool{}
				for i := range s {
					val, known := fa.evalCond(cond, fa.vecs[i])
					if !known || val {
						t[i] = true
					}
					if !known || !val {
						f[i] = true
					}
				}
				push(b.Succs[0], t)
				push(b.Succs[1], f)
				continue
			}
		}
		for _, sc := range b.Succs {
			push(sc, s)
		}
	}
	return fa
}

func (fa *c10fn) accOf(e ast.Expr) (accessor, bool) {
	e = ast.Unparen(e)
	if id, ok := e.(*ast.Ident); ok {
		acc, ok := fa.alias[fa.info.ObjectOf(id)]
		return acc, ok
	}
	return fa.a.accessorOf(fa.info, e)
}

func (fa *c10fn) count(acc accessor, v childVec) (int, bool) {
	if fa.ctxObj == nil || acc.recv != fa.ctxObj.Name() {
		return 0, false
	}
	return v[acc.sym], true
}

// evalCond evaluates a branch condition on a child vector.
func (fa *c10fn) evalCond(e ast.Expr, v childVec) (val, known bool) {
	e = ast.Unparen(e)
	switch x := e.(type) {
	case *ast.UnaryExpr:
		if x.Op == token.NOT {
			val, known := fa.evalCond(x.X, v)
			return !val, known
		}
	case *ast.BinaryExpr:
		switch x.Op {
		case token.LAND:
			a, ka := fa.evalCond(x.X, v)
			b, kb := fa.evalCond(x.Y, v)
			if ka && !a || kb && !b {
				return false, true
			}
			return a && b, ka && kb
		case token.LOR:
			a, ka := fa.evalCond(x.X, v)
			b, kb := fa.evalCond(x.Y, v)
			if ka && a || kb && b {
				return true, true
			}
			return a || b, ka && kb
		case token.EQL, token.NEQ:
			// acc == nil / acc != nil
			var other ast.Expr
			if id, ok := ast.Unparen(x.Y).(*ast.Ident); ok && id.Name == "nil" && fa.info.Types[x.Y].IsNil() {
				other = x.X
			} else if id, ok := ast.Unparen(x.X).(*ast.Ident); ok && id.Name == "nil" && fa.info.Types[x.X].IsNil() {
				other = x.Y
			}
			if other != nil {
				if acc, ok := fa.accOf(other); ok && !acc.all {
					if n, ok := fa.count(acc, v); ok {
						present := n > acc.idx
						return present == (x.Op == token.NEQ), true
					}
				}
				return false, false
			}
			fallthrough
		case token.LSS, token.LEQ, token.GTR, token.GEQ:
			// len(xs) OP k
			l, lok := fa.lenOf(x.X, v)
			r, rok := fa.lenOf(x.Y, v)
			if lok && rok {
				if l >= g4Cap && r >= g4Cap {
					return false, false
				}
				switch x.Op {
				case token.EQL:
					return l == r, true
				case token.NEQ:
					return l != r, true
				case token.LSS:
					return l < r, true
				case token.LEQ:
					return l <= r, true
				case token.GTR:
					return l > r, true
				case token.GEQ:
					return l >= r, true
				}
			}
		}
	}
	return false, false
}

// lenOf evaluates len(xs) for a child list, or an integer constant below the cap.
func (fa *c10fn) lenOf(e ast.Expr, v childVec) (int, bool) {
	e = ast.Unparen(e)
	if tv := fa.info.Types[e]; tv.Value != nil && tv.Value.Kind() == constant.Int {
		n, _ := constant.Int64Val(tv.Value)
		if n >= 0 && n < g4Cap {
			return int(n), true
		}
		return 0, false
	}
	if call, ok := e.(*ast.CallExpr); ok && len(call.Args) == 1 {
		if id, ok := call.Fun.(*ast.Ident); ok && id.Name == "len" {
			if acc, ok := fa.accOf(call.Args[0]); ok && acc.all {
				return fa.count(acc, v)
			}
		}
	}
	return 0, false
}

// vectorsAt returns the child vectors possible when control reaches pos.
func (fa *c10fn) vectorsAt(pos token.Pos) ([]childVec, bool) {
	ref, ok := fa.g.RefAt(pos)
	if !ok {
		return nil, false
	}
	var out []childVec
	for i := range fa.state[ref.B.Index] {
		out = append(out, fa.vecs[i])
	}
	return out, true
}

// present decides whether the child named by the accessor exists in every vector possible at pos.
func (fa *c10fn) present(acc accessor, pos token.Pos) (ok bool, counter string, decided bool) {
	vs, found := fa.vectorsAt(pos)
	if !found {
		return false, "", false
	}
	for _, v := range vs {
		n, known := fa.count(acc, v)
		if !known {
			return false, "", false
		}
		if n <= acc.idx {
			return false, "a " + fa.describe() + " node with children {" + v.key() + "}", true
		}
	}
	return true, "", true
}

func (fa *c10fn) describe() string {
	if fa.lab != "" {
		return fa.rule + "#" + fa.lab
	}
	return fa.rule
}

// insideLit reports whether pos lies inside a function literal of f (those have their own CFG and are not analysed).
func insideLit(f *core.Func, pos token.Pos) bool {
	in := false
	core.Walk(f.Decl.Body, true, func(n ast.Node) bool {
		if fl, ok := n.(*ast.FuncLit); ok && fl.Pos() <= pos && pos < fl.End() {
			in = true
		}
		return true
	})
	return in
}

// ---- visit result typing ----

func (a *c10Analysis) init() bool {
	c := a.c
	a.visit = c.MustFunc(rC10Type, "parse", "Parser.Visit")
	if a.visit == nil {
		return false
	}
	info := a.visit.Pkg.TypesInfo
	a.caseFn = map[string]*core.Func{}
	core.Walk(a.visit.Decl.Body, false, func(n ast.Node) bool {
		cc, ok := n.(*ast.CaseClause)
		if !ok || len(cc.List) != 1 {
			return true
		}
		t := info.TypeOf(cc.List[0])
		if t == nil {
			return true
		}
		var callee *types.Func
		core.Walk(cc, false, func(m ast.Node) bool {
			if call, ok := m.(*ast.CallExpr); ok {
				if fn, ok := core.Callee(info, call).(*types.Func); ok && strings.HasPrefix(fn.Name(), "Visit") && fn.Name() != "Visit" {
					callee = fn
				}
			}
			return true
		})
		if callee == nil {
			return true
		}
		f := c.Prog.Func("parse", "Parser."+callee.Name())
		if f == nil {
			c.Unres(rC10Type, "parse.Parser."+callee.Name(), cc.Pos(), "anchor-unresolved: visitor method not found")
			return true
		}
		a.cases = append(a.cases, t)
		a.caseFn[types.TypeString(t, nil)] = f
		return true
	})
	return len(a.cases) > 0
}

// candidates returns the visitor methods a Visit call with an argument of static type t may dispatch to.
func (a *c10Analysis) candidates(t types.Type) ([]*core.Func, string) {
	var out []*core.Func
	if _, isIface := t.Underlying().(*types.Interface); !isIface {
		if f := a.caseFn[types.TypeString(t, nil)]; f != nil {
			return []*core.Func{f}, ""
		}
		return nil, "Parser.Visit has no case for " + types.TypeString(t, nil) + " and returns nil for it"
	}
	rule, _, ok := a.g.ctxRule(t)
	if !ok {
		return nil, "the static type " + types.TypeString(t, nil) + " does not name a grammar rule"
	}
	for _, ct := range a.cases {
		if types.AssignableTo(ct, t) {
			r, _, _ := a.g.ctxRule(ct)
			if r == rule {
				out = append(out, a.caseFn[types.TypeString(ct, nil)])
			}
		}
	}
	// every labelled alternative (or the rule itself) needs a case
	r := a.g.rules[rule]
	labels := 0
	for _, alt := range r.body.kids {
		if alt.label != "" {
			labels++
		}
	}
	want := 1
	if labels > 0 {
		want = labels
		if labels != len(r.body.kids) {
			return nil, "rule " + rule + " mixes labelled and unlabelled alternatives"
		}
	}
	if len(out) != want {
		return nil, fmt.Sprintf("rule %s has %d kinds of node but Parser.Visit dispatches %d of them; for the others it returns nil", rule, want, len(out))
	}
	return out, ""
}

// results computes the possible dynamic types of a visitor method's result (dead returns excluded).
func (a *c10Analysis) results(f *core.Func) []resT {
	if r, ok := a.resMemo[f]; ok {
		return r
	}
	if a.visiting[f] {
		return nil
	}
	a.visiting[f] = true
	defer delete(a.visiting, f)
	fa := a.analyse(f)
	var out []resT
	core.Walk(f.Decl.Body, false, func(n ast.Node) bool {
		ret, ok := n.(*ast.ReturnStmt)
		if !ok || len(ret.Results) != 1 {
			return true
		}
		if vs, ok := fa.vectorsAt(ret.Pos()); ok && len(vs) == 0 {
			return true // unreachable for every parse tree the grammar allows
		}
		out = append(out, a.exprResults(fa, ret.Results[0])...)
		return true
	})
	a.resMemo[f] = out
	return out
}

func (a *c10Analysis) exprResults(fa *c10fn, e ast.Expr) []resT {
	e = ast.Unparen(e)
	tv := fa.info.Types[e]
	if tv.IsNil() {
		return []resT{{pos: e.Pos()}}
	}
	if call, ok := e.(*ast.CallExpr); ok {
		if fn, ok := core.Callee(fa.info, call).(*types.Func); ok && fn.Name() == "Visit" && len(call.Args) == 1 && strings.HasSuffix(fn.Pkg().Path(), "/parse") {
			cands, why := a.candidates(fa.info.TypeOf(call.Args[0]))
			if why != "" {
				return []resT{{pos: e.Pos(), why: why}}
			}
			var out []resT
			for _, cf := range cands {
				out = append(out, a.results(cf)...)
			}
			return out
		}
	}
	t := tv.Type
	if t == nil {
		return []resT{{pos: e.Pos(), why: "untyped result"}}
	}
	if it, ok := t.Underlying().(*types.Interface); ok && it.Empty() {
		if id, ok := e.(*ast.Ident); ok {
			if rhs := singleDef(fa, id); rhs != nil {
				return a.exprResults(fa, rhs)
			}
		}
		return []resT{{pos: e.Pos(), why: "a value of type any whose origin is not a visit call"}}
	}
	return []resT{{t: t, pos: e.Pos()}}
}

// singleDef returns the right-hand side of the only assignment to the variable (x := rhs).
func singleDef(fa *c10fn, id *ast.Ident) ast.Expr {
	o := fa.info.ObjectOf(id)
	var rhs ast.Expr
	n := 0
	core.Walk(fa.f.Decl.Body, true, func(m ast.Node) bool {
		if as, ok := m.(*ast.AssignStmt); ok {
			for i, l := range as.Lhs {
				if lid, ok := l.(*ast.Ident); ok && fa.info.ObjectOf(lid) == o {
					n++
					if len(as.Lhs) == len(as.Rhs) {
						rhs = as.Rhs[i]
					} else {
						rhs = nil
					}
				}
			}
		}
		return true
	})
	if n == 1 {
		return rhs
	}
	return nil
}

func assertable(r types.Type, target types.Type) bool {
	if _, isIface := target.Underlying().(*types.Interface); isIface {
		return types.AssignableTo(r, target)
	}
	return types.Identical(r, target)
}
