package props

import (
	"fmt"
	"sort"
	"strings"

	"mgcheck/core"
	"mgcheck/ordabs"
)

// c15Recording feeds the rule firings of the program to the interpreted MemoryRecorder and
// checks the proofs BuildFromRecording assembles.
func c15Recording(c *core.Ctx, r *c15Rig, prog hProgram, facts []string, base map[string]bool, addPool func(*proofView)) {
	newRec := c.MustFunc(rC15Rec, "provenance", "NewMemoryRecorder")
	fired := c.MustFunc(rC15Rec, "provenance", "MemoryRecorder.RuleFired")
	build := c.MustFunc(rC15Rec, "provenance", "BuildFromRecording")
	ufNew := c.MustFunc(rC15Rec, "unionfind", "New")
	ufExt := c.MustFunc(rC15Rec, "unionfind", "UnifyTermsExtend")
	for _, n := range []string{"builder.build", "builder.buildRule", "builder.buildFromEvent", "MemoryRecorder.EventsFor"} {
		if c.MustFunc(rC15Rec, "provenance", n) == nil {
			return
		}
	}
	if newRec == nil || fired == nil || build == nil || ufNew == nil || ufExt == nil {
		return
	}
	in := r.in
	call := func(f *core.Func, recv ordabs.Value, args ...ordabs.Value) ([]ordabs.Value, bool) {
		in.Reset()
		in.Fuel = 3000000
		out, err := in.Call(f, recv, args)
		if !runORD(c, rC15Rec, f.Name+":"+prog.name, f, err) {
			return nil, false
		}
		return out, true
	}
	out, ok := call(newRec, nil)
	if !ok {
		return
	}
	rec := out[0]
	_, firings := prog.evaluate()
	for _, fr := range firings {
		rule := r.rules[fr.rule]
		// substitution: unify the rule's variables with their values
		var names []string
		for v := range fr.sigma {
			names = append(names, v)
		}
		sort.Strings(names)
		var xs, ys []ordabs.Value
		for _, v := range names {
			xs = append(xs, r.q.term(hv(v)))
			ys = append(ys, r.q.term(hc(fr.sigma[v])))
		}
		o, ok := call(ufNew, nil)
		if !ok {
			return
		}
		uf := o[0]
		if len(xs) > 0 {
			o, ok = call(ufExt, nil, &ordabs.Slice{Elems: &xs}, &ordabs.Slice{Elems: &ys}, uf)
			if !ok {
				return
			}
			uf = o[0]
		}
		var pfs []ordabs.Value
		for _, pr := range rule.prems {
			if pr.kind == "atom" {
				g, _ := groundArgs(pr.args, fr.sigma)
				pfs = append(pfs, r.atomRec(hFact(pr.pred, g)))
			} else {
				pfs = append(pfs, r.q.k.zero("ast", "Atom"))
			}
		}
		if _, ok := call(fired, rec, r.q.clause(rule), r.atomRec(fr.head), uf, &ordabs.Slice{Elems: &pfs}); !ok {
			return
		}
	}
	bad := ""
	n := 0
	for _, maxProofs := range []int64{1, 3} {
		for _, f := range facts {
			opts := &ordabs.Rec{T: "provenance.Options", Fields: map[string]ordabs.Value{"MaxProofs": maxProofs, "MaxDepth": int64(0)}}
			out, ok := call(build, nil, rec, &ordabs.Obj{Name: "store", Opaque: true}, r.atomRec(f), opts)
			if !ok {
				return
			}
			ps, _ := out[0].(*ordabs.Slice)
			if out[1] != nil || ps == nil || len(*ps.Elems) == 0 {
				if bad == "" {
					bad = fmt.Sprintf("the stored fact %s has no proof in the recording (MaxProofs=%d)", f, maxProofs)
				}
				continue
			}
			memo := map[*ordabs.Obj]*proofView{}
			for i, pv := range *ps.Elems {
				v := r.view(pv, memo)
				n++
				if v.fact != f && bad == "" {
					bad = fmt.Sprintf("the proof built for %s proves %s", f, v.fact)
				}
				// alternative derivations may run into a cycle and are then marked partial; the first must be complete
				if i > 0 && hasPartial(v, map[*proofView]bool{}) {
					continue
				}
				if why := r.checkProof(v, map[string]bool{}, base); why != "" && bad == "" {
					bad = fmt.Sprintf("goal %s (from the recording): %s", f, why)
				}
				addPool(v)
			}
		}
	}
	c.Check(bad == "", rC15Rec, build.Name+":"+prog.name, build.Decl.Pos(), fmt.Sprintf("%d firings recorded, %d proofs for %d facts pass the checker", len(firings), n, len(facts)), bad)
}

func hasPartial(p *proofView, seen map[*proofView]bool) bool {
	if p == nil || seen[p] {
		return false
	}
	seen[p] = true
	if p.partial {
		return true
	}
	for _, s := range p.premises {
		if hasPartial(s, seen) {
			return true
		}
	}
	return false
}

// c15Engine evaluates oneStepEvalClause on delta rules with and without a recorder.
func c15Engine(c *core.Ctx) {
	f := c.MustFunc(rC15Engine, "engine", "engine.oneStepEvalClause")
	c.MustFunc(rC15Engine, "engine", "normalizeRule")
	c.MustFunc(rC15Engine, "engine", "engine.resolvePremiseFacts")
	mkDelta := c.MustFunc(rC15Engine, "engine", "makeSingleDeltaRule")
	if f == nil || mkDelta == nil {
		return
	}
	k := &astKit{c: c, ok: true}
	ck := newConstKit(c, rC15Engine)
	if !ck.ok {
		return
	}
	q := &clauseKit{k: k, ck: ck}
	in := ordabs.New(c.Prog)
	in.InstallErrorStubs()
	in.InstallTimeStubs()
	in.InstallStringStubs()
	X, Y, Z := hv("X"), hv("Y"), hv("Z")
	rule := hClause{headPred: "path", head: []hTerm{X, Z}, prems: []hPrem{
		{kind: "atom", pred: "edge", args: []hTerm{X, Y}}, {kind: "atom", pred: "path", args: []hTerm{Y, Z}}, {kind: "ineq", l: X, r: Z}, {kind: "neg", pred: "blocked", args: []hTerm{X}}}}
	sols := []map[string]int64{{"X": 1, "Y": 2, "Z": 3}, {"X": 2, "Y": 3, "Z": 4}}
	// the premise join is stubbed: the last premise yields the solutions, the others pass the substitution on
	var cur []map[string]int64
	in.Stubs["engine.engine.oneStepEvalPremise"] = func(in *ordabs.Interp, _ ordabs.Value, a []ordabs.Value) ([]ordabs.Value, error) {
		t, _ := a[0].(*ordabs.Rec)
		if t != nil && t.T == "ast.NegAtom" {
			var out []ordabs.Value
			for _, s := range cur {
				var xs, ys []ordabs.Value
				for _, v := range []string{"X", "Y", "Z"} {
					xs = append(xs, q.term(hv(v)))
					ys = append(ys, q.term(hc(s[v])))
				}
				ext := c.Prog.Func("unionfind", "UnifyTermsExtend")
				o, err := in.Call(ext, nil, []ordabs.Value{&ordabs.Slice{Elems: &xs}, &ordabs.Slice{Elems: &ys}, a[1]})
				if err != nil {
					return nil, err
				}
				out = append(out, o[0])
			}
			return []ordabs.Value{&ordabs.Slice{Elems: &out}, nil}, nil
		}
		one := []ordabs.Value{a[1]}
		return []ordabs.Value{&ordabs.Slice{Elems: &one}, nil}, nil
	}
	in.Stubs["factstore.ReadOnlyFactStore.EstimateFactCount"] = func(in *ordabs.Interp, _ ordabs.Value, _ []ordabs.Value) ([]ordabs.Value, error) {
		return []ordabs.Value{int64(0)}, nil
	}
	in.Stubs["factstore.FactStore.EstimateFactCount"] = in.Stubs["factstore.ReadOnlyFactStore.EstimateFactCount"]
	type firedEv struct {
		rule, head string
		prems      int
		pfacts     []string
		delta      bool
	}
	var events []firedEv
	in.Stubs["engine.DerivationRecorder.RuleFired"] = func(in *ordabs.Interp, _ ordabs.Value, a []ordabs.Value) ([]ordabs.Value, error) {
		cl, _ := a[0].(*ordabs.Rec)
		ev := firedEv{rule: clauseString(cl), head: atomString(a[1])}
		if ps, ok := cl.Fields["Premises"].(*ordabs.Slice); ok && ps != nil {
			ev.prems = len(*ps.Elems)
		}
		ev.delta = strings.Contains(ev.rule, "Δ") || strings.Contains(ev.rule, "delta")
		if pf, ok := a[3].(*ordabs.Slice); ok && pf != nil {
			for _, x := range *pf.Elems {
				ev.pfacts = append(ev.pfacts, atomString(x))
			}
		}
		events = append(events, ev)
		return nil, nil
	}
	mkEngine := func(withRecorder bool) *ordabs.Obj {
		opts := k.zero("engine", "EvalOptions")
		if withRecorder {
			opts.Fields["recorder"] = &ordabs.Obj{Name: "recorder", Opaque: true}
		}
		eng := k.zero("engine", "engine")
		eng.Fields["options"] = opts
		eng.Fields["predToDecl"] = ordabs.NewMap()
		eng.Fields["store"] = &ordabs.Obj{Name: "store", Opaque: true}
		return &ordabs.Obj{Name: "engine", Fields: eng.Fields}
	}
	if !k.ok {
		c.Unres(rC15Engine, f.Name, f.Decl.Pos(), "anchor-unresolved: engine types")
		return
	}
	prefix, _ := constString(c.Prog, "engine", "deltaStringPrefix")
	bad, sameBad := "", ""
	n := 0
	for deltaPos := -1; deltaPos <= 1; deltaPos++ {
		var clause ordabs.Value = q.clause(rule)
		if deltaPos >= 0 {
			in.Reset()
			out, err := in.Call(mkDelta, nil, []ordabs.Value{clause, int64(deltaPos)})
			if !runORD(c, rC15Engine, mkDelta.Name, mkDelta, err) {
				return
			}
			clause = out[0]
		}
		var results [2][]string
		for i, withRec := range []bool{false, true} {
			cur = sols
			events = nil
			in.Reset()
			in.Fuel = 1000000
			out, err := in.Call(f, mkEngine(withRec), []ordabs.Value{clause})
			if !runORD(c, rC15Engine, f.Name, f, err) {
				return
			}
			if fs, ok := out[0].(*ordabs.Slice); ok && fs != nil {
				for _, x := range *fs.Elems {
					if fr, ok := x.(*ordabs.Rec); ok {
						results[i] = append(results[i], atomString(fr.Fields["Atom"]))
					}
				}
			}
			if !withRec {
				if len(events) > 0 && bad == "" {
					bad = "RuleFired is called although no recorder is configured"
				}
				continue
			}
			n += len(events)
			if len(events) != len(sols) && bad == "" {
				bad = fmt.Sprintf("%d solutions but %d RuleFired events", len(sols), len(events))
			}
			for j, ev := range events {
				switch {
				case bad != "":
				case prefix != "" && strings.Contains(ev.rule, prefix):
					bad = fmt.Sprintf("the rule handed to the recorder is the rewritten delta rule %q, not the program's rule: proofs then cite a rule that is not in the program and delta and non-delta firings get different rule identifiers", ev.rule)
				case ev.rule != clauseCanon(rule):
					bad = fmt.Sprintf("the rule handed to the recorder is %q, the program's rule is %q", ev.rule, clauseCanon(rule))
				case len(ev.pfacts) != ev.prems:
					bad = fmt.Sprintf("%d premise facts for a rule with %d premises", len(ev.pfacts), ev.prems)
				case j < len(results[1]) && ev.head != results[1][j]:
					bad = fmt.Sprintf("event %d reports the head %s, the derived fact is %s", j, ev.head, results[1][j])
				default:
					s := sols[j]
					want := []string{hFact("edge", []int64{s["X"], s["Y"]}), hFact("path", []int64{s["Y"], s["Z"]})}
					if ev.pfacts[0] != want[0] || ev.pfacts[1] != want[1] {
						bad = fmt.Sprintf("the premise facts of the firing %v are %v, want %v first (delta predicates mapped back)", s, ev.pfacts, want)
					}
				}
			}
		}
		if strings.Join(results[0], " ") != strings.Join(results[1], " ") && sameBad == "" {
			sameBad = fmt.Sprintf("delta position %d: without a recorder the clause derives %v, with one %v", deltaPos, results[0], results[1])
		}
	}
	c.Check(bad == "", rC15Engine, f.Name+":RuleFired", f.Decl.Pos(), fmt.Sprintf("%d events over the plain rule and its two delta variants cite the program's rule with matching premise facts", n), bad)
	c.Check(sameBad == "", rC15Engine, f.Name+":same-result", f.Decl.Pos(), "identical derived facts with and without a recorder", sameBad)
}

const rC15Events = "ORDABS.events-for-is-exact"

// c15EventsFor: MemoryRecorder.EventsFor returns exactly the events whose output equals the queried atom, also
// when different atoms share a hash (the index is keyed by the 64-bit atom hash).
func c15EventsFor(c *core.Ctx, r *c15Rig) {
	c.Rule(rC15Events, "MemoryRecorder (RuleFired, add, EventsFor) is read from source and evaluated with an atom hash under which all atoms collide, and with an injective one: EventsFor(a) returns exactly the recorded events whose output equals a, in recording order - a proof is never assembled from the derivation of another fact that merely shares the hash", 2)
	newRec := c.MustFunc(rC15Events, "provenance", "NewMemoryRecorder")
	fired := c.MustFunc(rC15Events, "provenance", "MemoryRecorder.RuleFired")
	evFor := c.MustFunc(rC15Events, "provenance", "MemoryRecorder.EventsFor")
	if newRec == nil || fired == nil || evFor == nil {
		return
	}
	in := r.in
	saved := in.Stubs["ast.Atom.Hash"]
	defer func() { in.Stubs["ast.Atom.Hash"] = saved }()
	for _, mode := range []string{"injective", "all-collide"} {
		if mode == "all-collide" {
			in.Stubs["ast.Atom.Hash"] = func(in *ordabs.Interp, _ ordabs.Value, _ []ordabs.Value) ([]ordabs.Value, error) {
				return []ordabs.Value{int64(7)}, nil
			}
		}
		call := func(f *core.Func, recv ordabs.Value, args ...ordabs.Value) ([]ordabs.Value, bool) {
			in.Reset()
			in.Fuel = 300000
			out, err := in.Call(f, recv, args)
			if !runORD(c, rC15Events, f.Name+":"+mode, f, err) {
				return nil, false
			}
			return out, true
		}
		out, ok := call(newRec, nil)
		if !ok {
			return
		}
		rec := out[0]
		heads := []string{"p(1)", "p(2)", "q(1)", "p(1)", "p(2,1)", "p(2)", "p(1)"}
		rule := r.q.clause(hClause{headPred: "p", head: []hTerm{hv("X")}, prems: []hPrem{{kind: "atom", pred: "e", args: []hTerm{hv("X")}}}})
		for i, h := range heads {
			pf := []ordabs.Value{r.atomRec(fmt.Sprintf("e(%d)", i))}
			if _, ok := call(fired, rec, rule, r.atomRec(h), &ordabs.Obj{Name: "subst", Opaque: true}, &ordabs.Slice{Elems: &pf}); !ok {
				return
			}
		}
		bad := ""
		for _, goal := range []string{"p(1)", "p(2)", "q(1)", "p(2,1)", "p(3)", "q(2)"} {
			out, ok := call(evFor, rec, r.atomRec(goal))
			if !ok {
				return
			}
			var got, want []string
			if sl, _ := out[0].(*ordabs.Slice); sl != nil && sl.Elems != nil {
				for _, e := range *sl.Elems {
					eo, _ := e.(*ordabs.Obj)
					if eo == nil {
						got = append(got, "?")
						continue
					}
					pfs, _ := eo.Fields["PremiseFacts"].(*ordabs.Slice)
					tag := "?"
					if pfs != nil && pfs.Elems != nil && len(*pfs.Elems) == 1 {
						tag = atomString((*pfs.Elems)[0])
					}
					got = append(got, atomString(eo.Fields["Output"])+"<-"+tag)
				}
			}
			for i, h := range heads {
				if h == goal {
					want = append(want, fmt.Sprintf("%s<-e(%d)", h, i))
				}
			}
			if strings.Join(got, " ") != strings.Join(want, " ") && bad == "" {
				bad = fmt.Sprintf("%s hashes: after recording derivations of [%s], EventsFor(%s) returns [%s], want [%s]", mode, strings.Join(heads, " "), goal, strings.Join(got, " "), strings.Join(want, " "))
			}
		}
		c.Check(bad == "", rC15Events, evFor.Name+":"+mode, evFor.Decl.Pos(), "7 recorded derivations, 6 lookups: exactly the events of the queried atom", bad)
	}
}
