package props

import (
	"fmt"
	"sort"
	"strings"

	"mgcheck/core"
	"mgcheck/ordabs"
)

func init() { register("C06", checkC06) }

const (
	rC06Laws  = "ORDABS.store-set-laws"
	rC06Coll  = "ORDABS.equal-hash-atoms"
	rC06Wrap  = "ORDABS.layered-stores"
	rC06Merge = "ORDABS.merge"
	rC06Sib   = "TABLE.store-siblings"
)

type storeImpl struct {
	name string // type name
	ctor string
}

var storeImpls = []storeImpl{
	{"SimpleInMemoryStore", "NewSimpleInMemoryStore"},
	{"IndexedInMemoryStore", "NewIndexedInMemoryStore"},
	{"MultiIndexedInMemoryStore", "NewMultiIndexedInMemoryStore"},
	{"MultiIndexedArrayInMemoryStore", "NewMultiIndexedArrayInMemoryStore"},
}

func checkC06(c *core.Ctx) {
	c.Rule(rC06Laws, "Add, Remove, Contains, GetFacts (all four query patterns over two columns, and a zero-arity predicate) and EstimateFactCount of each in-memory store are read from source and evaluated on every history of up to three add/remove operations over three atoms with an injective hash: every result equals that of a mathematical set, pattern queries yield each matching atom exactly once; the temporal store keeps atom-interval pairs apart and its adapter yields each atom once", 6)
	c.Rule(rC06Coll, "the same histories with all hashes equal: two distinct atoms are never conflated", 6)
	c.Rule(rC06Wrap, "MergedStore and TeeingStore, evaluated over set-model layers: Add reports true exactly when no layer holds the atom and then writes to the write layer only; Contains and GetFacts consult every layer; ListPredicates is keyed by symbol and arity; NewTeeingStore always puts a fresh empty layer on top of the given base", 6)
	c.Rule(rC06Merge, "Merge of each in-memory store copies facts: afterwards the receiver holds the source's facts and later changes of either store do not show in the other; MergedStore.Merge does not write facts a read layer already holds", 5)
	c.Rule(rC06Sib, "every FactStore implementation has the six interface methods", 1)
	k := &astKit{c: c, ok: true}
	ck := newConstKit(c, rC06Laws)
	if !ck.ok {
		return
	}
	for _, impl := range storeImpls {
		c06Laws(c, k, ck, impl, false)
		c06Laws(c, k, ck, impl, true)
		c06Partial = true
		c06Laws(c, k, ck, impl, false)
		c06Partial = false
		c06Merge(c, k, ck, impl)
	}
	c06Wrappers(c, k, ck)
	c06Temporal(c, k, ck)
	c06Siblings(c)
	c.Rule("ORD.concurrent-wrapper-delegates", "ConcurrentFactStore, the locking wrapper: every method takes the mutex once (write lock for Add, Remove, Merge), makes exactly one call of the base method of the same name while holding it and returns that call's result, so the wrapper answers like the store it wraps (obligation shared with C18)", 7)
	c.Under("ORD.concurrent-wrapper-delegates", []string{rC18Lock}, func() { c18Locks(c) })
	c.Rule("ORDABS.atoms-compared-structurally", "the stores tell atoms apart with Constant.Equals / Atom.Equals: evaluated from source over the constant universe of C08 (every kind, nested, equal first components with second components that differ only in kind, values whose hashes coincide), Equals is structural equality and agrees with Hash and String (obligation shared with C08)", 2)
	c.Under("ORDABS.atoms-compared-structurally", []string{rC08Eq, rC08Hash, rC08Inj}, func() { c08Equality(c, false, false) })
}

// c06Partial switches c06Laws to the partial-collision hash (see storeRig.partial).
var c06Partial bool

// c06RuleOverride lets another property (C05: choice of store) evaluate the same laws under its own rule name.
var c06RuleOverride string

type storeRig struct {
	c      *core.Ctx
	in     *ordabs.Interp
	k      *astKit
	ck     *constKit
	impl   storeImpl
	ids    map[string]int64
	collide bool
	// partial: the constants 1 and 2 have the same hash, every other hash is distinct, and an atom's hash is an
	// injective function of its predicate and its arguments' hashes (as the real Atom.Hash is, up to collisions)
	partial bool
}

func newStoreRig(c *core.Ctx, k *astKit, ck *constKit, impl storeImpl, collide bool) *storeRig {
	r := &storeRig{c: c, in: ordabs.New(c.Prog), k: k, ck: ck, impl: impl, ids: map[string]int64{}, collide: collide}
	r.in.InstallErrorStubs()
	id := func(s string) int64 {
		if r.collide {
			return 7
		}
		if v, ok := r.ids[s]; ok {
			return v
		}
		v := int64(len(r.ids) + 100)
		r.ids[s] = v
		return v
	}
	constID := func(n any) int64 {
		if r.partial && fmt.Sprint(n) == "2" {
			return id("const:1")
		}
		return id(fmt.Sprint("const:", n))
	}
	r.in.Stubs["ast.Atom.Hash"] = func(in *ordabs.Interp, recv ordabs.Value, _ []ordabs.Value) ([]ordabs.Value, error) {
		if r.partial {
			a, _ := recv.(*ordabs.Rec)
			key := "atom:?"
			if a != nil {
				p, _ := a.Fields["Predicate"].(*ordabs.Rec)
				key = fmt.Sprintf("atom:%v/%v(", p.Fields["Symbol"], p.Fields["Arity"])
				if sl, _ := a.Fields["Args"].(*ordabs.Slice); sl != nil {
					for _, x := range *sl.Elems {
						if xr, _ := x.(*ordabs.Rec); xr != nil && xr.T == "ast.Constant" {
							key += fmt.Sprint(constID(xr.Fields["NumValue"]), ",")
						} else {
							key += "v,"
						}
					}
				}
			}
			return []ordabs.Value{id(key)}, nil
		}
		return []ordabs.Value{id("atom:" + atomKey(recv))}, nil
	}
	r.in.Stubs["ast.Constant.Hash"] = func(in *ordabs.Interp, recv ordabs.Value, _ []ordabs.Value) ([]ordabs.Value, error) {
		rec, _ := recv.(*ordabs.Rec)
		return []ordabs.Value{constID(rec.Fields["NumValue"])}, nil
	}
	return r
}

func atomKey(v ordabs.Value) string {
	a, _ := v.(*ordabs.Rec)
	if a == nil {
		return "?"
	}
	p, _ := a.Fields["Predicate"].(*ordabs.Rec)
	var args []string
	if sl, _ := a.Fields["Args"].(*ordabs.Slice); sl != nil {
		for _, x := range *sl.Elems {
			r, _ := x.(*ordabs.Rec)
			if r == nil {
				args = append(args, "?")
			} else if r.T == "ast.Variable" {
				args = append(args, fmt.Sprint(r.Fields["Symbol"]))
			} else {
				args = append(args, fmt.Sprint(r.Fields["NumValue"]))
			}
		}
	}
	return fmt.Sprintf("%v(%s)", p.Fields["Symbol"], strings.Join(args, ","))
}

// mkAtom builds p(args...) where a negative arg is a variable.
func (r *storeRig) mkAtom(pred string, args ...int64) *ordabs.Rec {
	a := r.k.atom(pred, int64(len(args)))
	var vs []ordabs.Value
	for i, x := range args {
		if x < 0 {
			vs = append(vs, &ordabs.Rec{Fields: map[string]ordabs.Value{"Symbol": fmt.Sprintf("X%d", i)}, T: "ast.Variable"})
		} else {
			vs = append(vs, r.ck.mk(r.ck.Number, x))
		}
	}
	if len(vs) > 0 {
		a.Fields["Args"] = &ordabs.Slice{Elems: &vs}
	}
	return a
}

func (r *storeRig) fn(method string) *core.Func {
	return r.c.MustFunc(rC06Laws, "factstore", r.impl.name+"."+method)
}

func (r *storeRig) newStore() (ordabs.Value, error) {
	ctor := r.c.MustFunc(rC06Laws, "factstore", r.impl.ctor)
	if ctor == nil {
		return nil, fmt.Errorf("constructor missing")
	}
	out, err := r.in.Call(ctor, nil, nil)
	if err != nil {
		return nil, err
	}
	return out[0], nil
}

func (r *storeRig) callBool(store ordabs.Value, method string, arg ordabs.Value) (bool, error) {
	f := r.fn(method)
	if f == nil {
		return false, fmt.Errorf("method missing")
	}
	r.in.Fuel = 200000
	out, err := r.in.Call(f, store, []ordabs.Value{arg})
	if err != nil {
		return false, err
	}
	b, _ := out[0].(bool)
	return b, nil
}

func (r *storeRig) facts(store ordabs.Value, query ordabs.Value) ([]string, error) {
	f := r.fn("GetFacts")
	if f == nil {
		return nil, fmt.Errorf("method missing")
	}
	var got []string
	cb := &ordabs.Stub{Name: "cb", Fn: func(in *ordabs.Interp, args []ordabs.Value) ([]ordabs.Value, error) {
		got = append(got, atomKey(args[0]))
		return []ordabs.Value{nil}, nil
	}}
	r.in.Fuel = 200000
	if _, err := r.in.Call(f, store, []ordabs.Value{query, cb}); err != nil {
		return nil, err
	}
	sort.Strings(got)
	return got, nil
}

func (r *storeRig) count(store ordabs.Value) (int64, error) {
	f := r.fn("EstimateFactCount")
	if f == nil {
		return 0, fmt.Errorf("method missing")
	}
	out, err := r.in.Call(f, store, nil)
	if err != nil {
		return 0, err
	}
	n, _ := out[0].(int64)
	return n, nil
}

// preds returns the listed predicates as "sym/arity", sorted, duplicates kept.
func (r *storeRig) preds(store ordabs.Value) ([]string, error) {
	f := r.fn("ListPredicates")
	if f == nil {
		return nil, fmt.Errorf("method missing")
	}
	out, err := r.in.Call(f, store, nil)
	if err != nil {
		return nil, err
	}
	var res []string
	if sl, _ := out[0].(*ordabs.Slice); sl != nil {
		for _, p := range *sl.Elems {
			if pr, ok := p.(*ordabs.Rec); ok {
				res = append(res, fmt.Sprintf("%v/%v", pr.Fields["Symbol"], pr.Fields["Arity"]))
			}
		}
	}
	sort.Strings(res)
	return res, nil
}

type storeOp struct {
	add  bool
	atom int
}

func c06Laws(c *core.Ctx, k *astKit, ck *constKit, impl storeImpl, collide bool) {
	rule := rC06Laws
	if collide {
		rule = rC06Coll
	}
	if c06RuleOverride != "" {
		rule = c06RuleOverride
	}
	r := newStoreRig(c, k, ck, impl, collide)
	r.partial = c06Partial
	atoms := []*ordabs.Rec{r.mkAtom("p", 1, 1), r.mkAtom("p", 1, 2), r.mkAtom("p", 2, 1), r.mkAtom("z")}
	keys := []string{"p(1,1)", "p(1,2)", "p(2,1)", "z()"}
	label := "factstore." + impl.name
	if c06Partial {
		// constants 1 and 2 collide; no two of these atoms collide as atoms
		atoms = []*ordabs.Rec{r.mkAtom("p", 1, 3), r.mkAtom("p", 2, 4), r.mkAtom("p", 3, 1), r.mkAtom("z")}
		keys = []string{"p(1,3)", "p(2,4)", "p(3,1)", "z()"}
		label += ":colliding-constants"
	}
	type q struct {
		pat  *ordabs.Rec
		pred func(string) bool
		name string
	}
	queries := []q{
		{r.mkAtom("p", -1, -1), func(s string) bool { return strings.HasPrefix(s, "p(") }, "p(X,Y)"},
		{r.mkAtom("p", 3, -1), func(s string) bool { return strings.HasPrefix(s, "p(3,") }, "p(3,Y)"},
		{r.mkAtom("p", -1, 3), func(s string) bool { return strings.HasPrefix(s, "p(") && strings.HasSuffix(s, ",3)") }, "p(X,3)"},
		{r.mkAtom("p", -1, 4), func(s string) bool { return strings.HasPrefix(s, "p(") && strings.HasSuffix(s, ",4)") }, "p(X,4)"},
		{r.mkAtom("p", 2, 3), func(s string) bool { return s == "p(2,3)" }, "p(2,3)"},
		{r.mkAtom("p", 1, 4), func(s string) bool { return s == "p(1,4)" }, "p(1,4)"},
		{r.mkAtom("p", 1, -1), func(s string) bool { return strings.HasPrefix(s, "p(1,") }, "p(1,Y)"},
		{r.mkAtom("p", -1, 1), func(s string) bool { return strings.HasPrefix(s, "p(") && strings.HasSuffix(s, ",1)") }, "p(X,1)"},
		{r.mkAtom("p", -1, 2), func(s string) bool { return strings.HasPrefix(s, "p(") && strings.HasSuffix(s, ",2)") }, "p(X,2)"},
		{r.mkAtom("p", 2, -1), func(s string) bool { return strings.HasPrefix(s, "p(2,") }, "p(2,Y)"},
		{r.mkAtom("p", 1, 2), func(s string) bool { return s == "p(1,2)" }, "p(1,2)"},
		{r.mkAtom("z"), func(s string) bool { return s == "z()" }, "z()"},
	}
	var ops []storeOp
	for a := 0; a < 4; a++ {
		ops = append(ops, storeOp{true, a})
	}
	ops = append(ops, storeOp{false, 0}, storeOp{false, 1}, storeOp{false, 3})
	anchor := c.MustFunc(rule, "factstore", impl.name+".Add")
	if anchor == nil {
		return
	}
	bad, runs := "", 0
	var hist []storeOp
	var rec func(depth int) bool
	runHistory := func() bool {
		store, err := r.newStore()
		if !runORD(c, rule, "factstore."+impl.name, anchor, err) {
			return false
		}
		model := map[string]bool{}
		desc := ""
		for _, op := range hist {
			var got, want bool
			var err error
			if op.add {
				desc += " add " + keys[op.atom]
				want = !model[keys[op.atom]]
				got, err = r.callBool(store, "Add", atoms[op.atom])
				model[keys[op.atom]] = true
			} else {
				desc += " remove " + keys[op.atom]
				want = model[keys[op.atom]]
				got, err = r.callBool(store, "Remove", atoms[op.atom])
				delete(model, keys[op.atom])
			}
			if !runORD(c, rule, "factstore."+impl.name, anchor, err) {
				return false
			}
			if got != want && bad == "" {
				bad = fmt.Sprintf("history:%s: the last operation returned %v, a set gives %v", desc, got, want)
			}
		}
		runs++
		for i, a := range atoms {
			got, err := r.callBool(store, "Contains", a)
			if !runORD(c, rule, "factstore."+impl.name, anchor, err) {
				return false
			}
			if got != model[keys[i]] && bad == "" {
				bad = fmt.Sprintf("history:%s: Contains(%s)=%v, a set gives %v", desc, keys[i], got, model[keys[i]])
			}
		}
		n, err := r.count(store)
		if !runORD(c, rule, "factstore."+impl.name, anchor, err) {
			return false
		}
		if int(n) != len(model) && bad == "" {
			bad = fmt.Sprintf("history:%s: EstimateFactCount=%d, the set has %d atoms", desc, n, len(model))
		}
		// predicate listing: every predicate that has a stored atom is listed, once; nothing is listed that was never added
		listed, err := r.preds(store)
		if !runORD(c, rule, "factstore."+impl.name, anchor, err) {
			return false
		}
		ever := map[string]bool{}
		for _, op := range hist {
			if op.add {
				ever[map[bool]string{true: "z/0", false: "p/2"}[op.atom == 3]] = true
			}
		}
		seenP := map[string]int{}
		for _, p := range listed {
			seenP[p]++
			if (!ever[p] || seenP[p] > 1) && bad == "" {
				bad = fmt.Sprintf("history:%s: ListPredicates yields %v (a predicate that was never added, or one listed twice)", desc, listed)
			}
		}
		for kx := range model {
			p := "p/2"
			if kx == "z()" {
				p = "z/0"
			}
			if seenP[p] == 0 && bad == "" {
				bad = fmt.Sprintf("history:%s: the store holds %s but ListPredicates yields %v: enumeration through ListPredicates (GetAllFacts, Merge, saving to a file) loses the fact", desc, kx, listed)
			}
		}
		for _, qq := range queries {
			got, err := r.facts(store, qq.pat)
			if !runORD(c, rule, "factstore."+impl.name, anchor, err) {
				return false
			}
			var want []string
			for kx := range model {
				if qq.pred(kx) {
					want = append(want, kx)
				}
			}
			sort.Strings(want)
			if fmt.Sprint(got) != fmt.Sprint(want) && bad == "" {
				bad = fmt.Sprintf("history:%s: query %s yields %v, want exactly %v", desc, qq.name, got, want)
			}
		}
		return true
	}
	rec = func(depth int) bool {
		if depth > 0 && !runHistory() {
			return false
		}
		if depth == 3 {
			return true
		}
		for _, op := range ops {
			hist = append(hist, op)
			ok := rec(depth + 1)
			hist = hist[:len(hist)-1]
			if !ok {
				return false
			}
		}
		return true
	}
	if !rec(0) {
		return
	}
	mode := "injective hashes"
	if collide {
		mode = "all hashes equal"
	}
	c.Check(bad == "", rule, label, anchor.Decl.Pos(), fmt.Sprintf("behaves as a set on %d histories (%s)", runs, mode), bad)
}

func c06Merge(c *core.Ctx, k *astKit, ck *constKit, impl storeImpl) {
	r := newStoreRig(c, k, ck, impl, false)
	f := c.MustFunc(rC06Merge, "factstore", impl.name+".Merge")
	if f == nil {
		return
	}
	// NewQuery builds the all-variables pattern
	a1, a2, a3 := r.mkAtom("p", 1, 1), r.mkAtom("p", 1, 2), r.mkAtom("p", 2, 1)
	fail := func(err error) bool { return !runORD(c, rC06Merge, f.Name, f, err) }
	src, err := r.newStore()
	if fail(err) {
		return
	}
	dst, err := r.newStore()
	if fail(err) {
		return
	}
	for _, a := range []*ordabs.Rec{a1, a2} {
		if _, err := r.callBool(src, "Add", a); fail(err) {
			return
		}
	}
	// route the interface calls of Merge (other.ListPredicates / other.GetFacts) to the same implementation
	for _, m := range []string{"ListPredicates", "GetFacts"} {
		target := r.fn(m)
		if target == nil {
			return
		}
		mm := m
		r.in.Stubs["factstore.ReadOnlyFactStore."+mm] = func(in *ordabs.Interp, recv ordabs.Value, args []ordabs.Value) ([]ordabs.Value, error) {
			return in.Call(r.fn(mm), recv, args)
		}
	}
	r.in.Fuel = 400000
	if _, err := r.in.Call(f, dst, []ordabs.Value{src}); fail(err) {
		return
	}
	bad := ""
	for _, a := range []*ordabs.Rec{a1, a2} {
		if got, err := r.callBool(dst, "Contains", a); fail(err) {
			return
		} else if !got && bad == "" {
			bad = "after Merge the receiver does not contain " + atomKey(a)
		}
	}
	if _, err := r.callBool(dst, "Add", a3); fail(err) {
		return
	}
	if got, err := r.callBool(src, "Contains", a3); fail(err) {
		return
	} else if got && bad == "" {
		bad = "an atom added to the receiver after Merge shows up in the source store: Merge shares storage instead of copying"
	}
	if _, err := r.callBool(src, "Remove", a1); fail(err) {
		return
	}
	if got, err := r.callBool(dst, "Contains", a1); fail(err) {
		return
	} else if !got && bad == "" {
		bad = "an atom removed from the source after Merge disappears from the receiver: Merge shares storage instead of copying"
	}
	c.Check(bad == "", rC06Merge, f.Name, f.Decl.Pos(), "receiver holds the merged facts and shares nothing with the source", bad)
}

// ---- layered stores over set-model layers ----

type layerRig struct {
	in     *ordabs.Interp
	layers map[*ordabs.Obj]map[string]*ordabs.Rec
}

func newLayerRig(c *core.Ctx) *layerRig {
	l := &layerRig{in: ordabs.New(c.Prog), layers: map[*ordabs.Obj]map[string]*ordabs.Rec{}}
	l.in.InstallErrorStubs()
	get := func(v ordabs.Value) map[string]*ordabs.Rec {
		o, _ := v.(*ordabs.Obj)
		return l.layers[o]
	}
	add := func(in *ordabs.Interp, recv ordabs.Value, args []ordabs.Value) ([]ordabs.Value, error) {
		s := get(recv)
		if s == nil {
			return nil, &ordabs.Unsupported{What: "Add on something that is not a layer"}
		}
		key := atomKey(args[0])
		if _, ok := s[key]; ok {
			return []ordabs.Value{false}, nil
		}
		s[key] = args[0].(*ordabs.Rec)
		return []ordabs.Value{true}, nil
	}
	remove := func(in *ordabs.Interp, recv ordabs.Value, args []ordabs.Value) ([]ordabs.Value, error) {
		s := get(recv)
		key := atomKey(args[0])
		_, ok := s[key]
		delete(s, key)
		return []ordabs.Value{ok}, nil
	}
	contains := func(in *ordabs.Interp, recv ordabs.Value, args []ordabs.Value) ([]ordabs.Value, error) {
		s := get(recv)
		if s == nil {
			return nil, &ordabs.Unsupported{What: "Contains on something that is not a layer"}
		}
		_, ok := s[atomKey(args[0])]
		return []ordabs.Value{ok}, nil
	}
	getFacts := func(in *ordabs.Interp, recv ordabs.Value, args []ordabs.Value) ([]ordabs.Value, error) {
		s := get(recv)
		q, _ := args[0].(*ordabs.Rec)
		qp := q.Fields["Predicate"].(*ordabs.Rec)
		var keys []string
		for k := range s {
			keys = append(keys, k)
		}
		sort.Strings(keys)
		for _, k := range keys {
			a := s[k]
			p := a.Fields["Predicate"].(*ordabs.Rec)
			if p.Fields["Symbol"] != qp.Fields["Symbol"] || p.Fields["Arity"] != qp.Fields["Arity"] {
				continue
			}
			out, err := in.CallValue(args[1], []ordabs.Value{a})
			if err != nil {
				return nil, err
			}
			if out[0] != nil {
				return out, nil
			}
		}
		return []ordabs.Value{nil}, nil
	}
	listPreds := func(in *ordabs.Interp, recv ordabs.Value, _ []ordabs.Value) ([]ordabs.Value, error) {
		s := get(recv)
		seen := map[string]bool{}
		var out []ordabs.Value
		var keys []string
		for k := range s {
			keys = append(keys, k)
		}
		sort.Strings(keys)
		for _, k := range keys {
			p := s[k].Fields["Predicate"].(*ordabs.Rec)
			ks := ordabs.KeyString(p)
			if !seen[ks] {
				seen[ks] = true
				out = append(out, p)
			}
		}
		return []ordabs.Value{&ordabs.Slice{Elems: &out}}, nil
	}
	count := func(in *ordabs.Interp, recv ordabs.Value, _ []ordabs.Value) ([]ordabs.Value, error) {
		return []ordabs.Value{int64(len(get(recv)))}, nil
	}
	for _, iface := range []string{"factstore.ReadOnlyFactStore", "factstore.FactStore", "factstore.FactStoreWithRemove"} {
		l.in.Stubs[iface+".Add"] = add
		l.in.Stubs[iface+".Remove"] = remove
		l.in.Stubs[iface+".Contains"] = contains
		l.in.Stubs[iface+".GetFacts"] = getFacts
		l.in.Stubs[iface+".ListPredicates"] = listPreds
		l.in.Stubs[iface+".EstimateFactCount"] = count
	}
	return l
}

func (l *layerRig) layer(name string, atoms ...*ordabs.Rec) *ordabs.Obj {
	o := &ordabs.Obj{Name: name, Opaque: true}
	l.layers[o] = map[string]*ordabs.Rec{}
	for _, a := range atoms {
		l.layers[o][atomKey(a)] = a
	}
	return o
}

func (l *layerRig) keys(o *ordabs.Obj) []string {
	var ks []string
	for k := range l.layers[o] {
		ks = append(ks, k)
	}
	sort.Strings(ks)
	return ks
}

func c06Wrappers(c *core.Ctx, k *astKit, ck *constKit) {
	sr := &storeRig{c: c, k: k, ck: ck}
	a := sr.mkAtom("p", 1)
	b := sr.mkAtom("p", 2)
	d := sr.mkAtom("p", 1, 2) // same symbol, other arity
	q := sr.mkAtom("q", 5)
	for _, w := range []string{"TeeingStore", "MergedStore"} {
		l := newLayerRig(c)
		mk := func(read, write *ordabs.Obj) *ordabs.Rec {
			if w == "TeeingStore" {
				return &ordabs.Rec{Fields: map[string]ordabs.Value{"base": read, "Out": write}, T: "factstore.TeeingStore"}
			}
			rs := []ordabs.Value{read}
			return &ordabs.Rec{Fields: map[string]ordabs.Value{"readStore": &ordabs.Slice{Elems: &rs}, "writeStore": write}, T: "factstore.MergedStore"}
		}
		fAdd := c.MustFunc(rC06Wrap, "factstore", w+".Add")
		fCon := c.MustFunc(rC06Wrap, "factstore", w+".Contains")
		fGet := c.MustFunc(rC06Wrap, "factstore", w+".GetFacts")
		fLst := c.MustFunc(rC06Wrap, "factstore", w+".ListPredicates")
		if fAdd == nil || fCon == nil || fGet == nil || fLst == nil {
			continue
		}
		bad := ""
		for _, inRead := range []bool{false, true} {
			for _, inWrite := range []bool{false, true} {
				read, write := l.layer("read"), l.layer("write")
				if inRead {
					l.layers[read][atomKey(a)] = a
				}
				if inWrite {
					l.layers[write][atomKey(a)] = a
				}
				st := mk(read, write)
				out, err := l.in.Call(fCon, st, []ordabs.Value{a})
				if !runORD(c, rC06Wrap, fCon.Name, fCon, err) {
					return
				}
				if got, _ := out[0].(bool); got != (inRead || inWrite) && bad == "" {
					bad = fmt.Sprintf("%s.Contains: atom in read layer=%v, in write layer=%v, result %v", w, inRead, inWrite, got)
				}
				out, err = l.in.Call(fAdd, st, []ordabs.Value{a})
				if !runORD(c, rC06Wrap, fAdd.Name, fAdd, err) {
					return
				}
				got, _ := out[0].(bool)
				if want := !inRead && !inWrite; got != want && bad == "" {
					bad = fmt.Sprintf("%s.Add: atom already in read layer=%v / write layer=%v, Add returned %v, want %v (true exactly when it did not exist before)", w, inRead, inWrite, got, want)
				}
				_, nowW := l.layers[write][atomKey(a)]
				_, nowR := l.layers[read][atomKey(a)]
				if nowR != inRead && bad == "" {
					bad = w + ".Add wrote to the read layer"
				}
				if nowW != (inWrite || (!inRead && !inWrite)) && bad == "" {
					bad = fmt.Sprintf("%s.Add: write layer holds the atom=%v after Add (before: read=%v write=%v); an atom the read layer holds must not be stored again", w, nowW, inRead, inWrite)
				}
			}
		}
		c.Check(bad == "", rC06Wrap, "factstore."+w+":add-contains", fAdd.Decl.Pos(), "Add/Contains agree with a set over both layers", bad)
		// GetFacts and ListPredicates consult every layer
		bad = ""
		read, write := l.layer("read", a, d), l.layer("write", b, q)
		st := mk(read, write)
		var got []string
		cb := &ordabs.Stub{Name: "cb", Fn: func(in *ordabs.Interp, args []ordabs.Value) ([]ordabs.Value, error) {
			got = append(got, atomKey(args[0]))
			return []ordabs.Value{nil}, nil
		}}
		_, err := l.in.Call(fGet, st, []ordabs.Value{sr.mkAtom("p", -1), cb})
		if !runORD(c, rC06Wrap, fGet.Name, fGet, err) {
			return
		}
		sort.Strings(got)
		if fmt.Sprint(got) != "[p(1) p(2)]" {
			bad = fmt.Sprintf("%s.GetFacts(p(X)) over read={p(1),p(1,2)} write={p(2),q(5)} yields %v, want [p(1) p(2)]", w, got)
		}
		out, err := l.in.Call(fLst, st, nil)
		if !runORD(c, rC06Wrap, fLst.Name, fLst, err) {
			return
		}
		var preds []string
		if sl, _ := out[0].(*ordabs.Slice); sl != nil {
			for _, p := range *sl.Elems {
				pr := p.(*ordabs.Rec)
				preds = append(preds, fmt.Sprintf("%v/%v", pr.Fields["Symbol"], pr.Fields["Arity"]))
			}
		}
		sort.Strings(preds)
		if fmt.Sprint(preds) != "[p/1 p/2 q/1]" && bad == "" {
			bad = fmt.Sprintf("%s.ListPredicates over read={p/1,p/2} write={p/1,q/1} lists %v, want [p/1 p/2 q/1] (predicates that differ only in arity are different predicates)", w, preds)
		}
		c.Check(bad == "", rC06Wrap, "factstore."+w+":reads-every-layer", fGet.Decl.Pos(), "GetFacts and ListPredicates cover both layers, keyed by symbol and arity", bad)
	}
	// MergedStore.Merge
	if f := c.MustFunc(rC06Merge, "factstore", "MergedStore.Merge"); f != nil {
		l := newLayerRig(c)
		read, write, other := l.layer("read", a), l.layer("write"), l.layer("other", a, b)
		rs := []ordabs.Value{read}
		st := &ordabs.Rec{Fields: map[string]ordabs.Value{"readStore": &ordabs.Slice{Elems: &rs}, "writeStore": write}, T: "factstore.MergedStore"}
		l.in.Stubs["factstore.FactStore.Merge"] = func(in *ordabs.Interp, recv ordabs.Value, args []ordabs.Value) ([]ordabs.Value, error) {
			dst, _ := recv.(*ordabs.Obj)
			src, _ := args[0].(*ordabs.Obj)
			for kx, v := range l.layers[src] {
				l.layers[dst][kx] = v
			}
			return nil, nil
		}
		_, err := l.in.Call(f, st, []ordabs.Value{other})
		if runORD(c, rC06Merge, f.Name, f, err) {
			got := fmt.Sprint(l.keys(write))
			c.Check(got == "[p(2)]", rC06Merge, f.Name, f.Decl.Pos(), "only the fact no layer holds reaches the write layer", "MergedStore{read={p(1)}}.Merge({p(1),p(2)}) leaves the write layer with "+got+", want [p(2)]: p(1) is stored twice and every query returns it twice")
		}
	}
	// NewTeeingStore
	if f := c.MustFunc(rC06Wrap, "factstore", "NewTeeingStore"); f != nil {
		l := newLayerRig(c)
		fresh := 0
		l.in.Stubs["factstore.NewMultiIndexedArrayInMemoryStore"] = func(in *ordabs.Interp, _ ordabs.Value, _ []ordabs.Value) ([]ordabs.Value, error) {
			fresh++
			return []ordabs.Value{l.layer(fmt.Sprintf("fresh%d", fresh))}, nil
		}
		bad := ""
		base := l.layer("base", a)
		out, err := l.in.Call(f, nil, []ordabs.Value{base})
		if !runORD(c, rC06Wrap, f.Name, f, err) {
			return
		}
		t1, _ := out[0].(*ordabs.Rec)
		if t1 == nil || t1.Fields["base"] != ordabs.Value(base) {
			bad = "NewTeeingStore(base) does not keep the given store as its base"
		} else if o, _ := t1.Fields["Out"].(*ordabs.Obj); o == nil || o == base || len(l.layers[o]) != 0 {
			bad = "NewTeeingStore(base) does not start with a fresh empty output layer"
		}
		if bad == "" {
			// a teeing store whose output layer is still empty is a layer like any other
			out, err = l.in.Call(f, nil, []ordabs.Value{t1})
			if !runORD(c, rC06Wrap, f.Name, f, err) {
				return
			}
			t2, _ := out[0].(*ordabs.Rec)
			inner, _ := t2.Fields["base"].(*ordabs.Rec)
			if t2 == nil || inner == nil || inner.Fields["Out"] != t1.Fields["Out"] || inner.Fields["base"] != ordabs.Value(base) {
				bad = "NewTeeingStore(teeing store with empty output) does not put a new layer on top of it: writes of the new fragment land in the old layer and survive a pop"
			} else if t2.Fields["Out"] == t1.Fields["Out"] || t2.Fields["Out"] == ordabs.Value(base) {
				bad = "NewTeeingStore(teeing store) reuses an existing layer as its output layer"
			}
		}
		c.Check(bad == "", rC06Wrap, f.Name, f.Decl.Pos(), "always a fresh output layer over exactly the given base", bad)
	}
	if f := c.MustFunc(rC06Wrap, "factstore", "TeeingStore.Remove"); f != nil {
		l := newLayerRig(c)
		base, outl := l.layer("base", a), l.layer("out", b)
		st := &ordabs.Rec{Fields: map[string]ordabs.Value{"base": base, "Out": outl}, T: "factstore.TeeingStore"}
		o1, err := l.in.Call(f, st, []ordabs.Value{b})
		if runORD(c, rC06Wrap, f.Name, f, err) {
			o2, _ := l.in.Call(f, st, []ordabs.Value{a})
			ok := o1[0] == ordabs.Value(true) && o2 != nil && o2[0] == ordabs.Value(false) && len(l.layers[base]) == 1
			c.Check(ok, rC06Wrap, f.Name, f.Decl.Pos(), "removes from the output layer only and reports whether it did", "TeeingStore.Remove must remove from the output layer and leave the base alone")
		}
	}
}

func c06Siblings(c *core.Ctx) {
	methods := []string{"Add", "Contains", "GetFacts", "ListPredicates", "EstimateFactCount", "Merge"}
	impls := []string{"SimpleInMemoryStore", "IndexedInMemoryStore", "MultiIndexedInMemoryStore", "MultiIndexedArrayInMemoryStore", "MergedStore", "TeeingStore", "ConcurrentFactStore", "TemporalFactStoreAdapter"}
	var missing []string
	for _, im := range impls {
		for _, m := range methods {
			if c.Prog.Func("factstore", im+"."+m) == nil {
				missing = append(missing, im+"."+m)
			}
		}
	}
	c.Check(len(missing) == 0, rC06Sib, "factstore:FactStore-implementations", 0, fmt.Sprintf("%d implementations x %d methods present", len(impls), len(methods)), fmt.Sprintf("missing methods: %v", missing))
}

// ---- temporal store and adapter as sets of atoms ----

func c06Temporal(c *core.Ctx, k *astKit, ck *constKit) {
	tk := newTkit(c, rC06Laws)
	if !tk.ok {
		return
	}
	tfT := c.Prog.Named("factstore", "TemporalFact")
	for _, collide := range []bool{false, true} {
		rule := rC06Laws
		if collide {
			rule = rC06Coll
		}
		r := newStoreRig(c, k, ck, storeImpl{"TemporalStore", "NewTemporalStore"}, collide)
		ctor := c.MustFunc(rule, "factstore", "NewTemporalStore")
		add := c.MustFunc(rule, "factstore", "TemporalStore.Add")
		all := c.MustFunc(rule, "factstore", "TemporalStore.GetAllFacts")
		cnt := c.MustFunc(rule, "factstore", "TemporalStore.EstimateFactCount")
		if ctor == nil || add == nil || all == nil || cnt == nil || tfT == nil {
			continue
		}
		fail := func(err error) bool { return !runORD(c, rule, "factstore.TemporalStore", add, err) }
		empty := []ordabs.Value{}
		out, err := r.in.Call(ctor, nil, []ordabs.Value{&ordabs.Slice{Elems: &empty}})
		if fail(err) {
			continue
		}
		store := out[0]
		a1, a2 := r.mkAtom("p", 1), r.mkAtom("p", 2)
		type ins struct {
			a    *ordabs.Rec
			s, e int64
			want bool
		}
		bad := ""
		model := map[string]bool{}
		for _, x := range []ins{{a1, 1, 2, true}, {a2, 1, 2, true}, {a1, 1, 2, false}, {a1, 5, 6, true}} {
			r.in.Fuel = 400000
			o, err := r.in.Call(add, store, []ordabs.Value{x.a, tk.tsiv(x.s, x.e)})
			if fail(err) {
				return
			}
			key := fmt.Sprintf("%s@[%d,%d]", atomKey(x.a), x.s, x.e)
			if got, _ := o[0].(bool); got != x.want && bad == "" {
				bad = fmt.Sprintf("Add(%s) returned %v, want %v", key, got, x.want)
			}
			model[key] = true
		}
		var got []string
		cb := &ordabs.Stub{Name: "cb", Fn: func(in *ordabs.Interp, args []ordabs.Value) ([]ordabs.Value, error) {
			tf := args[0].(*ordabs.Rec)
			iv, _ := recInterval(tk, tf.Fields["Interval"])
			got = append(got, fmt.Sprintf("%s@[%d,%d]", atomKey(tf.Fields["Atom"]), iv.s, iv.e))
			return []ordabs.Value{nil}, nil
		}}
		r.in.Fuel = 400000
		if _, err := r.in.Call(all, store, []ordabs.Value{r.mkAtom("p", -1), cb}); fail(err) {
			return
		}
		sort.Strings(got)
		var want []string
		for kx := range model {
			want = append(want, kx)
		}
		sort.Strings(want)
		if fmt.Sprint(got) != fmt.Sprint(want) && bad == "" {
			bad = fmt.Sprintf("after adding %v a full scan yields %v", want, got)
		}
		o, err := r.in.Call(cnt, store, nil)
		if fail(err) {
			return
		}
		if n, _ := o[0].(int64); int(n) != len(model) && bad == "" {
			bad = fmt.Sprintf("EstimateFactCount=%d, %d pairs are stored", n, len(model))
		}
		mode := "injective hashes"
		if collide {
			mode = "all hashes equal"
		}
		c.Check(bad == "", rule, "factstore.TemporalStore", add.Decl.Pos(), "atom-interval pairs kept apart ("+mode+")", bad)

		// adapter: each atom once, whatever the number of its intervals
		gf := c.MustFunc(rule, "factstore", "TemporalFactStoreAdapter.GetFacts")
		if gf == nil {
			continue
		}
		ar := newStoreRig(c, k, ck, storeImpl{"TemporalFactStoreAdapter", ""}, collide)
		mkTF := func(a *ordabs.Rec, s, e int64) ordabs.Value {
			z, _ := ordabs.ZeroOf(tfT)
			t := z.(*ordabs.Rec)
			t.Fields["Atom"], t.Fields["Interval"] = a, tk.tsiv(s, e)
			return t
		}
		ar.in.Stubs["factstore.ReadOnlyTemporalFactStore.GetAllFacts"] = func(in *ordabs.Interp, _ ordabs.Value, args []ordabs.Value) ([]ordabs.Value, error) {
			for _, tf := range []ordabs.Value{mkTF(a1, 1, 2), mkTF(a2, 1, 2), mkTF(a1, 5, 6)} {
				o, err := in.CallValue(args[1], []ordabs.Value{tf})
				if err != nil {
					return nil, err
				}
				if o[0] != nil {
					return o, nil
				}
			}
			return []ordabs.Value{nil}, nil
		}
		adapter := &ordabs.Obj{Name: "adapter", Fields: map[string]ordabs.Value{"temporal": &ordabs.Obj{Name: "t", Opaque: true}, "queryAt": (*ordabs.Obj)(nil)}}
		var atoms []string
		acb := &ordabs.Stub{Name: "cb", Fn: func(in *ordabs.Interp, args []ordabs.Value) ([]ordabs.Value, error) {
			atoms = append(atoms, atomKey(args[0]))
			return []ordabs.Value{nil}, nil
		}}
		if _, err := ar.in.Call(gf, adapter, []ordabs.Value{r.mkAtom("p", -1), acb}); !runORD(c, rule, gf.Name, gf, err) {
			continue
		}
		sort.Strings(atoms)
		c.Check(fmt.Sprint(atoms) == "[p(1) p(2)]", rule, "factstore.TemporalFactStoreAdapter", gf.Decl.Pos(), "each atom once ("+mode+")", fmt.Sprintf("the temporal store reports p(1)@[1,2], p(2)@[1,2], p(1)@[5,6] in this order (as stacked layers do); the adapter's GetFacts yields %v, want [p(1) p(2)]", atoms))
		// the adapter pinned to one instant: p(1) holds there through two overlapping, un-coalesced intervals
		ar.in.Stubs["factstore.ReadOnlyTemporalFactStore.GetFactsAt"] = func(in *ordabs.Interp, _ ordabs.Value, args []ordabs.Value) ([]ordabs.Value, error) {
			for _, tf := range []ordabs.Value{mkTF(a1, 1, 6), mkTF(a2, 1, 6), mkTF(a1, 5, 6)} {
				o, err := in.CallValue(args[2], []ordabs.Value{tf})
				if err != nil {
					return nil, err
				}
				if o[0] != nil {
					return o, nil
				}
			}
			return []ordabs.Value{nil}, nil
		}
		pinned := &ordabs.Obj{Name: "adapter", Fields: map[string]ordabs.Value{"temporal": &ordabs.Obj{Name: "t", Opaque: true}, "queryAt": ordabs.NewVarPtr(ordabs.TimeVal{NS: 5})}}
		atoms = nil
		if _, err := ar.in.Call(gf, pinned, []ordabs.Value{r.mkAtom("p", -1), acb}); !runORD(c, rule, gf.Name+":at-instant", gf, err) {
			continue
		}
		sort.Strings(atoms)
		c.Check(fmt.Sprint(atoms) == "[p(1) p(2)]", rule, "factstore.TemporalFactStoreAdapter:at-instant", gf.Decl.Pos(), "each atom once at a pinned instant ("+mode+")", fmt.Sprintf("at instant 5 the temporal store reports p(1)@[1,6], p(2)@[1,6], p(1)@[5,6] in this order; the pinned adapter's GetFacts yields %v, want [p(1) p(2)]", atoms))
	}
}
