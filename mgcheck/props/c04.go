package props

import (
	"fmt"
	"sort"
	"strings"

	"mgcheck/core"
	"mgcheck/ordabs"
)

func init() { register("C04", checkC04) }

const (
	rC04Safe = "ORDABS.accepted-implies-safe"
	rC04Perm = "ORDABS.rewrite-preserves-literals"
	rC04Ord  = "ORDABS.check-sees-evaluated-clause"
	rC04Red  = "ASSERT.reducer-argument"
	rC04Eval = "ORDABS.accepted-evaluates"
)

// ---- host-side clause language ----

type hTerm struct {
	kind string // var, const, fn
	name string
	n    int64
	args []hTerm
}

func hv(n string) hTerm              { return hTerm{kind: "var", name: n} }
func hc(n int64) hTerm               { return hTerm{kind: "const", n: n} }
func hf(n string, a ...hTerm) hTerm  { return hTerm{kind: "fn", name: n, args: a} }
func (t hTerm) String() string {
	switch t.kind {
	case "var":
		return t.name
	case "const":
		return fmt.Sprint(t.n)
	}
	var as []string
	for _, a := range t.args {
		as = append(as, a.String())
	}
	return t.name + "(" + strings.Join(as, ",") + ")"
}
func (t hTerm) vars(into map[string]bool) {
	switch t.kind {
	case "var":
		into[t.name] = true
	case "fn":
		for _, a := range t.args {
			a.vars(into)
		}
	}
}

type hPrem struct {
	kind string // atom, neg, eq, ineq
	pred string
	args []hTerm
	l, r hTerm
}

func (p hPrem) String() string {
	switch p.kind {
	case "atom", "neg":
		var as []string
		for _, a := range p.args {
			as = append(as, a.String())
		}
		s := p.pred + "(" + strings.Join(as, ",") + ")"
		if p.kind == "neg" {
			return "!" + s
		}
		return s
	case "eq":
		return p.l.String() + " = " + p.r.String()
	}
	return p.l.String() + " != " + p.r.String()
}

type hClause struct {
	headPred string
	head     []hTerm
	prems    []hPrem
	doKeys   []string // nil: no transform; otherwise group_by keys, followed by let N = fn:count()
	hasDo    bool
	letVar   string // "": none; otherwise a let-transform  |> let letVar = letExpr
	letExpr  hTerm
}

func (c hClause) String() string {
	var ps []string
	for _, p := range c.prems {
		ps = append(ps, p.String())
	}
	var hs []string
	for _, h := range c.head {
		hs = append(hs, h.String())
	}
	s := c.headPred + "(" + strings.Join(hs, ",") + ") :- " + strings.Join(ps, ", ")
	if c.hasDo {
		s += " |> do fn:group_by(" + strings.Join(c.doKeys, ",") + "), let N = fn:count()"
	}
	if c.letVar != "" {
		s += " |> let " + c.letVar + " = " + c.letExpr.String()
	}
	return s + "."
}

// unsafeReason is the reference judgement on premises in the given (evaluation) order.
func unsafeReason(head []hTerm, prems []hPrem, hasDo bool, doKeys []string) string {
	parent := map[string]string{}
	var find func(x string) string
	find = func(x string) string {
		if p, ok := parent[x]; ok && p != x {
			r := find(p)
			parent[x] = r
			return r
		}
		return x
	}
	boundRoot := map[string]bool{}
	isBound := func(v string) bool { return boundRoot[find(v)] }
	bind := func(v string) { boundRoot[find(v)] = true }
	union := func(a, b string) {
		ra, rb := find(a), find(b)
		if ra == rb {
			return
		}
		parent[ra] = rb
		if boundRoot[ra] {
			boundRoot[rb] = true
		}
	}
	needBound := func(t hTerm, what string) string {
		vs := map[string]bool{}
		t.vars(vs)
		var names []string
		for v := range vs {
			names = append(names, v)
		}
		sort.Strings(names)
		for _, v := range names {
			if v == "_" {
				return "wildcard used where a value is needed in " + what
			}
			if !isBound(v) {
				return "variable " + v + " has no value when " + what + " is evaluated"
			}
		}
		return ""
	}
	for _, p := range prems {
		switch p.kind {
		case "atom":
			if p.pred == ":list:member" {
				// mode (?, +): the list needs a value; the element is tested when it has one and enumerated otherwise
				if r := needBound(p.args[1], "the list of "+p.String()); r != "" {
					return r
				}
				if a := p.args[0]; a.kind == "var" {
					if a.name != "_" {
						bind(a.name)
					}
				} else if r := needBound(a, "the element of "+p.String()); r != "" {
					return r
				}
				continue
			}
			if p.pred == ":match_pair" || p.pred == ":match_cons" {
				// mode (+, -, -): the scrutinee needs a value, the two outputs must be variables that have none yet
				if r := needBound(p.args[0], "the scrutinee of "+p.String()); r != "" {
					return r
				}
				for _, a := range p.args[1:] {
					if a.kind != "var" {
						return "an output argument of " + p.String() + " is not a variable"
					}
					if a.name != "_" && isBound(a.name) {
						return "the output variable " + a.name + " of " + p.String() + " already has a value: the built-in fails at run time"
					}
				}
				for _, a := range p.args[1:] {
					if a.name != "_" {
						bind(a.name)
					}
				}
				continue
			}
			if strings.HasPrefix(p.pred, ":") {
				for _, a := range p.args {
					if r := needBound(a, "the comparison "+p.String()); r != "" {
						return r
					}
				}
				continue
			}
			for _, a := range p.args {
				if a.kind == "fn" {
					if r := needBound(a, "the function argument of "+p.String()); r != "" {
						return r
					}
				}
			}
			for _, a := range p.args {
				if a.kind == "var" && a.name != "_" {
					bind(a.name)
				}
			}
		case "neg":
			for _, a := range p.args {
				if a.kind == "var" && a.name == "_" {
					continue
				}
				if r := needBound(a, "the negated atom "+p.String()); r != "" {
					return r
				}
			}
		case "ineq":
			if r := needBound(p.l, "the inequality "+p.String()); r != "" {
				return r
			}
			if r := needBound(p.r, "the inequality "+p.String()); r != "" {
				return r
			}
		case "eq":
			l, r := p.l, p.r
			if l.kind == "fn" {
				if x := needBound(l, "the function in "+p.String()); x != "" {
					return x
				}
			}
			if r.kind == "fn" {
				if x := needBound(r, "the function in "+p.String()); x != "" {
					return x
				}
			}
			switch {
			case l.kind == "var" && r.kind == "var":
				union(l.name, r.name)
			case l.kind == "var":
				bind(l.name)
			case r.kind == "var":
				bind(r.name)
			}
		}
	}
	defined := map[string]bool{}
	if hasDo {
		defined["N"] = true
		keys := map[string]bool{}
		for _, kx := range doKeys {
			keys[kx] = true
			if strings.HasPrefix(kx, "#") {
				return "group_by key " + kx[1:] + " is a constant: the grouping code takes every key for a variable"
			}
			if !isBound(kx) {
				return "group_by key " + kx + " is not bound by the body"
			}
		}
		for _, h := range head {
			if h.kind == "var" && !keys[h.name] && !defined[h.name] {
				return "head variable " + h.name + " is neither a group_by key nor aggregated: the stored fact would not be ground"
			}
		}
	}
	for _, h := range head {
		vs := map[string]bool{}
		h.vars(vs)
		for v := range vs {
			if defined[v] {
				continue
			}
			if v == "_" || !isBound(v) {
				return "head variable " + v + " never receives a value: the stored fact would not be ground"
			}
		}
	}
	return ""
}

// ---- conversion to and from interpreter values ----

type clauseKit struct {
	k  *astKit
	ck *constKit
}

func (q *clauseKit) term(t hTerm) ordabs.Value {
	switch t.kind {
	case "var":
		return &ordabs.Rec{Fields: map[string]ordabs.Value{"Symbol": t.name}, T: "ast.Variable"}
	case "const":
		return q.ck.mk(q.ck.Number, t.n)
	}
	f := q.k.zero("ast", "ApplyFn")
	f.Fields["Function"] = &ordabs.Rec{Fields: map[string]ordabs.Value{"Symbol": t.name, "Arity": int64(len(t.args))}, T: "ast.FunctionSym"}
	var as []ordabs.Value
	for _, a := range t.args {
		as = append(as, q.term(a))
	}
	f.Fields["Args"] = &ordabs.Slice{Elems: &as}
	return f
}

func (q *clauseKit) atom(pred string, args []hTerm) *ordabs.Rec {
	a := q.k.atom(pred, int64(len(args)))
	var as []ordabs.Value
	for _, x := range args {
		as = append(as, q.term(x))
	}
	a.Fields["Args"] = &ordabs.Slice{Elems: &as}
	return a
}

func (q *clauseKit) prem(p hPrem) ordabs.Value {
	switch p.kind {
	case "atom":
		return q.atom(p.pred, p.args)
	case "neg":
		n := q.k.zero("ast", "NegAtom")
		n.Fields["Atom"] = q.atom(p.pred, p.args)
		return n
	case "eq":
		e := q.k.zero("ast", "Eq")
		e.Fields["Left"], e.Fields["Right"] = q.term(p.l), q.term(p.r)
		return e
	}
	e := q.k.zero("ast", "Ineq")
	e.Fields["Left"], e.Fields["Right"] = q.term(p.l), q.term(p.r)
	return e
}

func (q *clauseKit) clause(c hClause) *ordabs.Rec {
	cl := q.k.zero("ast", "Clause")
	cl.Fields["Head"] = q.atom(c.headPred, c.head)
	var ps []ordabs.Value
	for _, p := range c.prems {
		ps = append(ps, q.prem(p))
	}
	cl.Fields["Premises"] = &ordabs.Slice{Elems: &ps}
	if c.letVar != "" {
		tr := q.k.zero("ast", "Transform")
		s1 := q.k.zero("ast", "TransformStmt")
		s1.Fields["Var"] = &ordabs.Obj{Name: c.letVar, Fields: map[string]ordabs.Value{"Symbol": c.letVar}, T: "ast.Variable"}
		s1.Fields["Fn"] = q.term(c.letExpr)
		st := []ordabs.Value{s1}
		tr.Fields["Statements"] = &ordabs.Slice{Elems: &st}
		cl.Fields["Transform"] = &ordabs.Obj{Name: "transform", Fields: tr.Fields, T: "ast.Transform"}
	}
	if c.hasDo {
		tr := q.k.zero("ast", "Transform")
		s1 := q.k.zero("ast", "TransformStmt")
		var keys []hTerm
		for _, kx := range c.doKeys {
			if strings.HasPrefix(kx, "#") {
				var n int64
				fmt.Sscanf(kx[1:], "%d", &n)
				keys = append(keys, hc(n))
				continue
			}
			keys = append(keys, hv(kx))
		}
		gb := q.term(hf("fn:group_by", keys...)).(*ordabs.Rec)
		gb.Fields["Function"].(*ordabs.Rec).Fields["Arity"] = int64(-1)
		s1.Fields["Fn"] = gb
		s2 := q.k.zero("ast", "TransformStmt")
		s2.Fields["Var"] = &ordabs.Obj{Name: "N", Fields: map[string]ordabs.Value{"Symbol": "N"}, T: "ast.Variable"}
		s2.Fields["Fn"] = q.term(hf("fn:count"))
		st := []ordabs.Value{s1, s2}
		tr.Fields["Statements"] = &ordabs.Slice{Elems: &st}
		cl.Fields["Transform"] = &ordabs.Obj{Name: "transform", Fields: tr.Fields, T: "ast.Transform"}
	}
	return cl
}

func backTerm(v ordabs.Value) hTerm {
	r, _ := v.(*ordabs.Rec)
	if r == nil {
		return hTerm{kind: "var", name: "?"}
	}
	switch r.T {
	case "ast.Variable":
		return hv(fmt.Sprint(r.Fields["Symbol"]))
	case "ast.Constant":
		n, _ := r.Fields["NumValue"].(int64)
		return hc(n)
	case "ast.ApplyFn":
		t := hTerm{kind: "fn", name: fmt.Sprint(r.Fields["Function"].(*ordabs.Rec).Fields["Symbol"])}
		if sl, _ := r.Fields["Args"].(*ordabs.Slice); sl != nil {
			for _, a := range *sl.Elems {
				t.args = append(t.args, backTerm(a))
			}
		}
		return t
	}
	return hTerm{kind: "var", name: "?"}
}

func backAtom(v ordabs.Value) (string, []hTerm) {
	a, _ := v.(*ordabs.Rec)
	pred := fmt.Sprint(a.Fields["Predicate"].(*ordabs.Rec).Fields["Symbol"])
	var args []hTerm
	if sl, _ := a.Fields["Args"].(*ordabs.Slice); sl != nil {
		for _, x := range *sl.Elems {
			args = append(args, backTerm(x))
		}
	}
	return pred, args
}

func backPrems(v ordabs.Value) []hPrem {
	var out []hPrem
	sl, _ := v.(*ordabs.Slice)
	if sl == nil {
		return nil
	}
	for _, p := range *sl.Elems {
		r := p.(*ordabs.Rec)
		switch r.T {
		case "ast.Atom":
			pr, as := backAtom(r)
			out = append(out, hPrem{kind: "atom", pred: pr, args: as})
		case "ast.NegAtom":
			pr, as := backAtom(r.Fields["Atom"])
			out = append(out, hPrem{kind: "neg", pred: pr, args: as})
		case "ast.Eq":
			out = append(out, hPrem{kind: "eq", l: backTerm(r.Fields["Left"]), r: backTerm(r.Fields["Right"])})
		case "ast.Ineq":
			out = append(out, hPrem{kind: "ineq", l: backTerm(r.Fields["Left"]), r: backTerm(r.Fields["Right"])})
		default:
			out = append(out, hPrem{kind: "atom", pred: "?" + r.T})
		}
	}
	return out
}

func checkC04(c *core.Ctx) {
	c.Rule(rC04Safe, "RewriteClause followed by CheckRule, both read from source and evaluated on every clause built from up to three premises of a pool (positive, negated, wildcard and built-in atoms, equalities with constants, variables and function expressions, inequalities) with three kinds of head and with or without a do-transform: whenever the rule check accepts, the rewritten clause is safe under left-to-right evaluation by the reference judgement (every variable of a negated atom, comparison, function argument and of the head has a value where it is needed)", 1)
	c.Rule(rC04Perm, "on the same clauses RewriteClause returns a permutation of the premises: no literal is dropped, duplicated or changed, and a negated atom is placed after the literals that bind its variables whenever the clause has such literals", 1)
	c.Rule(rC04Ord, "Analyzer.Analyze, read from source and evaluated with recording stages, checks the clause it evaluates: every clause is rewritten once against the desugared declarations, CheckRule receives the rewritten clause, exactly the checked clauses reach ProgramInfo.Rules and (evaluated) InitialFacts, and a rejected clause stops Analyze", 1)
	c.Rule(rC04Red, "reducers applied to a non-variable return an error instead of asserting the argument's type", 1)
	c.Rule(rC04Eval, "every clause of the family that RewriteClause + CheckRule (read from source) accept is handed, exactly as rewritten, to (*engine).oneStepEvalClause, read from source and evaluated with the real premise helpers, expression evaluator, built-ins and union-find over two set-model stores: evaluation returns no error and derives only ground facts", 1)
	c04Corpus(c)
	analyzePipeline(c, "", rC04Ord)
	c04Reducer(c)
}

func premisePool() []hPrem {
	X, Y, Z := hv("X"), hv("Y"), hv("Z")
	return []hPrem{
		{kind: "atom", pred: "a", args: []hTerm{X}},
		{kind: "atom", pred: "b", args: []hTerm{Y}},
		{kind: "atom", pred: "e", args: []hTerm{X, Y}},
		{kind: "atom", pred: "a", args: []hTerm{hv("_")}},
		{kind: "neg", pred: "n", args: []hTerm{X}},
		{kind: "neg", pred: "m", args: []hTerm{X, Y}},
		{kind: "neg", pred: "k", args: []hTerm{Z}},
		{kind: "neg", pred: "n", args: []hTerm{Y}},
		{kind: "eq", l: X, r: hc(1)},
		{kind: "eq", l: Y, r: X},
		{kind: "eq", l: Y, r: hf("fn:plus", X, hc(1))},
		{kind: "eq", l: X, r: hf("fn:plus", Y, hc(1))},
		{kind: "ineq", l: X, r: Y},
		{kind: "atom", pred: ":lt", args: []hTerm{X, Y}},
	}
}

// c04OnlyHead restricts the corpus to one head shape (used when another property repeats the obligation); -1 = all.
var c04OnlyHead = -1

// c04FnClass: report the class "function expression in a positive atom" (off when another property repeats the
// obligation for a head shape to which that class does not belong).
var c04FnClass = true

func c04Corpus(c *core.Ctx) {
	rw := c.MustFunc(rC04Perm, "analysis", "RewriteClause")
	ck := c.MustFunc(rC04Safe, "analysis", "Analyzer.CheckRule")
	if rw == nil || ck == nil {
		return
	}
	q := &clauseKit{k: &astKit{c: c, ok: true}, ck: newConstKit(c, rC04Safe)}
	if !q.ck.ok {
		return
	}
	in := ordabs.New(c.Prog)
	in.InstallErrorStubs()
	nilErr := func(in *ordabs.Interp, _ ordabs.Value, _ []ordabs.Value) ([]ordabs.Value, error) {
		return []ordabs.Value{nil}, nil
	}
	in.Stubs["analysis.Analyzer.checkPredicates"] = nilErr
	in.Stubs["analysis.Analyzer.checkVisibility"] = nilErr
	in.Stubs["analysis.Analyzer.checkFunctions"] = nilErr
	in.Stubs["ast.Clause.String"] = func(in *ordabs.Interp, _ ordabs.Value, _ []ordabs.Value) ([]ordabs.Value, error) {
		return []ordabs.Value{"<clause>"}, nil
	}
	in.Stubs["builtin.IsReducerFunction"] = func(in *ordabs.Interp, _ ordabs.Value, args []ordabs.Value) ([]ordabs.Value, error) {
		s, _ := args[0].(*ordabs.Rec).Fields["Symbol"].(string)
		return []ordabs.Value{s == "fn:count" || s == "fn:sum"}, nil
	}
	in.Stubs["ast.PredicateSym.IsBuiltin"] = func(in *ordabs.Interp, recv ordabs.Value, _ []ordabs.Value) ([]ordabs.Value, error) {
		s, _ := recv.(*ordabs.Rec).Fields["Symbol"].(string)
		return []ordabs.Value{strings.HasPrefix(s, ":")}, nil
	}
	reducers := ordabs.NewMap()
	in.Globals = map[string]ordabs.Value{"builtin.ReducerFunctions": reducers}
	an := q.k.zero("analysis", "Analyzer")
	an.Fields["decl"] = ordabs.NewMap()
	an.Fields["extraPredicates"] = ordabs.NewMap()
	analyzer := &ordabs.Obj{Name: "analyzer", Fields: an.Fields, T: "analysis.Analyzer"}
	if !q.k.ok {
		c.Unres(rC04Safe, ck.Name, ck.Decl.Pos(), "anchor-unresolved: analysis.Analyzer / ast node types")
		return
	}
	pool := rjPool()
	base := len(premisePool())
	evalF := c.MustFunc(rC04Eval, "engine", "engine.oneStepEvalClause")
	var rj *rjFix
	if evalF != nil {
		rj = newRJFix(c, rC04Eval)
		if !rj.ok {
			rj = nil
		}
	}
	evalBad, evaluated := "", 0
	type headSpec struct {
		args []hTerm
		do   [][]string // transform variants: nil entry = none
	}
	heads := []hClause{
		{headPred: "h", head: []hTerm{hv("X")}},
		{headPred: "h", head: []hTerm{hv("X"), hv("Y")}},
		{headPred: "h", head: []hTerm{hv("X0")}},
		{headPred: "h", head: []hTerm{hv("X"), hv("N")}, hasDo: true, doKeys: []string{"X"}},
		{headPred: "h", head: []hTerm{hv("X"), hv("N")}, hasDo: true, doKeys: []string{}},
		{headPred: "h", head: []hTerm{hv("N")}, hasDo: true, doKeys: []string{}},
		{headPred: "h", head: []hTerm{hv("X"), hv("N")}, hasDo: true, doKeys: []string{"X", "#7"}},
	}
	safeBad, permBad := "", ""
	safeBadFn, evalBadFn, nFnClass := "", "", 0
	n, accepted := 0, 0
	multiset := func(ps []hPrem) string {
		var ss []string
		for _, p := range ps {
			ss = append(ss, p.String())
		}
		sort.Strings(ss)
		return strings.Join(ss, " ; ")
	}
	var seqs [][]int
	for i := range pool {
		seqs = append(seqs, []int{i})
		for j := range pool {
			if j == i {
				continue
			}
			seqs = append(seqs, []int{i, j})
			if i >= base || j >= base {
				continue // three premises: C04's own pool only (the extension enters singly and in pairs)
			}
			for l := 0; l < base; l++ {
				if l == i || l == j {
					continue
				}
				seqs = append(seqs, []int{i, j, l})
			}
		}
	}
	// an extension premise before, between and after two of the binding atoms a(X), b(Y), e(X,Y)
	for x := base; x < len(pool); x++ {
		for _, i := range []int{0, 1, 2} {
			for _, j := range []int{0, 1, 2} {
				if i != j {
					seqs = append(seqs, []int{x, i, j}, []int{i, x, j}, []int{i, j, x})
				}
			}
		}
	}
	for hi, h := range heads {
		if c04OnlyHead >= 0 && hi != c04OnlyHead {
			continue
		}
		for _, sq := range seqs {
			if h.hasDo && len(sq) > 2 {
				continue
			}
			cl := h
			cl.prems = nil
			for _, i := range sq {
				cl.prems = append(cl.prems, pool[i])
			}
			in.Reset()
			in.Fuel = 500000
			out, err := in.Call(rw, nil, []ordabs.Value{ordabs.NewMap(), q.clause(cl)})
			if !runORD(c, rC04Perm, rw.Name, rw, err) {
				return
			}
			rewritten, _ := out[0].(*ordabs.Rec)
			if rewritten == nil {
				c.Unres(rC04Perm, rw.Name, rw.Decl.Pos(), "RewriteClause did not return a clause")
				return
			}
			n++
			rp := backPrems(rewritten.Fields["Premises"])
			if multiset(rp) != multiset(cl.prems) && permBad == "" {
				permBad = fmt.Sprintf("clause %s is rewritten to premises [%s]: not a permutation of the original literals", cl, multiset(rp))
			}
			in.Fuel = 500000
			out, err = in.Call(ck, analyzer, []ordabs.Value{rewritten})
			if !runORD(c, rC04Safe, ck.Name, ck, err) {
				return
			}
			if out[0] != nil {
				continue // rejected: always sound
			}
			accepted++
			reason := unsafeReason(cl.head, rp, cl.hasDo, cl.doKeys)
			// a separate class with a construct of its own: a function expression among the arguments of a
			// positive atom of a user predicate whose variables have no value yet (see known_findings.txt)
			fnClass := strings.Contains(reason, "when the function argument of ") && !strings.Contains(reason, "when the function argument of !") && !strings.Contains(reason, "when the function argument of :")
			if reason != "" {
				var rs []string
				for _, p := range rp {
					rs = append(rs, p.String())
				}
				msg := fmt.Sprintf("clause %s is accepted and evaluated with premises in the order [%s], but %s", cl, strings.Join(rs, ", "), reason)
				if fnClass && safeBadFn == "" {
					safeBadFn = msg
				}
				if !fnClass && safeBad == "" {
					safeBad = msg
				}
			}
			if fnClass {
				nFnClass++
			}
			// accepted: hand the very clause analysis produced to the rule evaluator
			if rj != nil && !cl.hasDo && fnClass && evalBadFn == "" {
				rj.load(rjStores()[1], rjStore{})
				got, err := rj.seminaive(evalF, rewritten)
				if !runORD(c, rC04Eval, evalF.Name, evalF, err) {
					rj = nil
				} else if got.err {
					evalBadFn = fmt.Sprintf("clause %s is accepted by analysis, but evaluating it fails with an error (a variable without a value in a function argument of a positive atom)", cl)
				}
			}
			if rj != nil && !cl.hasDo && !fnClass && evalBad == "" {
				for si, st := range rjStores()[:2] {
					rj.load(st, rjStore{})
					got, err := rj.seminaive(evalF, rewritten)
					if !runORD(c, rC04Eval, evalF.Name, evalF, err) {
						rj = nil
						break
					}
					evaluated++
					if got.err {
						evalBad = fmt.Sprintf("clause %s is accepted by analysis, but evaluating it over store %d fails with an error (a variable without a value where one is needed, or an argument of the wrong form)", cl, si)
					} else if !got.ground {
						evalBad = fmt.Sprintf("clause %s is accepted by analysis, but evaluating it over store %d derives the non-ground fact %s", cl, si, got.detail)
					}
				}
			}
		}
	}
	c.Cover("clauses_evaluated", n)
	c.Cover("clauses_accepted", accepted)
	c.Check(permBad == "", rC04Perm, rw.Name, rw.Decl.Pos(), fmt.Sprintf("a permutation of the premises on all %d clauses", n), permBad)
	if evalF != nil && rj != nil {
		c.Cover("accepted_clauses_evaluated", evaluated)
		c.Check(evalBad == "" && (evaluated > 100 || c04OnlyHead >= 0), rC04Eval, evalF.Name, evalF.Decl.Pos(), fmt.Sprintf("%d evaluations of accepted clauses: no error, only ground facts", evaluated), evalBad)
	}
	if c04FnClass {
		const fnConstruct = ":function-argument-of-positive-atom"
		c.Check(safeBadFn == "", rC04Safe, ck.Name+fnConstruct, ck.Decl.Pos(), fmt.Sprintf("%d accepted clauses with a function expression in a positive atom: its variables have values", nFnClass), safeBadFn)
		if evalF != nil && rj != nil {
			c.Check(evalBadFn == "", rC04Eval, evalF.Name+fnConstruct, evalF.Decl.Pos(), "accepted clauses with a function expression in a positive atom evaluate without error", evalBadFn)
		}
	}
	c.Check(safeBad == "" && (accepted > 20 || c04OnlyHead >= 0), rC04Safe, ck.Name, ck.Decl.Pos(), fmt.Sprintf("%d of %d clauses accepted, all of them safe in their evaluation order", accepted, n), safeBad)
}
