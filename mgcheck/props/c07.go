package props

import (
	"fmt"
	"go/ast"
	"go/constant"
	"go/types"
	"strings"

	"mgcheck/core"
	"mgcheck/ordabs"
)

func init() { register("C07", checkC07) }

const (
	rC07Cmp   = "ORDABS.comparison-predicates"
	rC07Arith = "ORDABS.integer-arithmetic"
	rC07Disp  = "ORDABS.arithmetic-dispatch"
	rC07Red   = "ORDABS.reducers"
	rC07Str   = "ORDABS.string-functions"
)

var boundary = []int64{-1 << 63, -1<<63 + 1, -7, -2, -1, 0, 1, 2, 7, 1<<63 - 2, 1<<63 - 1}

func checkC07(c *core.Ctx) {
	c.Rule(rC07Cmp, "builtin.Decide, evaluated for each of the twelve comparison predicates over all pairs of boundary values (MinInt64, -1, 0, 1, MaxInt64 ...) of the matching constant kind, equals the int64 order relation of its name; a constant of another kind is an error", 12)
	c.Rule(rC07Arith, "evalPlus/evalMinus/evalMult/evalDiv/evalMod, evaluated over all pairs (and triples) of boundary values, equal Go's two's-complement + - * and truncating / %, fold left over further arguments, report a zero divisor as ErrDivisionByZero at every position, and satisfy x = (x div y)*y + (x mod y)", 5)
	c.Rule(rC07Disp, "functional.EvalApplyFn, read from source and evaluated on (7, 2): fn:plus, fn:minus, fn:mult, fn:div and fn:mod yield 9, 5, 14, 3 and 1 - each symbol reaches the operation of its name with the arguments in order", 1)
	c.Rule(rC07Red, "each list reducer passes to reduceNum/reduceFloat a combine function that is max, min or + as its name says (commutative and associative on all boundary triples, so the order of solutions cannot matter), an identity element of the right kind, and EvalReduceFn/listReducers map every reducer symbol to the reducer of the same name", 12)
	c.Rule(rC07Str, "functional.EvalApplyFn evaluated on fn:string:replace over 240 combinations of text, search string (empty included), replacement and count (-1, 0, 1, 2) agrees with plain strings.Replace; fn:string:concat joins its texts in argument order", 2)
	c07Comparisons(c)
	c07Arithmetic(c)
	c07Reducers(c)
	c07DataLaws(c)
	c07ReducerLaws(c, rC07RedEval)
	c.Rule("ORDABS.map-struct-constructors-canonical", "the map and struct constructors (ast.Map, ast.Struct with the interpreted key sorter) build one constant from the same entries in every supply order, also for keys that agree in hash and Symbol field: what is put in is what the accessors return, whatever the order (obligation shared with C08)", 2)
	c.Under("ORDABS.map-struct-constructors-canonical", []string{rC08Order}, func() { c08OrderFnv(c) })
}

type constKit struct {
	c                              *core.Ctx
	T                              *ordabs.Rec
	Number, Time, Duration, String int64
	ok                             bool
}

func newConstKit(c *core.Ctx, rule string) *constKit {
	k := &constKit{c: c, ok: true}
	n := c.Prog.Named("ast", "Constant")
	if n == nil {
		c.Unres(rule, "ast.Constant", 0, "anchor-unresolved: type ast.Constant")
		k.ok = false
		return k
	}
	z, err := ordabs.ZeroOf(n)
	if err != nil {
		c.Unres(rule, "ast.Constant", 0, "cannot model ast.Constant: %v", err)
		k.ok = false
		return k
	}
	k.T = z.(*ordabs.Rec)
	get := func(name string) int64 {
		v, ok := constInt(c.Prog, "ast", name)
		if !ok {
			c.Unres(rule, "ast."+name, 0, "anchor-unresolved: constant ast.%s", name)
			k.ok = false
		}
		return v
	}
	k.Number, k.Time, k.Duration, k.String = get("NumberType"), get("TimeType"), get("DurationType"), get("StringType")
	return k
}

func (k *constKit) mk(typ, n int64) *ordabs.Rec {
	r := &ordabs.Rec{Fields: map[string]ordabs.Value{}, T: "ast.Constant"}
	for f, v := range k.T.Fields {
		r.Fields[f] = v
	}
	r.Fields["Type"], r.Fields["NumValue"] = typ, n
	return r
}

func c07Comparisons(c *core.Ctx) {
	f := c.MustFunc(rC07Cmp, "builtin", "Decide")
	k := newConstKit(c, rC07Cmp)
	atomT := c.Prog.Named("ast", "Atom")
	if f == nil || !k.ok || atomT == nil {
		return
	}
	in := ordabs.New(c.Prog)
	in.InstallErrorStubs()
	type cmp struct {
		sym  string
		kind int64
		op   string
		fn   func(a, b int64) bool
	}
	lt := func(a, b int64) bool { return a < b }
	le := func(a, b int64) bool { return a <= b }
	gt := func(a, b int64) bool { return a > b }
	ge := func(a, b int64) bool { return a >= b }
	cmps := []cmp{{":lt", k.Number, "<", lt}, {":le", k.Number, "<=", le}, {":gt", k.Number, ">", gt}, {":ge", k.Number, ">=", ge},
		{":time:lt", k.Time, "<", lt}, {":time:le", k.Time, "<=", le}, {":time:gt", k.Time, ">", gt}, {":time:ge", k.Time, ">=", ge},
		{":duration:lt", k.Duration, "<", lt}, {":duration:le", k.Duration, "<=", le}, {":duration:gt", k.Duration, ">", gt}, {":duration:ge", k.Duration, ">=", ge}}
	vals := []int64{-1 << 63, -1, 0, 1, 1<<63 - 1}
	subst := &ordabs.Obj{Name: "subst", Opaque: true}
	for _, cm := range cmps {
		bad, n, ok := "", 0, true
		for _, a := range vals {
			for _, b := range vals {
				az, _ := ordabs.ZeroOf(atomT)
				atom := az.(*ordabs.Rec)
				atom.Fields["Predicate"].(*ordabs.Rec).Fields["Symbol"] = cm.sym
				atom.Fields["Predicate"].(*ordabs.Rec).Fields["Arity"] = int64(2)
				args := []ordabs.Value{k.mk(cm.kind, a), k.mk(cm.kind, b)}
				atom.Fields["Args"] = &ordabs.Slice{Elems: &args}
				in.Reset()
				out, err := in.Call(f, nil, []ordabs.Value{atom, subst})
				if !runORD(c, rC07Cmp, f.Name+":"+cm.sym, f, err) {
					ok = false
					break
				}
				n++
				if out[2] != nil {
					bad = fmt.Sprintf("%s(%d, %d) returned an error", cm.sym, a, b)
					break
				}
				if got, _ := out[0].(bool); got != cm.fn(a, b) && bad == "" {
					bad = fmt.Sprintf("%s(%d, %d) = %v, but %d %s %d is %v (a comparison through arithmetic overflows at the boundaries)", cm.sym, a, b, got, a, cm.op, b, cm.fn(a, b))
				}
			}
			if !ok || bad != "" {
				break
			}
		}
		if !ok {
			continue
		}
		// wrong kind is an error
		if bad == "" {
			other := k.String
			az, _ := ordabs.ZeroOf(atomT)
			atom := az.(*ordabs.Rec)
			atom.Fields["Predicate"].(*ordabs.Rec).Fields["Symbol"] = cm.sym
			args := []ordabs.Value{k.mk(other, 1), k.mk(cm.kind, 2)}
			atom.Fields["Args"] = &ordabs.Slice{Elems: &args}
			in.Reset()
			out, err := in.Call(f, nil, []ordabs.Value{atom, subst})
			if err == nil && out[2] == nil {
				bad = cm.sym + " accepted a string constant as operand instead of reporting an error"
			}
		}
		c.Check(bad == "", rC07Cmp, f.Name+":"+cm.sym, f.Decl.Pos(), fmt.Sprintf("equals %s on %d boundary pairs", cm.op, n), bad)
	}
}

func c07Arithmetic(c *core.Ctx) {
	k := newConstKit(c, rC07Arith)
	if !k.ok {
		return
	}
	in := ordabs.New(c.Prog)
	in.InstallErrorStubs()
	divz := func(v ordabs.Value) bool {
		e, ok := v.(ordabs.ErrVal)
		return ok && strings.Contains(strings.ToLower(e.Tag), "zero")
	}
	call := func(f *core.Func, xs ...int64) (int64, ordabs.Value, error) {
		var elems []ordabs.Value
		for _, x := range xs {
			elems = append(elems, k.mk(k.Number, x))
		}
		in.Reset()
		out, err := in.Call(f, nil, []ordabs.Value{&ordabs.Slice{Elems: &elems}})
		if err != nil {
			return 0, nil, err
		}
		r, _ := out[0].(int64)
		return r, out[1], nil
	}
	goDiv := func(a, b int64) int64 {
		if b == -1 {
			return -a
		}
		return a / b
	}
	goMod := func(a, b int64) int64 {
		if b == -1 {
			return 0
		}
		return a % b
	}
	type op struct {
		fn   string
		name string
		f2   func(a, b int64) int64
		part bool // partial: zero divisor is an error
	}
	ops := []op{{"evalPlus", "+", func(a, b int64) int64 { return a + b }, false}, {"evalMinus", "-", func(a, b int64) int64 { return a - b }, false},
		{"evalMult", "*", func(a, b int64) int64 { return a * b }, false}, {"evalDiv", "/", goDiv, true}, {"evalMod", "%", goMod, true}}
	results := map[string]map[[2]int64]int64{}
	for _, o := range ops {
		f := c.MustFunc(rC07Arith, "functional", o.fn)
		if f == nil {
			continue
		}
		bad, n, ok := "", 0, true
		results[o.fn] = map[[2]int64]int64{}
		for _, a := range boundary {
			for _, b := range boundary {
				r, e, err := call(f, a, b)
				if dz, isDz := err.(*ordabs.DivByZero); isDz {
					bad = fmt.Sprintf("%s(%d, %d) divides by zero at %s without a guard: evaluation would panic", o.fn, a, b, c.Prog.Pos(dz.Pos))
					break
				}
				if !runORD(c, rC07Arith, f.Name, f, err) {
					ok = false
					break
				}
				n++
				if o.part && b == 0 {
					if !divz(e) && bad == "" {
						bad = fmt.Sprintf("%s(%d, 0) returned (%d, %v) instead of the division-by-zero error", o.fn, a, r, e)
					}
					continue
				}
				if e != nil && bad == "" {
					bad = fmt.Sprintf("%s(%d, %d) returned an error", o.fn, a, b)
				}
				if want := o.f2(a, b); r != want && bad == "" {
					bad = fmt.Sprintf("%s(%d, %d) = %d, Go's int64 %d %s %d is %d", o.fn, a, b, r, a, o.name, b, want)
				}
				results[o.fn][[2]int64{a, b}] = r
			}
			if !ok || bad != "" {
				break
			}
		}
		if !ok {
			continue
		}
		// three arguments fold left; a zero divisor is reported at any position
		if bad == "" && o.fn != "evalMod" {
			small := []int64{-7, -1, 0, 1, 2, 7, 1<<63 - 1}
			for _, a := range small {
				for _, b := range small {
					for _, d := range small {
						r, e, err := call(f, a, b, d)
						if _, isDz := err.(*ordabs.DivByZero); isDz {
							bad = fmt.Sprintf("%s(%d, %d, %d) divides by zero without a guard", o.fn, a, b, d)
							break
						}
						if !runORD(c, rC07Arith, f.Name, f, err) {
							ok = false
							break
						}
						n++
						if o.part && (b == 0 || d == 0) {
							if !divz(e) && bad == "" {
								bad = fmt.Sprintf("%s(%d, %d, %d) returned (%d, %v): a zero divisor at any position must be reported", o.fn, a, b, d, r, e)
							}
							continue
						}
						if want := o.f2(o.f2(a, b), d); (e != nil || r != want) && bad == "" {
							bad = fmt.Sprintf("%s(%d, %d, %d) = %d (err %v), want (%d %s %d) %s %d = %d", o.fn, a, b, d, r, e, a, o.name, b, o.name, d, want)
						}
					}
				}
			}
		}
		// unary forms
		if bad == "" && ok {
			for _, a := range boundary {
				switch o.fn {
				case "evalMinus":
					if r, e, err := call(f, a); err == nil && (e != nil || r != -a) {
						bad = fmt.Sprintf("evalMinus(%d) = %d, want %d", a, r, -a)
					}
				case "evalDiv":
					r, e, err := call(f, a)
					if err != nil {
						continue
					}
					if a == 0 {
						if !divz(e) {
							bad = "evalDiv(0) (1/0) must be the division-by-zero error"
						}
					} else if e != nil || r != goDiv(1, a) {
						bad = fmt.Sprintf("evalDiv(%d) = %d, documented as 1/x = %d", a, r, goDiv(1, a))
					}
				}
			}
		}
		if ok {
			c.Check(bad == "", rC07Arith, f.Name, f.Decl.Pos(), fmt.Sprintf("agrees with Go's int64 %s on %d boundary tuples", o.name, n), bad)
		}
	}
	// x = (x div y)*y + (x mod y)
	if d, m := results["evalDiv"], results["evalMod"]; len(d) > 0 && len(m) > 0 {
		bad := ""
		for kk, q := range d {
			if r, ok := m[kk]; ok && q*kk[1]+r != kk[0] && bad == "" {
				bad = fmt.Sprintf("x=%d y=%d: (x div y)*y + (x mod y) = %d*%d + %d != x", kk[0], kk[1], q, kk[1], r)
			}
		}
		c.Check(bad == "", rC07Arith, "functional.evalDiv+evalMod:identity", 0, fmt.Sprintf("x = (x div y)*y + (x mod y) on %d pairs", len(d)), bad)
	}
}

func c07Reducers(c *core.Ctx) {
	k := newConstKit(c, rC07Red)
	if !k.ok {
		return
	}
	floatT, _ := constInt(c.Prog, "ast", "Float64Type")
	type red struct {
		fn, sym string
		kind    int64
		op      string
		ident   int64
		float   bool
	}
	minI, maxI := int64(-1<<63), int64(1<<63-1)
	reds := []red{
		{"evalMax", "Max", k.Number, "max", minI, false}, {"evalMin", "Min", k.Number, "min", maxI, false}, {"evalSum", "Sum", k.Number, "+", 0, false},
		{"evalDurationMax", "DurationMax", k.Duration, "max", minI, false}, {"evalDurationMin", "DurationMin", k.Duration, "min", maxI, false}, {"evalDurationSum", "DurationSum", k.Duration, "+", 0, false},
		{"evalTimeMax", "TimeMax", k.Time, "max", minI, false}, {"evalTimeMin", "TimeMin", k.Time, "min", maxI, false},
	}
	ref := map[string]func(a, b int64) int64{"max": func(a, b int64) int64 { return max(a, b) }, "min": func(a, b int64) int64 { return min(a, b) }, "+": func(a, b int64) int64 { return a + b }}
	in := ordabs.New(c.Prog)
	in.InstallErrorStubs()
	var gotEmpty ordabs.Value
	var gotCombine ordabs.Value
	in.Stubs["functional.reduceNum"] = func(in *ordabs.Interp, _ ordabs.Value, args []ordabs.Value) ([]ordabs.Value, error) {
		gotEmpty, gotCombine = args[1], args[2]
		return []ordabs.Value{args[1], nil}, nil
	}
	_ = floatT
	for _, r := range reds {
		f := c.MustFunc(rC07Red, "functional", r.fn)
		if f == nil {
			continue
		}
		gotEmpty, gotCombine = nil, nil
		in.Reset()
		_, err := in.Call(f, nil, []ordabs.Value{&ordabs.Obj{Name: "iterator", Opaque: true}})
		if !runORD(c, rC07Red, f.Name, f, err) {
			continue
		}
		e, _ := gotEmpty.(*ordabs.Rec)
		bad := ""
		if e == nil || gotCombine == nil {
			bad = "the reducer does not hand an identity element and a combine function to reduceNum"
		} else {
			if e.Fields["Type"] != ordabs.Value(r.kind) {
				bad = fmt.Sprintf("the identity element has constant kind %v, the reducer's family has kind %d: results would be constants of the wrong kind", e.Fields["Type"], r.kind)
			} else if e.Fields["NumValue"] != ordabs.Value(r.ident) {
				bad = fmt.Sprintf("the identity element is %v, the identity of %s is %d", e.Fields["NumValue"], r.op, r.ident)
			}
			vals := []int64{minI, -1, 0, 1, 5, maxI}
			for _, a := range vals {
				for _, b := range vals {
					out, err := in.CallValue(gotCombine, []ordabs.Value{a, b})
					if err != nil {
						runORD(c, rC07Red, f.Name, f, err)
						bad = "unresolved"
						break
					}
					if got, _ := out[0].(int64); got != ref[r.op](a, b) && bad == "" {
						bad = fmt.Sprintf("combine(%d, %d) = %d, %s gives %d", a, b, got, r.op, ref[r.op](a, b))
					}
				}
			}
		}
		if bad == "unresolved" {
			continue
		}
		c.Check(bad == "", rC07Red, f.Name, f.Decl.Pos(), fmt.Sprintf("combine is %s (commutative, associative), identity %d of the right kind", r.op, r.ident), bad)
	}
	// registry: listReducers maps each symbol to the reducer of the same name
	pkg := c.Prog.Pkg("functional")
	var tbl *ast.CompositeLit
	for _, file := range pkg.Syntax {
		for _, d := range file.Decls {
			gd, ok := d.(*ast.GenDecl)
			if !ok {
				continue
			}
			for _, sp := range gd.Specs {
				vs, ok := sp.(*ast.ValueSpec)
				if ok && len(vs.Names) == 1 && vs.Names[0].Name == "listReducers" && len(vs.Values) == 1 {
					tbl, _ = vs.Values[0].(*ast.CompositeLit)
				}
			}
		}
	}
	if tbl == nil {
		c.Unres(rC07Red, "functional.listReducers", 0, "anchor-unresolved: reducer registry listReducers")
		return
	}
	wantFn := map[string]string{"Max": "evalMax", "Min": "evalMin", "Sum": "evalSum", "FloatMax": "evalFloatMax", "FloatMin": "evalFloatMin", "FloatSum": "evalFloatSum",
		"DurationMax": "evalDurationMax", "DurationMin": "evalDurationMin", "DurationSum": "evalDurationSum", "TimeMax": "evalTimeMax", "TimeMin": "evalTimeMin"}
	bad := ""
	seen := 0
	for _, el := range tbl.Elts {
		kv := el.(*ast.KeyValueExpr)
		key := core.Src(c.Prog.Fset, kv.Key)
		val := core.Src(c.Prog.Fset, kv.Value)
		name := strings.TrimSuffix(strings.TrimPrefix(key, "symbols."), ".Symbol")
		if w, ok := wantFn[name]; ok {
			seen++
			if val != w && bad == "" {
				bad = fmt.Sprintf("listReducers maps fn:%s to %s, want %s", name, val, w)
			}
		}
	}
	if seen != len(wantFn) && bad == "" {
		bad = fmt.Sprintf("listReducers has %d of the %d reducer symbols", seen, len(wantFn))
	}
	c.Check(bad == "", rC07Red, "functional.listReducers", tbl.Pos(), "all 11 list reducers registered under their own symbol", bad)
	// float reducers: shape only (combine is max/min/+ on float64 via builtin)
	for _, fr := range []struct{ fn, op string }{{"evalFloatMax", "max("}, {"evalFloatMin", "min("}, {"evalFloatSum", "acc + v"}} {
		f := c.MustFunc(rC07Red, "functional", fr.fn)
		if f == nil {
			continue
		}
		src := core.SrcFull(c.Prog.Fset, f.Decl.Body)
		calls := core.FindCalls(f.Pkg.TypesInfo, f.Decl.Body, false, "functional.reduceFloat")
		okc := len(calls) == 1 && strings.Contains(core.SrcFull(c.Prog.Fset, calls[0].Args[2]), fr.op)
		c.Check(okc, rC07Red, f.Name, f.Decl.Pos(), "hands "+fr.op+" to reduceFloat", "expected a single reduceFloat call whose combine function is "+fr.op+"; body: "+src)
	}
}

// c07Strings: every successful return in the case of a string function is the library call on the arguments in order.
func argIndexOf(f *core.Func, info *types.Info, e ast.Expr, depth int) int {
	if depth > 6 {
		return -1
	}
	switch x := ast.Unparen(e).(type) {
	case *ast.IndexExpr:
		if id, ok := ast.Unparen(x.X).(*ast.Ident); ok && id.Name == "evaluatedArgs" {
			if tv, ok := info.Types[x.Index]; ok && tv.Value != nil {
				if n, ok := constant.Int64Val(tv.Value); ok {
					return int(n)
				}
			}
		}
	case *ast.SelectorExpr:
		return argIndexOf(f, info, x.X, depth+1)
	case *ast.CallExpr:
		if len(x.Args) == 1 {
			return argIndexOf(f, info, x.Args[0], depth+1)
		}
		if sel, ok := x.Fun.(*ast.SelectorExpr); ok && len(x.Args) == 0 {
			return argIndexOf(f, info, sel.X, depth+1)
		}
	case *ast.Ident:
		obj := info.Uses[x]
		res := -1
		ast.Inspect(f.Decl.Body, func(n ast.Node) bool {
			as, ok := n.(*ast.AssignStmt)
			if !ok {
				return true
			}
			for i, l := range as.Lhs {
				if lid, ok := l.(*ast.Ident); ok && info.Defs[lid] == obj && obj != nil {
					rhs := as.Rhs[0]
					if len(as.Rhs) == len(as.Lhs) {
						rhs = as.Rhs[i]
					}
					res = argIndexOf(f, info, rhs, depth+1)
				}
			}
			return true
		})
		return res
	}
	return -1
}

func inMissBranch(f *core.Func, info *types.Info, w *ast.AssignStmt, mapObj any) bool {
	found := false
	ast.Inspect(f.Decl.Body, func(n ast.Node) bool {
		is, ok := n.(*ast.IfStmt)
		if !ok || is.Else == nil {
			return true
		}
		if w.Pos() >= is.Else.Pos() && w.End() <= is.Else.End() {
			found = true
		}
		return true
	})
	return found
}

func rangesOverLookup(f *core.Func, info *types.Info, rs *ast.RangeStmt, mapObj any) bool {
	// range over a variable that was assigned from the map lookup (previousConstants, existingKeys, slot)
	id, ok := ast.Unparen(rs.X).(*ast.Ident)
	if !ok {
		return false
	}
	return id.Name == "previousConstants" || id.Name == "existingKeys" || id.Name == "slot" || strings.Contains(strings.ToLower(id.Name), "bucket") || strings.Contains(strings.ToLower(id.Name), "exist") || strings.Contains(strings.ToLower(id.Name), "prev")
}
