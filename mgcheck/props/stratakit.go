package props

import (
	"fmt"
	"sort"
	"strings"

	"mgcheck/core"
	"mgcheck/ordabs"
)

// strataRun is one abstract evaluation of (*engine).evalStrata: the function is
// read from source and run with the per-stratum fixpoint (eval), the rewriter and
// the stores replaced by recorders. Nothing about the shape of the code is
// assumed: helpers may be split off or inlined, loops rewritten.
type strataRun struct {
	evals     []strataEval // one entry per call of eval, in order
	plain     []string     // atoms added to the plain store, in order
	temporal  []string     // "atom@interval" added to the temporal store
	retErr    string       // tag of the returned error ("" = nil)
	returned  bool
}

type strataEval struct {
	idb, edb, rules, decls string // sorted, comma separated
	store, tstore          string // names of the store objects handed to the per-stratum engine
}

type strataCfg struct {
	withTemporal bool
	failEvalAt   int  // index of the eval call that fails (-1: none)
	failTAdd     bool // the temporal store refuses the initial fact
	deny         string
}

func symOf(v ordabs.Value) string {
	if r, ok := v.(*ordabs.Rec); ok && r != nil {
		return fmt.Sprint(r.Fields["Symbol"])
	}
	return "?"
}

func mapSyms(v ordabs.Value) string {
	m, _ := v.(*ordabs.Map)
	var ks []string
	if m != nil {
		for _, k := range m.Keys {
			ks = append(ks, symOf(k))
		}
	}
	sort.Strings(ks)
	return strings.Join(ks, ",")
}

func objName(v ordabs.Value) string {
	if o, ok := v.(*ordabs.Obj); ok && o != nil {
		return o.Name
	}
	return "nil"
}

// runEvalStrata evaluates evalStrata on a fixed three-layer program:
// strata {a} | {b,c} | {d}; rules ra; rb1, rb2; rc; rd; initial facts f0 (plain),
// f1 (with an interval), f2 (of a predicate the allow list may deny).
func runEvalStrata(c *core.Ctx, rule string, f *core.Func, cfg strataCfg) (*strataRun, bool) {
	k := &astKit{c: c, ok: true}
	in := ordabs.New(c.Prog)
	in.InstallTimeStubs()
	in.Stubs["time.Now"] = func(in *ordabs.Interp, _ ordabs.Value, _ []ordabs.Value) ([]ordabs.Value, error) {
		return []ordabs.Value{ordabs.TimeVal{NS: 100}}, nil
	}
	in.Stubs["time.Since"] = func(in *ordabs.Interp, _ ordabs.Value, _ []ordabs.Value) ([]ordabs.Value, error) {
		return []ordabs.Value{int64(1)}, nil
	}
	run := &strataRun{}
	in.Stubs["functional.EvalAtom"] = func(in *ordabs.Interp, _ ordabs.Value, a []ordabs.Value) ([]ordabs.Value, error) {
		return []ordabs.Value{a[0], nil}, nil
	}
	store := &ordabs.Obj{Name: "store", Opaque: true}
	tstore := &ordabs.Obj{Name: "temporal", Opaque: true}
	for _, n := range []string{"factstore.FactStore", "factstore.FactStoreWithRemove"} {
		in.Stubs[n+".Add"] = func(in *ordabs.Interp, recv ordabs.Value, a []ordabs.Value) ([]ordabs.Value, error) {
			run.plain = append(run.plain, objName(recv)+":"+atomString(a[0]))
			return []ordabs.Value{true}, nil
		}
	}
	ivString := func(v ordabs.Value) string {
		var fields map[string]ordabs.Value
		switch x := v.(type) {
		case *ordabs.Rec:
			fields = x.Fields
		case *ordabs.Obj:
			if x != nil {
				fields = x.Fields
			}
		}
		if fields == nil {
			return "?"
		}
		return fmt.Sprint(fields["__id"])
	}
	in.Stubs["factstore.TemporalFactStore.Add"] = func(in *ordabs.Interp, recv ordabs.Value, a []ordabs.Value) ([]ordabs.Value, error) {
		if cfg.failTAdd {
			return []ordabs.Value{false, ordabs.ErrVal{Tag: "temporal-add-failed"}}, nil
		}
		run.temporal = append(run.temporal, objName(recv)+":"+atomString(a[0])+"@"+ivString(a[1]))
		return []ordabs.Value{true, nil}, nil
	}
	in.Stubs["factstore.NewMultiIndexedArrayInMemoryStore"] = func(in *ordabs.Interp, _ ordabs.Value, _ []ordabs.Value) ([]ordabs.Value, error) {
		return []ordabs.Value{&ordabs.Obj{Name: "delta", Opaque: true}}, nil
	}
	in.Stubs["factstore.NewTemporalStore"] = func(in *ordabs.Interp, _ ordabs.Value, _ []ordabs.Value) ([]ordabs.Value, error) {
		return []ordabs.Value{&ordabs.Obj{Name: "tdelta", Opaque: true}}, nil
	}
	// the rewriter is the identity here (its own obligations are C02's)
	in.Stubs["rewrite.Rewrite"] = func(in *ordabs.Interp, _ ordabs.Value, a []ordabs.Value) ([]ordabs.Value, error) {
		return []ordabs.Value{a[0]}, nil
	}
	in.Stubs["engine.engine.eval"] = func(in *ordabs.Interp, recv ordabs.Value, _ []ordabs.Value) ([]ordabs.Value, error) {
		var fields map[string]ordabs.Value
		switch x := recv.(type) {
		case *ordabs.Obj:
			if x != nil {
				fields = x.Fields
			}
		case *ordabs.Rec:
			fields = x.Fields
		}
		ev := strataEval{idb: "?", edb: "?", rules: "?"}
		if fields != nil {
			ev.store, ev.tstore = objName(fields["store"]), objName(fields["temporalStore"])
			var pf map[string]ordabs.Value
			switch p := fields["programInfo"].(type) {
			case *ordabs.Obj:
				if p != nil {
					pf = p.Fields
				}
			case *ordabs.Rec:
				pf = p.Fields
			}
			if pf != nil {
				ev.idb, ev.edb, ev.decls = mapSyms(pf["IdbPredicates"]), mapSyms(pf["EdbPredicates"]), mapSyms(pf["Decls"])
				var rs []string
				if sl, _ := pf["Rules"].(*ordabs.Slice); sl != nil {
					for _, r := range *sl.Elems {
						if rr, ok := r.(*ordabs.Rec); ok {
							rs = append(rs, fmt.Sprint(rr.Fields["__id"]))
						}
					}
				}
				sort.Strings(rs)
				ev.rules = strings.Join(rs, ",")
			}
		}
		idx := len(run.evals)
		run.evals = append(run.evals, ev)
		if idx == cfg.failEvalAt {
			return []ordabs.Value{ordabs.ErrVal{Tag: "eval-failed"}}, nil
		}
		return []ordabs.Value{nil}, nil
	}
	// the program
	rule1 := func(id, head string) *ordabs.Rec {
		cl := k.zero("ast", "Clause")
		cl.Fields["Head"] = k.atom(head, 1)
		cl.Fields["__id"] = id
		return cl
	}
	syms := map[string]*ordabs.Rec{}
	for _, n := range []string{"a", "b", "c", "d", "x"} {
		syms[n] = predSym(n, 1)
	}
	ptr := ordabs.NewMap()
	addRules := func(p string, rs ...*ordabs.Rec) {
		var vs []ordabs.Value
		for _, r := range rs {
			vs = append(vs, r)
		}
		ks := ordabs.KeyString(syms[p])
		ptr.M[ks], ptr.Keys[ks] = &ordabs.Slice{Elems: &vs}, syms[p]
	}
	addRules("a", rule1("ra", "a"))
	addRules("b", rule1("rb1", "b"), rule1("rb2", "b"))
	addRules("c", rule1("rc", "c"))
	addRules("d", rule1("rd", "d"))
	ptd := ordabs.NewMap()
	for _, n := range []string{"a", "b", "c", "d"} {
		ks := ordabs.KeyString(syms[n])
		ptd.M[ks], ptd.Keys[ks] = &ordabs.Obj{Name: "decl-" + n, Opaque: true}, syms[n]
	}
	layer := func(ns ...string) ordabs.Value {
		var vs []ordabs.Value
		for _, n := range ns {
			vs = append(vs, syms[n])
		}
		return &ordabs.Slice{Elems: &vs}
	}
	stats := k.zero("engine", "Stats")
	layers := []ordabs.Value{layer("a"), layer("b", "c"), layer("d")}
	stats.Fields["Strata"] = &ordabs.Slice{Elems: &layers}
	durs := []ordabs.Value{int64(0), int64(0), int64(0)}
	stats.Fields["Duration"] = &ordabs.Slice{Elems: &durs}
	strata := []ordabs.Value{nil, nil, nil}
	iv := k.zero("ast", "Interval")
	iv.Fields["__id"] = "iv1"
	facts := []ordabs.Value{k.atom("a", 0), k.atom("b", 0), k.atom("x", 0)}
	times := []ordabs.Value{(*ordabs.Obj)(nil), &ordabs.Obj{Name: "iv1", Fields: iv.Fields, T: "ast.Interval"}, (*ordabs.Obj)(nil)}
	pi := k.zero("analysis", "ProgramInfo")
	pi.Fields["InitialFacts"] = &ordabs.Slice{Elems: &facts}
	pi.Fields["InitialFactTimes"] = &ordabs.Slice{Elems: &times}
	opts := k.zero("engine", "EvalOptions")
	opts.Fields["predicateAllowList"] = ordabs.NewVarPtr(&ordabs.Stub{Name: "allow", Fn: func(in *ordabs.Interp, a []ordabs.Value) ([]ordabs.Value, error) {
		return []ordabs.Value{symOf(a[0]) != cfg.deny}, nil
	}})
	eng := k.zero("engine", "engine")
	if !k.ok {
		c.Unres(rule, f.Name, f.Decl.Pos(), "anchor-unresolved: cannot model the engine's types")
		return nil, false
	}
	eng.Fields["store"] = store
	if cfg.withTemporal {
		eng.Fields["temporalStore"] = tstore
	}
	eng.Fields["programInfo"] = &ordabs.Obj{Name: "programInfo", Fields: pi.Fields}
	eng.Fields["strata"] = &ordabs.Slice{Elems: &strata}
	eng.Fields["predToRules"] = ptr
	eng.Fields["predToDecl"] = ptd
	eng.Fields["predToStratum"] = ordabs.NewMap()
	eng.Fields["stats"] = stats
	eng.Fields["options"] = opts
	in.Reset()
	in.Fuel = 200000
	out, err := in.Call(f, &ordabs.Obj{Name: "engine", Fields: eng.Fields}, nil)
	if !runORD(c, rule, f.Name, f, err) {
		return nil, false
	}
	run.returned = true
	if e, ok := out[0].(ordabs.ErrVal); ok {
		run.retErr = e.Tag
	}
	return run, true
}

// strataOrderRule: layers are evaluated in ascending order, each with exactly
// its own predicates as intensional, their rules, and every earlier layer as
// extensional, all on the caller's store.
func strataOrderRule(c *core.Ctx, rule string) {
	f := c.MustFunc(rule, "engine", "engine.evalStrata")
	if f == nil {
		return
	}
	run, ok := runEvalStrata(c, rule, f, strataCfg{failEvalAt: -1})
	if !ok {
		return
	}
	want := []strataEval{
		{idb: "a", edb: "", rules: "ra", decls: "a", store: "store", tstore: "nil"},
		{idb: "b,c", edb: "a", rules: "rb1,rb2,rc", decls: "b,c", store: "store", tstore: "nil"},
		{idb: "d", edb: "a,b,c", rules: "rd", decls: "d", store: "store", tstore: "nil"},
	}
	bad := ""
	if len(run.evals) != len(want) {
		bad = fmt.Sprintf("three layers give %d fixpoint evaluations, want 3", len(run.evals))
	}
	for i := 0; i < len(run.evals) && i < len(want) && bad == ""; i++ {
		g, w := run.evals[i], want[i]
		switch {
		case g.idb != w.idb:
			bad = fmt.Sprintf("evaluation %d treats {%s} as the layer's own predicates, want {%s} (layers must be visited in ascending order)", i, g.idb, w.idb)
		case g.edb != w.edb:
			bad = fmt.Sprintf("evaluation %d of layer {%s} treats {%s} as extensional, want exactly the earlier layers {%s}", i, g.idb, g.edb, w.edb)
		case g.rules != w.rules:
			bad = fmt.Sprintf("evaluation %d of layer {%s} runs the rules {%s}, want {%s}", i, g.idb, g.rules, w.rules)
		case g.decls != w.decls:
			bad = fmt.Sprintf("evaluation %d of layer {%s} is given the declarations of {%s}, want those of the layer's own predicates {%s}: the fixpoint builds its delta rules from this table, so rules of later layers would fire against incomplete lower layers (and differ from the naive evaluator)", i, g.idb, g.decls, w.decls)
		case g.store != w.store:
			bad = fmt.Sprintf("evaluation %d writes to %s, not to the caller's store", i, g.store)
		}
	}
	if run.retErr != "" && bad == "" {
		bad = "evalStrata returns an error although every layer evaluated without one"
	}
	c.Check(bad == "", rule, f.Name, f.Decl.Pos(), "layers {a} | {b,c} | {d} are evaluated in ascending order, each with its own rules and exactly the earlier layers extensional", bad)
}

// strataErrorRule: an error of a layer's fixpoint, or of the temporal store
// refusing an initial fact, is returned and stops the evaluation.
func strataErrorRule(c *core.Ctx, rule string) {
	f := c.MustFunc(rule, "engine", "engine.evalStrata")
	if f == nil {
		return
	}
	bad := ""
	for at := 0; at < 3; at++ {
		run, ok := runEvalStrata(c, rule, f, strataCfg{failEvalAt: at})
		if !ok {
			return
		}
		if run.retErr == "" && bad == "" {
			bad = fmt.Sprintf("the fixpoint of layer %d fails but evalStrata returns nil", at)
		}
		if len(run.evals) != at+1 && bad == "" {
			bad = fmt.Sprintf("the fixpoint of layer %d fails but %d layer(s) are evaluated (later layers must not run on an incomplete lower layer)", at, len(run.evals))
		}
	}
	run, ok := runEvalStrata(c, rule, f, strataCfg{failEvalAt: -1, withTemporal: true, failTAdd: true})
	if !ok {
		return
	}
	if run.retErr == "" && bad == "" {
		bad = "the temporal store refuses an initial fact but evalStrata returns nil"
	}
	c.Check(bad == "", rule, f.Name+":errors", f.Decl.Pos(), "a failing layer or a refused initial temporal fact is returned at once", bad)
}

// strataInitialFactsRule: initial facts go to the plain store, or, when they
// carry an interval and a temporal store is configured, to the temporal store
// with that very interval; facts of predicates outside the allow list are skipped.
func strataInitialFactsRule(c *core.Ctx, rule string) {
	f := c.MustFunc(rule, "engine", "engine.evalStrata")
	if f == nil {
		return
	}
	bad := ""
	run, ok := runEvalStrata(c, rule, f, strataCfg{failEvalAt: -1, withTemporal: true, deny: "x"})
	if !ok {
		return
	}
	if got := strings.Join(run.temporal, " "); got != "temporal:b()@iv1" {
		bad = fmt.Sprintf("with a temporal store, the annotated initial fact b()@iv1 leads to the temporal additions [%s], want [temporal:b()@iv1]", got)
	}
	if got := strings.Join(run.plain, " "); got != "store:a()" && bad == "" {
		bad = fmt.Sprintf("with a temporal store and x denied by the allow list, the plain additions are [%s], want [store:a()]", got)
	}
	if len(run.evals) > 0 && run.evals[0].tstore != "temporal" && bad == "" {
		bad = "the per-layer engine does not receive the configured temporal store"
	}
	run, ok = runEvalStrata(c, rule, f, strataCfg{failEvalAt: -1})
	if !ok {
		return
	}
	if got := strings.Join(run.plain, " "); got != "store:a() store:b() store:x()" && bad == "" {
		bad = fmt.Sprintf("without a temporal store the initial facts added are [%s], want all three in the plain store", got)
	}
	c.Check(bad == "", rule, f.Name+":initial-facts", f.Decl.Pos(), "annotated initial facts reach the temporal store with their own interval; the others the plain store; the allow list is honoured", bad)
}
