package props

import (
	"fmt"
	"strings"

	"mgcheck/core"
	"mgcheck/ordabs"
)

func init() { register("C01", checkC01) }

const (
	rC01Loop  = "ORDABS.semi-naive-loop"
	rC01Delta = "ORDABS.delta-rules"
	rC01Prem  = "ORDABS.premise-dispatch"
	rC01Neg   = "ORDABS.negation"
	rC01TX    = "TX.evaluators"
	rC01Fld   = "TABLE.clause-field-completeness"
	rC01Order = "ORDABS.strata-in-order"
	rC01Eval  = "ORDABS.clause-evaluation"
	rC01Rewrite = "ORDABS.analysis-preserves-clause"
	rC01UF    = "ORDABS.substitutions"
)

func checkC01(c *core.Ctx) {
	c.Rule(rC01Loop, "(*engine).eval is read from source and evaluated over abstract programs (unary predicates, copy/join/successor rules) with the premise join replaced by the program's own meaning and the stores by sets: whenever a delta rule runs the delta store is a subset of the store, the loop returns, and the final store equals the least model", 6)
	c.Rule(rC01Delta, "makeDeltaRules, evaluated on rule bodies that mention a same-stratum predicate once, twice, through a temporal literal, next to extensional and built-in atoms, yields one delta rule per positive occurrence of a predicate of the stratum, with exactly that occurrence marked; do-transform rules get none", 1)
	c.Rule(rC01Prem, "oneStepEvalPremise, evaluated with the premise helpers and stores replaced by recorders: a delta-marked atom is looked up in the delta store under its normal name, every other atom and every negated atom in the full store; a temporal literal over a delta-marked atom reads the temporal delta store, any other the temporal store", 5)
	c.Rule(rC01Neg, "premiseNegAtom, evaluated with a stub store and a stub built-in: a negated built-in holds iff the built-in does not, a negated stored atom iff no stored fact unifies", 1)
	c.Rule(rC01TX, "each evaluator handles every premise kind its engine accepts", 2)
	c.Rule(rC01Fld, "clause-to-clause functions keep all four fields of the clause", 2)
	c.Rule(rC01Order, "(*engine).evalStrata, read from source and evaluated on a three-layer program with the per-layer fixpoint, the rewriter and the stores replaced by recorders: the layers are evaluated in ascending order, each with exactly its own predicates intensional, their rules, every earlier layer extensional, on the caller's store", 1)
	c.Rule(rC01UF, "the union-find substitution, evaluated from source on small unification problems: alias chains resolve to the bound constant in Get and in AsConstSubstList without prior path compression, extending a substitution leaves the base untouched, conflicts fail, wildcards stay free", 3)
	c01Loop(c, rC01Loop, true)
	unionFindLaws(c, rC01UF)
	c01DeltaRules(c, rC01Delta)
	c01PremiseDispatch(c)
	c01Negation(c)
	termKindCoverage(c, rC01TX, []txSpec{
		{"engine", "engine.oneStepEvalPremise", []string{"ast.Atom", "ast.NegAtom", "ast.Eq", "ast.Ineq", "ast.TemporalLiteral", "ast.TemporalAtom"}, "a premise kind without a case evaluates to no solutions and silently drops derivations"},
		{"engine", "QueryContext.EvalPremise", []string{"ast.Atom", "ast.NegAtom", "ast.Eq", "ast.Ineq"}, "deferred predicates are evaluated top-down with the same premise kinds"},
	})
	clauseFieldCompleteness(c, rC01Fld, []string{"engine.makeSingleDeltaRule", "engine.normalizeRule", "analysis.RewriteClause"}, []string{"Head", "HeadTime", "Premises", "Transform"})
	strataOrderRule(c, rC01Order)
	c.Rule(rC01Eval, "(*engine).oneStepEvalClause is read from source and evaluated together with everything below it (oneStepEvalPremise, premiseAtom/NegAtom/Eq/Ineq, functional.EvalAtom/EvalExpr, builtin.Decide, the union-find substitution; only the fact store is a set model) on every clause of a family (one to three premises from a pool of positive, negated, wildcard, repeated-variable, constant-argument and built-in atoms, equalities with constants, variables and function expressions on either side, inequalities; three heads) that is safe in its written order, over three stores: it returns no error, only ground facts, and exactly the head instances under all variable assignments that satisfy the body (a declarative reference that knows no evaluation order); with one atom marked as delta it reads that atom from the delta store and the others from the full store", 1)
	clauseEvalRule(c, rC01Eval, "semi-naive")
	c.Rule(rC01Rewrite, "what analysis hands to the evaluator has the meaning of what was written: RewriteClause and CheckRule, read from source and evaluated on every clause of one to three premises over head h(X,Y) (the family of C04), return a permutation of the premises, accept only clauses that are safe in the resulting order, and every accepted clause evaluates without error to ground facts (obligations shared with C04)", 2)
	c.Under(rC01Rewrite, []string{rC04Perm, rC04Safe, rC04Eval}, func() {
		c04OnlyHead, c04FnClass = 1, false // the function-argument class is C04's finding, not repeated here
		defer func() { c04OnlyHead, c04FnClass = -1, true }()
		c04Corpus(c)
	})
}

// c01Loop is shared by C01, C05, C17 and C20 (different rule names, same evaluation).
func c01Loop(c *core.Ctx, rule string, withInvariant bool) {
	f := c.MustFunc(rule, "engine", "engine.eval")
	if f == nil {
		return
	}
	for _, mode := range []bool{false, true} {
	for _, p := range absPrograms() {
		e := newEngineFixMode(c, rule, p, 0, mode)
		if e == nil {
			return
		}
		label := p.name
		if mode {
			label += ":temporal"
		}
		final, isErr, returned, err := e.runEval(f, 400000)
		if !runORD(c, rule, f.Name+":"+label, f, err) {
			continue
		}
		want := p.leastModel(1000)
		bad := ""
		switch {
		case !returned:
			bad = "the loop did not return within the evaluation budget on a program whose least model has " + fmt.Sprint(len(want)) + " facts"
		case isErr:
			bad = "evaluation returned an error although no limit is configured"
		default:
			miss, extra := diffSets(final, want)
			if len(miss) > 0 || len(extra) > 0 {
				bad = fmt.Sprintf("final store differs from the least model: missing %v, extra %v", miss, extra)
			}
		}
		if withInvariant && e.invBad != "" {
			if bad != "" {
				bad += "; "
			}
			bad += e.invBad
		}
		if mode && bad == "" {
			for _, a := range e.tAdds {
				if !strings.HasSuffix(a, "@iv") {
					bad = "a derived temporal fact is stored as " + a + ", not with the interval it was derived with"
				}
			}
			for f := range e.stores[e.engine.Fields["store"].(*ordabs.Obj)] {
				bad = "the temporal fact " + f + " ends up in the plain store although a temporal store is configured"
				break
			}
		}
		c.Check(bad == "", rule, f.Name+":"+label, f.Decl.Pos(), fmt.Sprintf("least model (%d facts) reached, %d rule evaluations, delta within store throughout", len(want), e.clauses), bad)
	}
	}
}

func c01DeltaRules(c *core.Ctx, rule string) {
	f := c.MustFunc(rule, "engine", "makeDeltaRules")
	c.MustFunc(rule, "engine", "makeSingleDeltaRule")
	if f == nil {
		return
	}
	k := &astKit{c: c, ok: true}
	in := ordabs.New(c.Prog)
	in.InstallErrorStubs()
	in.Stubs["ast.PredicateSym.IsBuiltin"] = func(in *ordabs.Interp, recv ordabs.Value, _ []ordabs.Value) ([]ordabs.Value, error) {
		r, _ := recv.(*ordabs.Rec)
		s, _ := r.Fields["Symbol"].(string)
		return []ordabs.Value{strings.HasPrefix(s, ":")}, nil
	}
	mkDecl := func(p string) *ordabs.Obj {
		d := k.zero("ast", "Decl")
		d.Fields["DeclaredAtom"] = k.atom(p, 1)
		return &ordabs.Obj{Name: "decl-" + p, Fields: d.Fields}
	}
	decls := ordabs.NewMap()
	for _, p := range []string{"p", "q"} {
		ps := predSym(p, 1)
		decls.M[ordabs.KeyString(ps)], decls.Keys[ordabs.KeyString(ps)] = mkDecl(p), ps
	}
	type tc struct {
		name     string
		premises func() []ordabs.Value
		doTr     bool
		want     []int // positions that must be delta occurrences, one rule each
	}
	cases := []tc{
		{"p(X) :- q(X), q(Y).", func() []ordabs.Value { return []ordabs.Value{k.atom("q", 1), k.atom("q", 1)} }, false, []int{0, 1}},
		{"p(X) :- q(X), p(X).", func() []ordabs.Value { return []ordabs.Value{k.atom("q", 1), k.atom("p", 1)} }, false, []int{0, 1}},
		{"p(X) :- e(X), q(X), X < 3.", func() []ordabs.Value { return []ordabs.Value{k.atom("e", 1), k.atom("q", 1), k.atom(":lt", 2)} }, false, []int{1}},
		{"p(X) :- q(X)@[S,E], !q(X).", func() []ordabs.Value { return []ordabs.Value{k.tl(k.atom("q", 1), false, true), k.neg("q")} }, false, []int{0}},
		{"p(X) :- <-[0s,1s] q(X).", func() []ordabs.Value { return []ordabs.Value{k.tl(k.atom("q", 1), true, false)} }, false, []int{0}},
		{"p(N) :- q(X) |> do fn:group_by(), let N = fn:count().", func() []ordabs.Value { return []ordabs.Value{k.atom("q", 1)} }, true, nil},
	}
	if !k.ok {
		c.Unres(rule, f.Name, f.Decl.Pos(), "anchor-unresolved: ast node types")
		return
	}
	bad, n := "", 0
	for _, t := range cases {
		cl := k.zero("ast", "Clause")
		cl.Fields["Head"] = k.atom("p", 1)
		prem := t.premises()
		cl.Fields["Premises"] = &ordabs.Slice{Elems: &prem}
		if t.doTr {
			tr := k.zero("ast", "Transform")
			st := []ordabs.Value{k.zero("ast", "TransformStmt")}
			tr.Fields["Statements"] = &ordabs.Slice{Elems: &st}
			cl.Fields["Transform"] = &ordabs.Obj{Name: "transform", Fields: tr.Fields}
		}
		p2r := ordabs.NewMap()
		rs := []ordabs.Value{cl}
		ps := predSym("p", 1)
		p2r.M[ordabs.KeyString(ps)], p2r.Keys[ordabs.KeyString(ps)] = &ordabs.Slice{Elems: &rs}, ps
		for _, rev := range []bool{false, true} {
			in.Reset()
			in.ReverseMaps = rev
			out, err := in.Call(f, nil, []ordabs.Value{decls, p2r})
			if !runORD(c, rule, f.Name, f, err) {
				return
			}
			n++
			res, _ := out[0].(*ordabs.Map)
			var got []int
			if res != nil {
				for _, v := range res.M {
					sl, _ := v.(*ordabs.Slice)
					if sl == nil {
						continue
					}
					for _, dr := range *sl.Elems {
						d := dr.(*ordabs.Rec)
						ps, _ := d.Fields["Premises"].(*ordabs.Slice)
						marked := -1
						count := 0
						for i, pv := range *ps.Elems {
							pr := pv.(*ordabs.Rec)
							if pr.T == "ast.TemporalLiteral" {
								pr, _ = pr.Fields["Literal"].(*ordabs.Rec)
							}
							if pr != nil && pr.T == "ast.Atom" {
								if s, _ := pr.Fields["Predicate"].(*ordabs.Rec).Fields["Symbol"].(string); strings.HasPrefix(s, "Δ") {
									marked = i
									count++
								}
							}
						}
						if count != 1 {
							marked = -100 - count
						}
						got = append(got, marked)
					}
				}
			}
			sortInts(got)
			if fmt.Sprint(got) != fmt.Sprint(t.want) && !(len(got) == 0 && len(t.want) == 0) && bad == "" {
				bad = fmt.Sprintf("rule %s: delta occurrences at body positions %v, want %v (every positive occurrence of a predicate of the stratum needs its own delta rule, or a fact that arrives late at that position is never joined)", t.name, got, t.want)
			}
		}
	}
	in.ReverseMaps = false
	c.Check(bad == "", rule, f.Name, f.Decl.Pos(), fmt.Sprintf("delta rules correct on %d rule/order combinations", n), bad)
}

func sortInts(a []int) {
	for i := 1; i < len(a); i++ {
		for j := i; j > 0 && a[j] < a[j-1]; j-- {
			a[j], a[j-1] = a[j-1], a[j]
		}
	}
}
