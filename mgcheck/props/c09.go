package props

import (
	"fmt"
	"math"
	"os"
	"path/filepath"
	"regexp"
	"strconv"
	"strings"
	"time"
	"unicode/utf8"

	"mgcheck/core"
	"mgcheck/ordabs"
)

func init() { register("C09", checkC09) }

const (
	rC09Esc   = "ORDABS.escape-roundtrip"
	rC09Lex   = "TABLE.escape-within-grammar"
	rC09Bound = "ORDABS.bounds-printable"
	rC09Float = "ORDABS.float-token"
	rC09Lit   = "ORDABS.temporal-literal-visitor"
	rC09Ival  = "ORDABS.interval-printing"
)

// grammarFacts reads the lexer fragments the rules refer to from parse/gen/Mangle.g4.
type grammarFacts struct {
	escapes  []string // forms of STRING_ESCAPE_SEQ after the backslash: "n", "t", "\"", "'", "\\", "xHH", "u{...}", "NEWLINE"
	hexLower bool
	hexUpper bool
	ok       bool
	raw      string
}

func readGrammar(c *core.Ctx, rule string) grammarFacts {
	g := grammarFacts{}
	b, err := os.ReadFile(filepath.Join(c.Prog.Dir, "parse", "gen", "Mangle.g4"))
	if err != nil {
		c.Unres(rule, "parse/gen/Mangle.g4", 0, "anchor-unresolved: cannot read the grammar: %v", err)
		return g
	}
	g.raw = string(b)
	re := regexp.MustCompile(`(?s)fragment STRING_ESCAPE_SEQ\s*:(.*?);`)
	m := re.FindStringSubmatch(g.raw)
	if m == nil {
		c.Unres(rule, "Mangle.g4:STRING_ESCAPE_SEQ", 0, "anchor-unresolved: fragment STRING_ESCAPE_SEQ not found in the grammar")
		return g
	}
	for _, alt := range strings.Split(m[1], "|") {
		alt = strings.TrimSpace(alt)
		toks := regexp.MustCompile(`'(\\\\|\\'|[^'])+'|[A-Z_]+\??`).FindAllString(alt, -1)
		if len(toks) < 2 || toks[0] != `'\\'` {
			continue
		}
		switch {
		case toks[1] == "NEWLINE":
			g.escapes = append(g.escapes, "NEWLINE")
		case toks[1] == `'x'`:
			g.escapes = append(g.escapes, "xHH")
		case toks[1] == `'u'`:
			n, opt := 0, 0
			for _, t := range toks[2:] {
				if t == "HEXDIGIT" {
					n++
				}
				if t == "HEXDIGIT?" {
					opt++
				}
			}
			g.escapes = append(g.escapes, fmt.Sprintf("u{%d-%d}", n, n+opt))
		default:
			lit := toks[1]
			if len(lit) >= 2 {
				lit = lit[1 : len(lit)-1]
			}
			lit = strings.ReplaceAll(lit, `\\`, `\`)
			lit = strings.ReplaceAll(lit, `\'`, `'`)
			g.escapes = append(g.escapes, lit)
		}
	}
	hm := regexp.MustCompile(`fragment HEXDIGIT\s*:\s*([^;]*);`).FindStringSubmatch(g.raw)
	if hm != nil {
		g.hexLower = strings.Contains(hm[1], "'a'..'f'")
		g.hexUpper = strings.Contains(hm[1], "'A'..'F'")
	}
	g.ok = len(g.escapes) >= 5 && hm != nil
	if !g.ok {
		c.Unres(rule, "Mangle.g4:STRING_ESCAPE_SEQ", 0, "could not read the escape alternatives from the grammar (found %v)", g.escapes)
	}
	return g
}

// acceptsBody checks that text can stand between the double quotes of a STRING token.
func (g grammarFacts) acceptsBody(text string) string {
	isHex := func(b byte) bool {
		return (b >= '0' && b <= '9') || (g.hexLower && b >= 'a' && b <= 'f') || (g.hexUpper && b >= 'A' && b <= 'F')
	}
	has := func(f string) bool {
		for _, e := range g.escapes {
			if e == f {
				return true
			}
		}
		return false
	}
	for i := 0; i < len(text); {
		ch := text[i]
		if ch == '"' {
			return "an unescaped double quote ends the string literal early"
		}
		if ch != '\\' {
			i++
			continue
		}
		if i+1 >= len(text) {
			return "a backslash at the end"
		}
		nx := text[i+1]
		switch {
		case nx == 'x':
			if !has("xHH") || i+3 >= len(text) || !isHex(text[i+2]) || !isHex(text[i+3]) {
				return fmt.Sprintf("byte escape %q is not a token of the grammar (HEXDIGIT allows lower case=%v upper case=%v)", text[i:min(len(text), i+4)], g.hexLower, g.hexUpper)
			}
			i += 4
		case nx == 'u':
			j := i + 2
			if j >= len(text) || text[j] != '{' {
				return "malformed \\u escape"
			}
			j++
			n := 0
			for j < len(text) && text[j] != '}' {
				if !isHex(text[j]) {
					return fmt.Sprintf("unicode escape %q uses a digit outside HEXDIGIT", text[i:j+1])
				}
				n++
				j++
			}
			okLen := false
			for _, e := range g.escapes {
				var lo, hi int
				if _, err := fmt.Sscanf(e, "u{%d-%d}", &lo, &hi); err == nil && n >= lo && n <= hi {
					okLen = true
				}
			}
			if j >= len(text) || !okLen {
				return fmt.Sprintf("unicode escape with %d digits is not a token of the grammar", n)
			}
			i = j + 1
		case nx == '\n':
			if !has("NEWLINE") {
				return "backslash-newline is not in the grammar"
			}
			i += 2
		default:
			if !has(string(nx)) {
				return fmt.Sprintf("escape \\%c is not an alternative of STRING_ESCAPE_SEQ %v", nx, g.escapes)
			}
			i += 2
		}
	}
	return ""
}

func checkC09(c *core.Ctx) {
	c.Rule(rC09Esc, "ast.Escape and ast.Unescape are read from source and evaluated on every string of up to two characters over an alphabet of quotes, backslash, newline, carriage return, tab, NUL, DEL, letters that start escapes, 2-, 3- and 4-byte runes incl. U+FFFD (text mode), and on every byte string of up to two bytes incl. invalid UTF-8 (bytes mode): Unescape(Escape(s)) = s, and Escape fails only on invalid UTF-8 in text mode", 2)
	c.Rule(rC09Lex, "everything Escape emits on those inputs can stand inside a double-quoted STRING token: every escape it writes is an alternative of STRING_ESCAPE_SEQ read from parse/gen/Mangle.g4 (hex digits within HEXDIGIT), no raw quote or backslash remains", 2)
	c.Rule(rC09Bound, "TemporalBound.String, evaluated for every bound kind: timestamps (whole and fractional seconds) print as a TIMESTAMP token that parseTimestamp reads back to the same instant, durations as a DURATION token that parseDuration reads back to the same duration, variables, now and unbounded as the grammar's VARIABLE / 'now' / '_'; TemporalBound.Equals is reflexive for every kind", 3)
	c.Rule(rC09Float, "FormatFloat64, evaluated on integral, fractional, large, tiny, negative and negative-zero floats: the text is a FLOAT token of the grammar and strconv.ParseFloat returns the same bits", 1)
	c.Rule(rC09Ival, "Interval.String prints both bounds unless they are equal in every field; TemporalOperator.String prints the grammar's prefix for each operator kind and both bounds", 2)
	c.Rule(rC09Lit, "VisitLiteralOrFml, evaluated with stubbed parse-tree contexts for every combination of operator and annotation: the resulting temporal literal carries both", 1)
	g := readGrammar(c, rC09Lex)
	c09Escape(c, g)
	c09Bounds(c, g)
	c09Float(c, g)
	c09Intervals(c)
	c09Visitor(c)
	c.Rule("ORDABS.map-struct-constructors-canonical", "a printed map or struct parses back to constructor expressions whose evaluation sorts the entries again: ast.Map / ast.Struct build one constant from the same entries in every supply order, also for keys that agree in hash and Symbol field (obligation shared with C08)", 2)
	c.Under("ORDABS.map-struct-constructors-canonical", []string{rC08Order}, func() { c08OrderFnv(c) })
}

func c09Escape(c *core.Ctx, g grammarFacts) {
	esc := c.MustFunc(rC09Esc, "ast", "Escape")
	un := c.MustFunc(rC09Esc, "ast", "Unescape")
	c.MustFunc(rC09Esc, "ast", "unescapeCharPrefix")
	if esc == nil || un == nil {
		return
	}
	in := ordabs.New(c.Prog)
	in.InstallErrorStubs()
	in.InstallStringStubs()
	textAlpha := []string{`"`, `'`, `\`, "\n", "\r", "\t", "\x00", "\x7f", "a", "x", "u", "{", "0", "é", "�", "日", "😀", "\U0010FFFF", "\U0010FFFE", "\ud7ff", "\ue000", "\u0080", "\uffff", "\U00010000"}
	byteAlpha := []string{`"`, `'`, `\`, "\n", "\r", "\t", "\x00", "\x7f", "a", "x", "u", "0", "\x80", "\xc3", "\xa9", "\xff"}
	for _, mode := range []struct {
		bytes bool
		alpha []string
		name  string
	}{{false, textAlpha, "text"}, {true, byteAlpha, "bytes"}} {
		var inputs []string
		inputs = append(inputs, "")
		for _, a := range mode.alpha {
			inputs = append(inputs, a)
			for _, b := range mode.alpha {
				inputs = append(inputs, a+b)
			}
		}
		rtBad, lexBad := "", ""
		n := 0
		for _, s := range inputs {
			in.Reset()
			in.Fuel = 200000
			out, err := in.Call(esc, nil, []ordabs.Value{s, mode.bytes})
			if !runORD(c, rC09Esc, esc.Name+":"+mode.name, esc, err) {
				return
			}
			n++
			if out[1] != nil {
				if (mode.bytes || utf8.ValidString(s)) && rtBad == "" {
					rtBad = fmt.Sprintf("Escape(%q) fails although the input is printable in %s mode", s, mode.name)
				}
				continue
			}
			e, _ := out[0].(string)
			if g.ok {
				if why := g.acceptsBody(e); why != "" && lexBad == "" {
					lexBad = fmt.Sprintf("Escape(%q) writes %q: %s", s, e, why)
				}
			}
			in.Reset()
			in.Fuel = 200000
			out, err = in.Call(un, nil, []ordabs.Value{e, mode.bytes})
			if !runORD(c, rC09Esc, un.Name+":"+mode.name, un, err) {
				return
			}
			back, _ := out[0].(string)
			if (out[1] != nil || back != s) && rtBad == "" {
				rtBad = fmt.Sprintf("%s mode: %q is printed as %q and read back as %q (error %v)", mode.name, s, e, back, out[1])
			}
		}
		c.Check(rtBad == "", rC09Esc, "ast.Escape/Unescape:"+mode.name, esc.Decl.Pos(), fmt.Sprintf("round trip on %d inputs", n), rtBad)
		if g.ok {
			c.Check(lexBad == "", rC09Lex, "ast.Escape:"+mode.name, esc.Decl.Pos(), fmt.Sprintf("output is within the STRING token on %d inputs (escapes %v)", n, g.escapes), lexBad)
		}
	}
}

func c09Bounds(c *core.Ctx, g grammarFacts) {
	f := c.MustFunc(rC09Bound, "ast", "TemporalBound.String")
	eq := c.MustFunc(rC09Bound, "ast", "TemporalBound.Equals")
	pt := c.MustFunc(rC09Bound, "parse", "parseTimestamp")
	pd := c.MustFunc(rC09Bound, "parse", "parseDuration")
	k := newTkit(c, rC09Bound)
	if f == nil || eq == nil || pt == nil || pd == nil || !k.ok {
		return
	}
	in := ordabs.New(c.Prog)
	in.InstallErrorStubs()
	in.InstallTimeStubs()
	in.InstallStringStubs()
	in.Stubs["time.Time.Format"] = func(in *ordabs.Interp, recv ordabs.Value, a []ordabs.Value) ([]ordabs.Value, error) {
		t, _ := recv.(ordabs.TimeVal)
		return []ordabs.Value{time.Unix(0, t.NS).UTC().Format(a[0].(string))}, nil
	}
	in.Stubs["time.Parse"] = func(in *ordabs.Interp, _ ordabs.Value, a []ordabs.Value) ([]ordabs.Value, error) {
		t, err := time.Parse(a[0].(string), a[1].(string))
		if err != nil {
			return []ordabs.Value{ordabs.TimeVal{}, ordabs.ErrVal{Tag: "parse"}}, nil
		}
		return []ordabs.Value{ordabs.TimeVal{NS: t.UnixNano()}, nil}, nil
	}
	in.Stubs["time.ParseDuration"] = func(in *ordabs.Interp, _ ordabs.Value, a []ordabs.Value) ([]ordabs.Value, error) {
		d, err := time.ParseDuration(a[0].(string))
		if err != nil {
			return []ordabs.Value{int64(0), ordabs.ErrVal{Tag: "parse"}}, nil
		}
		return []ordabs.Value{int64(d), nil}, nil
	}
	in.Stubs["time.Duration.String"] = func(in *ordabs.Interp, recv ordabs.Value, _ []ordabs.Value) ([]ordabs.Value, error) {
		d, _ := recv.(int64)
		return []ordabs.Value{time.Duration(d).String()}, nil
	}
	in.Stubs["strconv.ParseInt"] = func(in *ordabs.Interp, _ ordabs.Value, a []ordabs.Value) ([]ordabs.Value, error) {
		n, err := strconv.ParseInt(a[0].(string), int(a[1].(int64)), int(a[2].(int64)))
		if err != nil {
			return []ordabs.Value{int64(0), ordabs.ErrVal{Tag: "parse"}}, nil
		}
		return []ordabs.Value{n, nil}, nil
	}
	in.Stubs["strings.TrimSuffix"] = func(in *ordabs.Interp, _ ordabs.Value, a []ordabs.Value) ([]ordabs.Value, error) {
		return []ordabs.Value{strings.TrimSuffix(a[0].(string), a[1].(string))}, nil
	}
	tsTok := regexp.MustCompile(`^\d{4}-\d{2}-\d{2}(T\d{2}:\d{2}:\d{2}(\.\d+)?Z?)?$`)
	durTok := regexp.MustCompile(`^\d+(d|h|m|s|ms)$`)
	bound := func(typ, ts int64, v string) *ordabs.Rec {
		iv := k.iv(typ, ts, k.TS, 0)
		b := iv.Fields["Start"].(*ordabs.Rec)
		b.Fields["Variable"].(*ordabs.Rec).Fields["Symbol"] = v
		return b
	}
	str := func(b *ordabs.Rec) (string, bool) {
		in.Reset()
		out, err := in.Call(f, b, nil)
		if !runORD(c, rC09Bound, f.Name, f, err) {
			return "", false
		}
		s, _ := out[0].(string)
		return s, true
	}
	// timestamps
	bad := ""
	for _, ns := range []int64{0, 1705314600000000000, 1705314600500000000, 1705314600000000001, 86400000000000} {
		s, ok := str(bound(k.TS, ns, ""))
		if !ok {
			return
		}
		if !tsTok.MatchString(s) && bad == "" {
			bad = fmt.Sprintf("timestamp %d prints as %q, which is not a TIMESTAMP token", ns, s)
		}
		in.Reset()
		out, err := in.Call(pt, nil, []ordabs.Value{s})
		if !runORD(c, rC09Bound, pt.Name, pt, err) {
			return
		}
		if back, _ := out[0].(ordabs.TimeVal); (out[1] != nil || back.NS != ns) && bad == "" {
			bad = fmt.Sprintf("timestamp %d ns prints as %q and reads back as %d ns", ns, s, back.NS)
		}
	}
	c.Check(bad == "", rC09Bound, f.Name+":timestamp", f.Decl.Pos(), "timestamps print as TIMESTAMP tokens and read back exactly, fractions included", bad)
	bad = ""
	for _, d := range []time.Duration{0, time.Second, 90 * time.Second, 90 * time.Minute, 36 * time.Hour, 7 * 24 * time.Hour, 1500 * time.Millisecond, time.Millisecond} {
		s, ok := str(bound(k.DUR, int64(d), ""))
		if !ok {
			return
		}
		if !durTok.MatchString(s) && bad == "" {
			bad = fmt.Sprintf("duration bound %v prints as %q, which is not a DURATION token (DIGIT+ d|h|m|s|ms)", d, s)
		}
		in.Reset()
		out, err := in.Call(pd, nil, []ordabs.Value{s})
		if !runORD(c, rC09Bound, pd.Name, pd, err) {
			return
		}
		if back, _ := out[0].(int64); (out[1] != nil || back != int64(d)) && bad == "" {
			bad = fmt.Sprintf("duration bound %v prints as %q and reads back as %v", d, s, time.Duration(back))
		}
	}
	c.Check(bad == "", rC09Bound, f.Name+":duration", f.Decl.Pos(), "durations print as DURATION tokens and read back exactly", bad)
	bad = ""
	for _, t := range []struct {
		typ  int64
		v    string
		want string
	}{{k.VAR, "T", "T"}, {k.NOW, "", "now"}, {k.NEG, "", "_"}, {k.POS, "", "_"}} {
		s, ok := str(bound(t.typ, 0, t.v))
		if !ok {
			return
		}
		if s != t.want && bad == "" {
			bad = fmt.Sprintf("bound kind %d prints as %q, want %q", t.typ, s, t.want)
		}
	}
	for _, typ := range []int64{k.TS, k.VAR, k.NEG, k.POS, k.NOW, k.DUR} {
		b := bound(typ, 5, "T")
		in.Reset()
		out, err := in.Call(eq, b, []ordabs.Value{bound(typ, 5, "T")})
		if !runORD(c, rC09Bound, eq.Name, eq, err) {
			return
		}
		if r, _ := out[0].(bool); !r && bad == "" {
			bad = fmt.Sprintf("a bound of kind %d is not equal to itself: a literal that contains it never compares equal after a round trip", typ)
		}
	}
	c.Check(bad == "", rC09Bound, f.Name+":other-kinds", f.Decl.Pos(), "variable, now and unbounded print as grammar tokens; Equals is reflexive for all six kinds", bad)
}

func c09Float(c *core.Ctx, g grammarFacts) {
	f := c.MustFunc(rC09Float, "ast", "FormatFloat64")
	if f == nil {
		return
	}
	in := ordabs.New(c.Prog)
	in.InstallStringStubs()
	in.InstallFloatStubs()
	in.InstallErrorStubs()
	floatTok := regexp.MustCompile(`^-?(\d+\.\d+([eE][+-]?\d+)?|\.\d+([eE][+-]?\d+)?)$`)
	bad := ""
	vals := []float64{0, 1, -1, 1.5, -2.25, 123456789, 1e19, 1e22, 1e300, 9007199254740993, 1e-9, 5e-324, math.Copysign(0, -1), math.MaxFloat64, -1e19, 0.1}
	for _, v := range vals {
		in.Reset()
		out, err := in.Call(f, nil, []ordabs.Value{v})
		if !runORD(c, rC09Float, f.Name, f, err) {
			return
		}
		s, _ := out[0].(string)
		if !floatTok.MatchString(s) && bad == "" {
			bad = fmt.Sprintf("the float %v prints as %q, which the lexer reads as a NUMBER (or not at all), not as a FLOAT", v, s)
		}
		back, err2 := strconv.ParseFloat(s, 64)
		if (err2 != nil || math.Float64bits(back) != math.Float64bits(v)) && bad == "" {
			bad = fmt.Sprintf("the float %v (bits %x) prints as %q, which reads back as %v (bits %x)", v, math.Float64bits(v), s, back, math.Float64bits(back))
		}
	}
	c.Check(bad == "", rC09Float, f.Name, f.Decl.Pos(), fmt.Sprintf("FLOAT token with identical bits on %d values", len(vals)), bad)
}

func c09Intervals(c *core.Ctx) {
	k := newTkit(c, rC09Ival)
	f := c.MustFunc(rC09Ival, "ast", "Interval.String")
	op := c.MustFunc(rC09Ival, "ast", "TemporalOperator.String")
	if f == nil || op == nil || !k.ok {
		return
	}
	in := ordabs.New(c.Prog)
	in.InstallErrorStubs()
	in.InstallTimeStubs()
	in.InstallStringStubs()
	in.Stubs["time.Time.Format"] = func(in *ordabs.Interp, recv ordabs.Value, a []ordabs.Value) ([]ordabs.Value, error) {
		t, _ := recv.(ordabs.TimeVal)
		return []ordabs.Value{time.Unix(0, t.NS).UTC().Format(a[0].(string))}, nil
	}
	vb := func(iv *ordabs.Rec, side, name string) {
		b := iv.Fields[side].(*ordabs.Rec)
		b.Fields["Type"] = k.VAR
		b.Fields["Variable"].(*ordabs.Rec).Fields["Symbol"] = name
	}
	bad := ""
	iv := k.tsiv(0, 0)
	vb(iv, "Start", "S")
	vb(iv, "End", "E")
	out, err := in.Call(f, iv, nil)
	if !runORD(c, rC09Ival, f.Name, f, err) {
		return
	}
	if s, _ := out[0].(string); s != "@[S, E]" {
		bad = fmt.Sprintf("the annotation with the two variable bounds S and E prints as %q, want \"@[S, E]\"", s)
	}
	iv2 := k.tsiv(0, 0)
	vb(iv2, "Start", "T")
	vb(iv2, "End", "T")
	out, err = in.Call(f, iv2, nil)
	if runORD(c, rC09Ival, f.Name, f, err) {
		if s, _ := out[0].(string); s != "@[T]" && s != "@[T, T]" && bad == "" {
			bad = fmt.Sprintf("@[T] prints as %q", s)
		}
	}
	out, err = in.Call(f, k.tsiv(1705314600000000000, 1705401000000000000), nil)
	if runORD(c, rC09Ival, f.Name, f, err) {
		if s, _ := out[0].(string); !strings.HasPrefix(s, "@[2024-01-15T10:30:00Z, 2024-01-16") && bad == "" {
			bad = fmt.Sprintf("a finite interval prints as %q", s)
		}
	}
	c.Check(bad == "", rC09Ival, f.Name, f.Decl.Pos(), "both bounds are printed unless they are identical", bad)
	bad = ""
	opT := c.Prog.Named("ast", "TemporalOperator")
	want := map[string]string{"DiamondMinus": "<-", "BoxMinus": "[-", "DiamondPlus": "<+", "BoxPlus": "[+"}
	for name, prefix := range want {
		v, ok := constInt(c.Prog, "ast", name)
		if !ok || opT == nil {
			c.Unres(rC09Ival, "ast."+name, 0, "anchor-unresolved")
			return
		}
		z, _ := ordabs.ZeroOf(opT)
		o := z.(*ordabs.Rec)
		o.Fields["Type"] = v
		o.Fields["Interval"] = k.iv(k.DUR, 0, k.DUR, int64(7*24*time.Hour))
		in.Stubs["time.Duration.String"] = func(in *ordabs.Interp, recv ordabs.Value, _ []ordabs.Value) ([]ordabs.Value, error) {
			d, _ := recv.(int64)
			return []ordabs.Value{time.Duration(d).String()}, nil
		}
		out, err := in.Call(op, o, nil)
		if !runORD(c, rC09Ival, op.Name, op, err) {
			return
		}
		s, _ := out[0].(string)
		if s != prefix+"[0s, 7d]" && bad == "" {
			bad = fmt.Sprintf("operator %s over [0s, 7d] prints as %q, want %q", name, s, prefix+"[0s, 7d]")
		}
		// equal bounds: the operator syntax always takes two bounds (only an annotation may be shortened to one)
		o.Fields["Interval"] = k.iv(k.DUR, int64(7*24*time.Hour), k.DUR, int64(7*24*time.Hour))
		out, err = in.Call(op, o, nil)
		if !runORD(c, rC09Ival, op.Name, op, err) {
			return
		}
		if s2, _ := out[0].(string); s2 != prefix+"[7d, 7d]" && bad == "" {
			bad = fmt.Sprintf("operator %s over the window [7d, 7d] prints as %q, want %q (the grammar's operator window has two bounds)", name, s2, prefix+"[7d, 7d]")
		}
		if !strings.Contains(readGrammarRaw(c), "'"+prefix+"'") && bad == "" {
			bad = "the grammar has no token '" + prefix + "'"
		}
	}
	c.Check(bad == "", rC09Ival, op.Name, op.Decl.Pos(), "four operator prefixes from the grammar, both bounds printed", bad)
}

func readGrammarRaw(c *core.Ctx) string {
	b, _ := os.ReadFile(filepath.Join(c.Prog.Dir, "parse", "gen", "Mangle.g4"))
	return string(b)
}

func c09Visitor(c *core.Ctx) {
	f := c.MustFunc(rC09Lit, "parse", "Parser.VisitLiteralOrFml")
	if f == nil {
		return
	}
	k := &astKit{c: c, ok: true}
	in := ordabs.New(c.Prog)
	in.InstallErrorStubs()
	opObj := &ordabs.Obj{Name: "operator", Fields: k.zero("ast", "TemporalOperator").Fields, T: "ast.TemporalOperator"}
	ivObj := &ordabs.Obj{Name: "annotation", Fields: k.zero("ast", "Interval").Fields, T: "ast.Interval"}
	termCtx := &ordabs.Obj{Name: "termctx", Opaque: true}
	opCtx := &ordabs.Obj{Name: "opctx", Opaque: true}
	anCtx := &ordabs.Obj{Name: "anctx", Opaque: true}
	withOp, withAn := false, false
	ctxStub := func(name string, fn func(args []ordabs.Value) ordabs.Value) {
		in.Stubs["parse/gen.LiteralOrFmlContext."+name] = func(in *ordabs.Interp, _ ordabs.Value, args []ordabs.Value) ([]ordabs.Value, error) {
			return []ordabs.Value{fn(args)}, nil
		}
	}
	ctxStub("Term", func(a []ordabs.Value) ordabs.Value { return termCtx })
	for _, tok := range []string{"BANG", "EQ", "BANGEQ", "LESS", "LESSEQ", "GREATER", "GREATEREQ"} {
		ctxStub(tok, func(a []ordabs.Value) ordabs.Value { return nil })
	}
	ctxStub("TemporalOperator", func(a []ordabs.Value) ordabs.Value {
		if withOp {
			return opCtx
		}
		return nil
	})
	ctxStub("TemporalAnnotation", func(a []ordabs.Value) ordabs.Value {
		if withAn {
			return anCtx
		}
		return nil
	})
	in.Stubs["parse.Parser.Visit"] = func(in *ordabs.Interp, _ ordabs.Value, args []ordabs.Value) ([]ordabs.Value, error) {
		switch args[0] {
		case ordabs.Value(termCtx):
			return []ordabs.Value{k.atom("q", 1)}, nil
		case ordabs.Value(opCtx):
			return []ordabs.Value{opObj}, nil
		case ordabs.Value(anCtx):
			return []ordabs.Value{ivObj}, nil
		}
		return nil, &ordabs.Unsupported{What: "Visit of an unexpected context"}
	}
	if !k.ok {
		c.Unres(rC09Lit, f.Name, f.Decl.Pos(), "anchor-unresolved")
		return
	}
	parser := &ordabs.Rec{Fields: map[string]ordabs.Value{"errors": &ordabs.Obj{Name: "errors", Opaque: true}}, T: "parse.Parser"}
	ctx := &ordabs.Obj{Name: "ctx", Opaque: true, T: "parse/gen.LiteralOrFmlContext"}
	bad := ""
	for _, o := range []bool{false, true} {
		for _, a := range []bool{false, true} {
			withOp, withAn = o, a
			in.Reset()
			out, err := in.Call(f, parser, []ordabs.Value{ctx})
			if !runORD(c, rC09Lit, f.Name, f, err) {
				return
			}
			r, _ := out[0].(*ordabs.Rec)
			if !o && !a {
				if (r == nil || r.T != "ast.Atom") && bad == "" {
					bad = "a plain literal is not returned as an atom"
				}
				continue
			}
			if r == nil || r.T != "ast.TemporalLiteral" {
				if bad == "" {
					bad = fmt.Sprintf("operator=%v annotation=%v: the visitor does not return a temporal literal", o, a)
				}
				continue
			}
			gotOp, _ := r.Fields["Operator"].(*ordabs.Obj)
			gotAn, _ := r.Fields["Interval"].(*ordabs.Obj)
			if ((gotOp != nil) != o || (gotAn != nil) != a) && bad == "" {
				bad = fmt.Sprintf("a literal written with operator=%v and annotation=%v is parsed into one with operator=%v and annotation=%v: the part that is dropped cannot survive a print/parse round trip", o, a, gotOp != nil, gotAn != nil)
			}
		}
	}
	c.Check(bad == "", rC09Lit, f.Name, f.Decl.Pos(), "operator and annotation are both kept in all four combinations", bad)
}
