package props

import (
	"fmt"
	"go/constant"
	"go/types"

	"mgcheck/core"
	"mgcheck/ordabs"
)

// tkit builds abstract ast.Interval values for the ORDABS rules.
type tkit struct {
	c        *core.Ctx
	ivType   types.Type
	TS, NEG, POS, VAR, NOW, DUR int64
	MinI, MaxI int64
	ok       bool
}

func constInt(p *core.Program, rel, name string) (int64, bool) {
	o := p.Object(rel, name)
	cst, ok := o.(*types.Const)
	if !ok {
		return 0, false
	}
	return constant.Int64Val(cst.Val())
}

func newTkit(c *core.Ctx, rule string) *tkit {
	k := &tkit{c: c}
	n := c.Prog.Named("ast", "Interval")
	if n == nil {
		c.Unres(rule, "ast.Interval", 0, "anchor-unresolved: type ast.Interval not found")
		return k
	}
	k.ivType = n
	ok := true
	get := func(name string) int64 {
		v, o := constInt(c.Prog, "ast", name)
		if !o {
			ok = false
			c.Unres(rule, "ast."+name, 0, "anchor-unresolved: constant ast.%s not found", name)
		}
		return v
	}
	k.TS, k.VAR, k.NEG, k.POS, k.NOW, k.DUR = get("TimestampBound"), get("VariableBound"), get("NegativeInfinityBound"), get("PositiveInfinityBound"), get("NowBound"), get("DurationTemporalBound")
	k.MinI, k.MaxI = -1<<63, 1<<63-1
	k.ok = ok
	return k
}

// iv builds an interval value with the given bound types and timestamps.
func (k *tkit) iv(st, s, et, e int64) *ordabs.Rec {
	z, err := ordabs.ZeroOf(k.ivType)
	if err != nil {
		panic(fmt.Sprintf("cannot build ast.Interval: %v", err))
	}
	r := z.(*ordabs.Rec)
	sb := r.Fields["Start"].(*ordabs.Rec)
	eb := r.Fields["End"].(*ordabs.Rec)
	sb.Fields["Type"], sb.Fields["Timestamp"] = st, s
	eb.Fields["Type"], eb.Fields["Timestamp"] = et, e
	return r
}

// tsiv builds a finite interval [s,e].
func (k *tkit) tsiv(s, e int64) *ordabs.Rec { return k.iv(k.TS, s, k.TS, e) }

func max64(a ...int64) int64 {
	m := a[0]
	for _, x := range a[1:] {
		if x > m {
			m = x
		}
	}
	return m
}

// runORD runs fn and converts interpreter errors into an unresolved obligation.
// It returns false when the rule could not be evaluated.
func runORD(c *core.Ctx, rule, construct string, f *core.Func, err error) bool {
	if err == nil {
		return true
	}
	if u, ok := err.(*ordabs.Unsupported); ok {
		c.Unres(rule, construct, u.Pos, "the function left the comparison-only fragment the rule can evaluate: %s", u.What)
		return false
	}
	if pe, ok := err.(*ordabs.Panic); ok {
		c.Bad(rule, construct, pe.Pos, "on an input of the evaluated family the real code panics: %s", pe.What)
		return false
	}
	if nd, ok := err.(*ordabs.NilDeref); ok {
		c.Bad(rule, construct, nd.Pos, "on an input of the evaluated family the function dereferences a nil pointer: the real code panics")
		return false
	}
	c.Unres(rule, construct, f.Decl.Pos(), "abstract evaluation failed: %v", err)
	return false
}

func constString(p *core.Program, rel, name string) (string, bool) {
	o := p.Object(rel, name)
	cst, ok := o.(*types.Const)
	if !ok || cst.Val().Kind() != constant.String {
		return "", false
	}
	return constant.StringVal(cst.Val()), true
}
