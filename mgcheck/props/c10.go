package props

import (
	"fmt"
	"go/ast"
	"go/types"
	"os"
	"sort"

	"mgcheck/core"
)

func init() { register("C10", checkC10) }

const (
	rC10Type   = "TYPE.visit-result-assertion"
	rC10Child  = "GRAMMAR.child-present-where-dereferenced"
	rC10Index  = "GRAMMAR.child-list-index-and-token-slice"
	rC10Assert = "TYPE.forced-assertion-justified"
	rC10Entry  = "ORD.visit-only-error-free-tree"
	rC10Sync   = "TABLE.generated-contexts-match-grammar"
)

// c10Scope lists the packages/files whose functions are the front end.
var c10Scope = map[string][]string{
	"parse":     nil,
	"ast":       {"serde.go"},
	"analysis":  nil,
	"symbols":   nil,
	"factstore": {"simplecolumn.go"},
}

type panicSite struct {
	fn   *core.Func
	node ast.Node
	kind string // assert index slice
	text string
}

func c10Sites(c *core.Ctx) []panicSite {
	var out []panicSite
	for rel, files := range c10Scope {
		for _, f := range c.Prog.AllFuncs(rel) {
			if f.Decl.Body == nil {
				continue
			}
			fname := c.Prog.Fset.Position(f.Decl.Pos()).Filename
			if len(files) > 0 {
				ok := false
				for _, fl := range files {
					if len(fname) >= len(fl) && fname[len(fname)-len(fl):] == fl {
						ok = true
					}
				}
				if !ok {
					continue
				}
			}
			if len(fname) > 8 && fname[len(fname)-8:] == "_test.go" {
				continue
			}
			info := f.Pkg.TypesInfo
			// comma-ok assertions and type switches are not panic sites
			okAssert := map[*ast.TypeAssertExpr]bool{}
			core.Walk(f.Decl.Body, true, func(n ast.Node) bool {
				switch s := n.(type) {
				case *ast.AssignStmt:
					if len(s.Lhs) == 2 && len(s.Rhs) == 1 {
						if ta, ok := ast.Unparen(s.Rhs[0]).(*ast.TypeAssertExpr); ok {
							okAssert[ta] = true
						}
					}
				case *ast.ValueSpec:
					if len(s.Names) == 2 && len(s.Values) == 1 {
						if ta, ok := ast.Unparen(s.Values[0]).(*ast.TypeAssertExpr); ok {
							okAssert[ta] = true
						}
					}
				}
				return true
			})
			core.Walk(f.Decl.Body, true, func(n ast.Node) bool {
				switch e := n.(type) {
				case *ast.TypeAssertExpr:
					if e.Type != nil && !okAssert[e] {
						out = append(out, panicSite{f, e, "assert", core.SrcFull(c.Prog.Fset, e)})
					}
				case *ast.IndexExpr:
					t := info.TypeOf(e.X)
					if t == nil {
						return true
					}
					switch u := t.Underlying().(type) {
					case *types.Slice, *types.Array:
						out = append(out, panicSite{f, e, "index", core.SrcFull(c.Prog.Fset, e)})
					case *types.Basic:
						if u.Info()&types.IsString != 0 {
							out = append(out, panicSite{f, e, "index", core.SrcFull(c.Prog.Fset, e)})
						}
					case *types.Pointer:
						out = append(out, panicSite{f, e, "index", core.SrcFull(c.Prog.Fset, e)})
					}
				case *ast.SliceExpr:
					out = append(out, panicSite{f, e, "slice", core.SrcFull(c.Prog.Fset, e)})
				}
				return true
			})
		}
	}
	sort.Slice(out, func(i, j int) bool {
		if out[i].fn.Name != out[j].fn.Name {
			return out[i].fn.Name < out[j].fn.Name
		}
		return out[i].node.Pos() < out[j].node.Pos()
	})
	return out
}


func checkC10(c *core.Ctx) {
	sites := c10Sites(c)
	if os.Getenv("C10_INVENTORY") != "" {
		for _, s := range sites {
			fmt.Printf("%s\t%s\t%s\t%s\n", s.kind, s.fn.Name, c.Prog.Pos(s.node.Pos()), s.text)
		}
	}
	c10Parse(c, sites)
	c10Abstract(c)
	c10TypeExprs(c)
	// "evaluating that program under a fact limit returns": the rules of C17 that make the limit effective
	c.Rule(rC17Loop, "(*engine).eval, evaluated over abstract programs with a created-fact limit: a program that keeps deriving new facts returns an error within the evaluation budget, a round that derives more than the limit returns an error", 4)
	c.Rule(rC17Total, "EvalStratifiedProgramWithStats, evaluated with stubbed options and stores: the total limit is initial facts (plain and temporal) plus the created-fact limit whenever that is positive", 1)
	c.Rule(rC17Count, "engine.factCount is the number of plain facts plus the number of temporal facts of the stores that receive derived facts", 1)
	c17Loop(c)
	c17Total(c)
	c17Count(c)
}
