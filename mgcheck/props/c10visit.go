package props

import (
	"fmt"
	"go/ast"
	"go/constant"
	"go/token"
	"go/types"
	"strings"

	"mgcheck/core"
)

func c10Parse(c *core.Ctx, sites []panicSite) {
	c.Rule(rC10Type, "every forced type assertion on the result of Parser.Visit (directly or through a variable assigned once from it) succeeds: the argument's static type selects the grammar rule, Parser.Visit's type switch selects the visitor methods for the rule's kinds of node, and every value those methods can return - excluding returns that no parse tree allowed by Mangle.g4 reaches, and following nested Visit calls - is assignable to the asserted type; a possible nil result is a violation", 30)
	c.Rule(rC10Child, "every child of a parse-tree node that a visitor method dereferences (passes to Visit, calls a method on) exists in every node the grammar allows at that point: the possible child vectors of the method's rule or labelled alternative are enumerated from Mangle.g4 and narrowed along the CFG by the method's nil and len tests", 40)
	c.Rule(rC10Index, "constant indexes into child lists are below the number of such children in every node the grammar allows at that point, and slices of token texts stay within the minimal length of the token per the lexer rules", 6)
	c.Rule(rC10Assert, "every other forced type assertion in parse/ is justified structurally: it repeats the type of the enclosing type-switch case, or it unpacks a sync.Pool whose New and every Put supply that type, or its operand's interface has exactly one implementation in the generated package", 0)
	c.Rule(rC10Entry, "every exported entry point of parse/ visits the tree only after the error listener reported no syntax error: the call to Visit is preceded on every path by a check of Parser.error() that returns when it is non-nil, and the listener is attached to both lexer and parser", 5)
	c.Rule(rC10Sync, "the generated package has a context type for every parser rule and labelled alternative of Mangle.g4, and Parser.Visit dispatches each of them", 1)
	g, err := loadG4(c.Prog.Dir)
	if err != nil {
		c.Unres(rC10Sync, "parse/gen/Mangle.g4", 0, "anchor-unresolved: %v", err)
		return
	}
	a := &c10Analysis{c: c, g: g, resMemo: map[*core.Func][]resT{}, fnMemo: map[*core.Func]*c10fn{}, visiting: map[*core.Func]bool{}}
	if !a.init() {
		c.Unres(rC10Type, "parse.Parser.Visit", 0, "anchor-unresolved: no type switch with visitor cases found")
		return
	}
	c10SyncCheck(c, a)
	c10EntryCheck(c, a)
	// assertions
	for _, s := range sites {
		if !strings.HasPrefix(s.fn.Name, "parse.") || s.kind != "assert" {
			continue
		}
		c10Assertion(c, a, s)
	}
	// child dereferences, indexes, slices
	for _, f := range c.Prog.AllFuncs("parse") {
		if f.Decl.Body == nil || strings.HasSuffix(c.Prog.Fset.Position(f.Decl.Pos()).Filename, "_test.go") {
			continue
		}
		c10Children(c, a, f)
	}
}

func c10SyncCheck(c *core.Ctx, a *c10Analysis) {
	gen := c.Prog.Pkg("parse/gen")
	if gen == nil {
		c.Unres(rC10Sync, "parse/gen", 0, "anchor-unresolved: generated package not loaded")
		return
	}
	var missing []string
	n := 0
	for _, name := range a.g.order {
		r := a.g.rules[name]
		if r.fragment || strings.ToUpper(name[:1]) == name[:1] {
			continue
		}
		var kinds []string
		for _, alt := range r.body.kids {
			if alt.label != "" {
				kinds = append(kinds, alt.label)
			}
		}
		if len(kinds) == 0 {
			kinds = []string{strings.ToUpper(name[:1]) + name[1:]}
		}
		for _, k := range kinds {
			n++
			obj := gen.Types.Scope().Lookup(k + "Context")
			if obj == nil {
				missing = append(missing, k+"Context (no such generated type)")
				continue
			}
			if a.caseFn[types.TypeString(types.NewPointer(obj.Type()), nil)] == nil {
				missing = append(missing, k+"Context (no case in Parser.Visit)")
			}
		}
	}
	c.Check(len(missing) == 0, rC10Sync, "parse.Parser.Visit/parse/gen", a.visit.Decl.Pos(), fmt.Sprintf("%d kinds of node, each with a generated context and a case", n), "grammar and visitor disagree: "+strings.Join(missing, "; "))
}

// c10EntryCheck: Visit is called from non-visitor functions only behind an error check.
func c10EntryCheck(c *core.Ctx, a *c10Analysis) {
	// helpers of the visitor: functions whose every static caller in the package is a Visit* method or another such
	// helper are part of the visit itself (they run on a tree that an entry point has already checked)
	all := c.Prog.AllFuncs("parse")
	callers := map[string][]string{}
	isVisitor := map[string]bool{}
	for _, f := range all {
		if strings.HasPrefix(f.Decl.Name.Name, "Visit") {
			isVisitor[f.Name] = true
		}
		for _, g := range c.Prog.StaticCallees(f) {
			if core.RelOf(g.Pkg.Types) == "parse" {
				callers[g.Name] = append(callers[g.Name], f.Name)
			}
		}
	}
	helper := map[string]bool{}
	for changed := true; changed; {
		changed = false
		for _, f := range all {
			if helper[f.Name] || isVisitor[f.Name] || len(callers[f.Name]) == 0 {
				continue
			}
			only := true
			for _, cl := range callers[f.Name] {
				if !isVisitor[cl] && !helper[cl] && cl != f.Name {
					only = false
				}
			}
			if only {
				helper[f.Name] = true
				changed = true
			}
		}
	}
	for _, f := range all {
		if f.Decl.Body == nil || strings.HasPrefix(f.Decl.Name.Name, "Visit") || helper[f.Name] || strings.HasSuffix(c.Prog.Fset.Position(f.Decl.Pos()).Filename, "_test.go") {
			continue
		}
		info := f.Pkg.TypesInfo
		isVisit := func(n ast.Node) bool {
			call, ok := n.(*ast.CallExpr)
			if !ok {
				return false
			}
			fn, ok := core.Callee(info, call).(*types.Func)
			return ok && fn.Name() == "Visit" && fn.Pkg() != nil && strings.HasSuffix(fn.Pkg().Path(), "/parse")
		}
		if !containsNode(f.Decl.Body, isVisit) {
			continue
		}
		g := c.Prog.CFGOf(f)
		containsVisit := func(n ast.Node) bool { return containsNode(n, isVisit) }
		// the guard: if err := p.error(); err != nil { return ... }
		isGuard := func(n ast.Node) bool {
			found := false
			core.Walk(n, false, func(m ast.Node) bool {
				if call, ok := m.(*ast.CallExpr); ok {
					if fn, ok := core.Callee(info, call).(*types.Func); ok && fn.Name() == "error" && fn.Pkg() != nil && strings.HasSuffix(fn.Pkg().Path(), "/parse") {
						found = true
					}
				}
				return true
			})
			return found
		}
		_, reach := g.Reach([]core.Ref{g.Entry()}, containsVisit, isGuard, true)
		guardReturns := false
		core.Walk(f.Decl.Body, false, func(n ast.Node) bool {
			ifs, ok := n.(*ast.IfStmt)
			if !ok || ifs.Init == nil || !isGuard(ifs.Init) {
				return true
			}
			if be, ok := ifs.Cond.(*ast.BinaryExpr); ok && be.Op == token.NEQ && len(ifs.Body.List) > 0 {
				if _, isRet := ifs.Body.List[len(ifs.Body.List)-1].(*ast.ReturnStmt); isRet {
					guardReturns = true
				}
			}
			return true
		})
		switch {
		case reach:
			c.Bad(rC10Entry, f.Name, f.Decl.Pos(), "the tree is visited on a path that never consulted Parser.error(): visitor methods assume an error-free tree (children the grammar requires exist, tokens have their lexical shape)")
		case !guardReturns:
			c.Bad(rC10Entry, f.Name, f.Decl.Pos(), "Parser.error() is consulted before the visit but its non-nil result does not end the function")
		default:
			c.OK(rC10Entry, f.Name, f.Decl.Pos(), "Visit is reached only past `if err := p.error(); err != nil { return }`")
		}
	}
	if f := c.MustFunc(rC10Entry, "parse", "Parser.init"); f != nil {
		n := 0
		core.Walk(f.Decl.Body, true, func(m ast.Node) bool {
			if call, ok := m.(*ast.CallExpr); ok && core.CallName(f.Pkg.TypesInfo, call) != "" && strings.HasSuffix(core.CallName(f.Pkg.TypesInfo, call), "AddErrorListener") {
				n++
			}
			return true
		})
		c.Check(n >= 2, rC10Entry, f.Name+":listeners", f.Decl.Pos(), "the error listener is attached to lexer and parser", fmt.Sprintf("AddErrorListener is called %d time(s); lexer and parser both need the listener, otherwise errors of one of them do not stop the visit", n))
	}
}

func c10Assertion(c *core.Ctx, a *c10Analysis, s panicSite) {
	ta := s.node.(*ast.TypeAssertExpr)
	f := s.fn
	info := f.Pkg.TypesInfo
	construct := f.Name + ":" + s.text
	target := info.TypeOf(ta.Type)
	if insideLit(f, ta.Pos()) {
		c.Unres(rC10Assert, construct, ta.Pos(), "forced assertion inside a function literal is not analysed")
		return
	}
	fa := a.analyse(f)
	if vs, ok := fa.vectorsAt(ta.Pos()); ok && len(vs) == 0 {
		c.OK(rC10Type, construct, ta.Pos(), "unreachable for every parse tree the grammar allows")
		return
	}
	// (1) result of a Visit call
	var visitExpr ast.Expr
	x := ast.Unparen(ta.X)
	if call, ok := x.(*ast.CallExpr); ok {
		if fn, ok := core.Callee(info, call).(*types.Func); ok && fn.Name() == "Visit" {
			visitExpr = x
		}
	} else if id, ok := x.(*ast.Ident); ok {
		if rhs := singleDef(fa, id); rhs != nil {
			if call, ok := ast.Unparen(rhs).(*ast.CallExpr); ok {
				if fn, ok := core.Callee(info, call).(*types.Func); ok && fn.Name() == "Visit" {
					visitExpr = rhs
				}
			}
		}
	}
	if visitExpr != nil {
		res := a.exprResults(fa, visitExpr)
		if len(res) == 0 {
			c.Unres(rC10Type, construct, ta.Pos(), "no result type could be derived for the visit call")
			return
		}
		var kinds []string
		for _, r := range res {
			switch {
			case r.why != "":
				c.Unres(rC10Type, construct, ta.Pos(), "result of the visit call undecided: %s (at %s)", r.why, c.Prog.Pos(r.pos))
				return
			case r.t == nil:
				c.Bad(rC10Type, construct, ta.Pos(), "the visit can return nil (%s), on which the assertion to %s panics", c.Prog.Pos(r.pos), types.TypeString(target, relQual))
				return
			case !assertable(r.t, target):
				c.Bad(rC10Type, construct, ta.Pos(), "the visit can return a %s (%s), which is not a %s: the assertion panics on input the grammar accepts", types.TypeString(r.t, relQual), c.Prog.Pos(r.pos), types.TypeString(target, relQual))
				return
			}
			kinds = append(kinds, types.TypeString(r.t, relQual))
		}
		c.OK(rC10Type, construct, ta.Pos(), "%d possible results, all %s: %s", len(res), types.TypeString(target, relQual), strings.Join(uniqStrings(kinds), ", "))
		return
	}
	// (2) repeats the case type of an enclosing type switch on the same operand
	if id, ok := x.(*ast.Ident); ok {
		okCase := false
		core.Walk(f.Decl.Body, false, func(n ast.Node) bool {
			ts, ok := n.(*ast.TypeSwitchStmt)
			if !ok {
				return true
			}
			var guard ast.Expr
			switch g := ts.Assign.(type) {
			case *ast.ExprStmt:
				if t, ok := g.X.(*ast.TypeAssertExpr); ok {
					guard = t.X
				}
			case *ast.AssignStmt:
				if t, ok := g.Rhs[0].(*ast.TypeAssertExpr); ok {
					guard = t.X
				}
			}
			gid, ok := guard.(*ast.Ident)
			if !ok || info.ObjectOf(gid) != info.ObjectOf(id) {
				return true
			}
			for _, st := range ts.Body.List {
				cc := st.(*ast.CaseClause)
				if cc.Pos() <= ta.Pos() && ta.Pos() < cc.End() && len(cc.List) == 1 && types.Identical(info.TypeOf(cc.List[0]), target) {
					okCase = true
				}
			}
			return true
		})
		if okCase {
			c.OK(rC10Assert, construct, ta.Pos(), "inside the type-switch case for the same type")
			return
		}
	}
	// (3) sync.Pool
	if call, ok := x.(*ast.CallExpr); ok {
		if fn, ok := core.Callee(info, call).(*types.Func); ok && fn.FullName() == "(*sync.Pool).Get" {
			if why := poolSupplies(c, f, call, target); why == "" {
				c.OK(rC10Assert, construct, ta.Pos(), "the pool's New and every Put supply this type")
			} else {
				c.Bad(rC10Assert, construct, ta.Pos(), "%s", why)
			}
			return
		}
	}
	// (4) sole implementation of a generated interface
	if xt := info.TypeOf(ta.X); xt != nil {
		if _, _, ok := a.g.ctxRule(xt); ok {
			if _, isIface := xt.Underlying().(*types.Interface); isIface {
				gen := c.Prog.Pkg("parse/gen")
				var impls []string
				for _, name := range gen.Types.Scope().Names() {
					tn, ok := gen.Types.Scope().Lookup(name).(*types.TypeName)
					if !ok {
						continue
					}
					if _, isI := tn.Type().Underlying().(*types.Interface); isI {
						continue
					}
					pt := types.NewPointer(tn.Type())
					if types.AssignableTo(pt, xt) {
						impls = append(impls, types.TypeString(pt, relQual))
					}
				}
				if len(impls) == 1 && impls[0] == types.TypeString(target, relQual) {
					c.OK(rC10Assert, construct, ta.Pos(), "the only implementation of %s", types.TypeString(xt, relQual))
				} else {
					c.Bad(rC10Assert, construct, ta.Pos(), "%s is implemented by %v; the assertion to %s panics for the others", types.TypeString(xt, relQual), impls, types.TypeString(target, relQual))
				}
				return
			}
		}
	}
	c.Unres(rC10Assert, construct, ta.Pos(), "no rule justifies this forced type assertion")
}

func relQual(p *types.Package) string { return p.Name() }

func uniqStrings(in []string) []string {
	seen := map[string]bool{}
	var out []string
	for _, s := range in {
		if !seen[s] {
			seen[s] = true
			out = append(out, s)
		}
	}
	return out
}

// poolSupplies checks that the sync.Pool variable's New function and all Put calls in the package supply target.
func poolSupplies(c *core.Ctx, f *core.Func, get *ast.CallExpr, target types.Type) string {
	info := f.Pkg.TypesInfo
	sel, ok := get.Fun.(*ast.SelectorExpr)
	if !ok {
		return "pool receiver not understood"
	}
	pid, ok := ast.Unparen(sel.X).(*ast.Ident)
	if !ok {
		return "pool receiver is not a package variable"
	}
	pool := info.ObjectOf(pid)
	okNew, puts := false, 0
	bad := ""
	for _, file := range f.Pkg.Syntax {
		ast.Inspect(file, func(n ast.Node) bool {
			switch x := n.(type) {
			case *ast.ValueSpec:
				for i, nm := range x.Names {
					if info.Defs[nm] != pool || i >= len(x.Values) {
						continue
					}
					ast.Inspect(x.Values[i], func(m ast.Node) bool {
						kv, ok := m.(*ast.KeyValueExpr)
						if !ok {
							return true
						}
						if k, ok := kv.Key.(*ast.Ident); ok && k.Name == "New" {
							// the New function: a literal, or a named function of the package
							var body *ast.BlockStmt
							switch v := ast.Unparen(kv.Value).(type) {
							case *ast.FuncLit:
								body = v.Body
							case *ast.Ident:
								if fn, ok := info.ObjectOf(v).(*types.Func); ok {
									if g := c.Prog.FuncOf(fn); g != nil {
										body = g.Decl.Body
									}
								}
							}
							if body != nil {
								all := true
								n := 0
								ast.Inspect(body, func(r ast.Node) bool {
									if _, nested := r.(*ast.FuncLit); nested {
										return false
									}
									if ret, ok := r.(*ast.ReturnStmt); ok && len(ret.Results) == 1 {
										n++
										if !types.Identical(info.TypeOf(ret.Results[0]), target) {
											all = false
										}
									}
									return true
								})
								okNew = all && n > 0
							}
						}
						return true
					})
				}
			case *ast.CallExpr:
				if fn, ok := core.Callee(info, x).(*types.Func); ok && fn.FullName() == "(*sync.Pool).Put" {
					if s, ok := x.Fun.(*ast.SelectorExpr); ok {
						if id, ok := ast.Unparen(s.X).(*ast.Ident); ok && info.ObjectOf(id) == pool {
							puts++
							if !types.Identical(info.TypeOf(x.Args[0]), target) {
								bad = "a Put at " + c.Prog.Pos(x.Pos()) + " stores a " + types.TypeString(info.TypeOf(x.Args[0]), relQual)
							}
						}
					}
				}
			}
			return true
		})
	}
	if !okNew {
		return "the pool's New function does not return a " + types.TypeString(target, relQual) + " on every path"
	}
	return bad
}

// c10Children checks dereferenced children, child-list indexes and token-text slices in one function.
func c10Children(c *core.Ctx, a *c10Analysis, f *core.Func) {
	fa := a.analyse(f)
	info := fa.info
	fset := c.Prog.Fset
	isVisitor := fa.rule != "" && strings.HasPrefix(f.Decl.Name.Name, "Visit")
	seen := map[string]int{}
	key := func(s string) string {
		seen[s]++
		if seen[s] > 1 {
			return fmt.Sprintf("%s#%d", s, seen[s])
		}
		return s
	}
	deref := func(e ast.Expr, use string, pos token.Pos) {
		e = ast.Unparen(e)
		construct := key(f.Name + ":" + use)
		if insideLit(f, pos) {
			c.Unres(rC10Child, construct, pos, "child dereferenced inside a function literal is not analysed")
			return
		}
		if id, ok := e.(*ast.Ident); ok {
			o := info.ObjectOf(id)
			if fa.elems[o] {
				c.OK(rC10Child, construct, pos, "element of a child list")
				return
			}
			if o == fa.ctxObj {
				return
			}
		}
		if ix, ok := e.(*ast.IndexExpr); ok {
			if acc, ok := fa.accOf(ix.X); ok && acc.all {
				c.OK(rC10Child, construct, pos, "element of a child list (index checked separately)")
				return
			}
		}
		acc, ok := fa.accOf(e)
		if !ok || acc.all {
			return
		}
		if !isVisitor {
			c.Unres(rC10Child, construct, pos, "child accessor outside a visitor method")
			return
		}
		present, counter, decided := fa.present(acc, pos)
		if !decided {
			// a child of another node than the method's own: accept an explicit nil test of the variable on every path
			if id, ok := e.(*ast.Ident); ok {
				if ref, found := fa.g.RefAt(pos); found {
					for _, cd := range fa.g.PathConds(ref.B) {
						be, ok := ast.Unparen(cd.Expr).(*ast.BinaryExpr)
						if !ok || be.Op != token.NEQ || !cd.True {
							continue
						}
						l, lok := ast.Unparen(be.X).(*ast.Ident)
						if lok && info.ObjectOf(l) == info.ObjectOf(id) && info.Types[be.Y].IsNil() {
							c.OK(rC10Child, construct, pos, "tested for nil on every path to the use")
							return
						}
					}
				}
			}
		}
		switch {
		case !decided:
			c.Unres(rC10Child, construct, pos, "presence of the child could not be decided (receiver %s)", acc.recv)
		case present:
			c.OK(rC10Child, construct, pos, "present in every %s node possible here", fa.describe())
		default:
			c.Bad(rC10Child, construct, pos, "the grammar allows %s, for which this child is nil here: the dereference panics", counter)
		}
	}
	core.Walk(f.Decl.Body, true, func(n ast.Node) bool {
		switch x := n.(type) {
		case *ast.CallExpr:
			if fn, ok := core.Callee(info, x).(*types.Func); ok && fn.Name() == "Visit" && fn.Pkg() != nil && strings.HasSuffix(fn.Pkg().Path(), "/parse") && len(x.Args) == 1 {
				if isVisitor {
					deref(x.Args[0], "Visit("+core.SrcFull(fset, x.Args[0])+")", x.Pos())
				}
			}
			if sel, ok := x.Fun.(*ast.SelectorExpr); ok && isVisitor {
				// method call on a child
				if _, isAcc := fa.accOf(sel.X); isAcc {
					deref(sel.X, core.SrcFull(fset, sel.X)+"."+sel.Sel.Name, x.Pos())
				} else if id, ok := ast.Unparen(sel.X).(*ast.Ident); ok && fa.elems[info.ObjectOf(id)] {
					// element: fine, not counted
				}
			}
		case *ast.IndexExpr:
			acc, ok := fa.accOf(x.X)
			if !ok || !acc.all {
				return true
			}
			construct := key(f.Name + ":" + core.SrcFull(fset, x))
			tv := info.Types[x.Index]
			if tv.Value == nil || tv.Value.Kind() != constant.Int {
				c.Unres(rC10Index, construct, x.Pos(), "non-constant index into a child list")
				return true
			}
			k, _ := constant.Int64Val(tv.Value)
			if k >= g4Cap-1 {
				c.Unres(rC10Index, construct, x.Pos(), "index beyond the enumeration cap")
				return true
			}
			acc.idx = int(k)
			acc.all = false
			present, counter, decided := fa.present(acc, x.Pos())
			switch {
			case !decided:
				c.Unres(rC10Index, construct, x.Pos(), "length of the child list could not be decided")
			case present:
				c.OK(rC10Index, construct, x.Pos(), "every %s node possible here has more than %d such children", fa.describe(), k)
			default:
				c.Bad(rC10Index, construct, x.Pos(), "the grammar allows %s, for which the index %d is out of range here", counter, k)
			}
		case *ast.SliceExpr:
			bt, ok := info.TypeOf(x.X).Underlying().(*types.Basic)
			if !ok || bt.Info()&types.IsString == 0 {
				return true
			}
			construct := key(f.Name + ":" + core.SrcFull(fset, x))
			tok := ""
			base := ast.Unparen(x.X)
			if call, ok := base.(*ast.CallExpr); ok {
				if sel, ok := call.Fun.(*ast.SelectorExpr); ok && sel.Sel.Name == "GetText" {
					if acc, ok := fa.accOf(sel.X); ok && !acc.all {
						tok = acc.sym
					}
				}
			} else if id, ok := base.(*ast.Ident); ok {
				o := info.ObjectOf(id)
				if t, ok := fa.texts[o]; ok && reachingDefIsFirst(fa, o, x.Pos()) {
					tok = t
				}
			}
			if tok == "" {
				c.Unres(rC10Index, construct, x.Pos(), "slice of a string that is not a token text")
				return true
			}
			minLen, ok := a.g.tokenMinLen(tok)
			if !ok {
				c.Unres(rC10Index, construct, x.Pos(), "token %s has no lexer rule", tok)
				return true
			}
			need, ok := sliceNeeds(info, x, base)
			if !ok {
				c.Unres(rC10Index, construct, x.Pos(), "slice bounds not of the form s[a:], s[a:len(s)-b]")
				return true
			}
			if minLen >= need {
				c.OK(rC10Index, construct, x.Pos(), "needs %d byte(s); a %s token has at least %d characters", need, tok, minLen)
			} else {
				c.Bad(rC10Index, construct, x.Pos(), "needs %d byte(s) but the lexer rule %s matches texts of %d character(s): the slice panics", need, tok, minLen)
			}
		}
		return true
	})
}

// reachingDefIsFirst: no assignment to the variable completes between its definition and pos (straight-line use).
func reachingDefIsFirst(fa *c10fn, o types.Object, pos token.Pos) bool {
	ok := true
	core.Walk(fa.f.Decl.Body, true, func(n ast.Node) bool {
		as, isAs := n.(*ast.AssignStmt)
		if !isAs {
			return true
		}
		for _, l := range as.Lhs {
			if id, isID := l.(*ast.Ident); isID && fa.info.ObjectOf(id) == o && as.Tok != token.DEFINE {
				if as.End() <= pos {
					ok = false
				}
			}
			if id, isID := l.(*ast.Ident); isID && fa.info.Defs[id] != nil && fa.info.Defs[id] != o && id.Name == o.Name() && as.End() <= pos {
				_ = id
			}
		}
		return true
	})
	return ok
}

// sliceNeeds returns the minimal length of s for which s[a:], s[:len(s)-b] or s[a:len(s)-b] is in range.
func sliceNeeds(info *types.Info, x *ast.SliceExpr, base ast.Expr) (int, bool) {
	if x.Slice3 {
		return 0, false
	}
	lo := 0
	if x.Low != nil {
		tv := info.Types[x.Low]
		if tv.Value == nil {
			return 0, false
		}
		n, _ := constant.Int64Val(tv.Value)
		lo = int(n)
	}
	if x.High == nil {
		return lo, true
	}
	be, ok := ast.Unparen(x.High).(*ast.BinaryExpr)
	if !ok || be.Op != token.SUB {
		return 0, false
	}
	call, ok := ast.Unparen(be.X).(*ast.CallExpr)
	if !ok || len(call.Args) != 1 {
		return 0, false
	}
	if id, ok := call.Fun.(*ast.Ident); !ok || id.Name != "len" {
		return 0, false
	}
	if types.ExprString(ast.Unparen(call.Args[0])) != types.ExprString(base) {
		return 0, false
	}
	tv := info.Types[be.Y]
	if tv.Value == nil {
		return 0, false
	}
	b, _ := constant.Int64Val(tv.Value)
	return lo + int(b), true
}

func containsNode(n ast.Node, pred func(ast.Node) bool) bool {
	found := false
	core.Walk(n, false, func(m ast.Node) bool {
		if pred(m) {
			found = true
		}
		return !found
	})
	return found
}
