package props

import (
	"fmt"
	"os"
	"path/filepath"
	"strings"
	"unicode"
)

// A small reader for the ANTLR grammar parse/gen/Mangle.g4: enough to compute,
// for every parser rule (and labelled alternative), how many children of each
// kind a node has, and for every lexer rule the minimal length of its text.

const g4Inf = 1 << 20

type g4Range struct{ Min, Max int }

type g4Node struct {
	kind  string // "seq" "alt" "ref" "lit" "set" "opt" "star" "plus"
	name  string // ref: rule or token name; lit: the literal text
	kids  []*g4Node
	label string // on the alternatives of a rule: "# Label"
}

type g4Rule struct {
	name     string
	fragment bool
	body     *g4Node // kind "alt"
}

type g4Grammar struct {
	rules    map[string]*g4Rule
	order    []string
	literals map[string]string // 'text' -> token name, for tokens defined as a single literal
}

type g4Lexer struct {
	src []rune
	pos int
}

func (l *g4Lexer) skip() {
	for l.pos < len(l.src) {
		c := l.src[l.pos]
		switch {
		case unicode.IsSpace(c):
			l.pos++
		case c == '/' && l.pos+1 < len(l.src) && l.src[l.pos+1] == '/':
			for l.pos < len(l.src) && l.src[l.pos] != '\n' {
				l.pos++
			}
		case c == '/' && l.pos+1 < len(l.src) && l.src[l.pos+1] == '*':
			l.pos += 2
			for l.pos+1 < len(l.src) && !(l.src[l.pos] == '*' && l.src[l.pos+1] == '/') {
				l.pos++
			}
			l.pos += 2
		default:
			return
		}
	}
}

// next returns the next token: identifiers, 'literals' (unescaped, prefixed with '),
// [sets] (as "["), and single punctuation characters; "->" and ".." are tokens too.
func (l *g4Lexer) next() string {
	l.skip()
	if l.pos >= len(l.src) {
		return ""
	}
	c := l.src[l.pos]
	switch {
	case unicode.IsLetter(c) || c == '_':
		st := l.pos
		for l.pos < len(l.src) && (unicode.IsLetter(l.src[l.pos]) || unicode.IsDigit(l.src[l.pos]) || l.src[l.pos] == '_') {
			l.pos++
		}
		return string(l.src[st:l.pos])
	case c == '\'':
		l.pos++
		var sb strings.Builder
		for l.pos < len(l.src) && l.src[l.pos] != '\'' {
			if l.src[l.pos] == '\\' && l.pos+1 < len(l.src) {
				l.pos++
				switch l.src[l.pos] {
				case 'n':
					sb.WriteRune('\n')
				case 't':
					sb.WriteRune('\t')
				case 'r':
					sb.WriteRune('\r')
				case 'u':
					// \uXXXX
					if l.pos+4 < len(l.src) {
						var r rune
						fmt.Sscanf(string(l.src[l.pos+1:l.pos+5]), "%x", &r)
						sb.WriteRune(r)
						l.pos += 4
					}
				default:
					sb.WriteRune(l.src[l.pos])
				}
				l.pos++
				continue
			}
			sb.WriteRune(l.src[l.pos])
			l.pos++
		}
		l.pos++
		return "'" + sb.String()
	case c == '[':
		for l.pos < len(l.src) && l.src[l.pos] != ']' {
			if l.src[l.pos] == '\\' {
				l.pos++
			}
			l.pos++
		}
		l.pos++
		return "["
	case c == '-' && l.pos+1 < len(l.src) && l.src[l.pos+1] == '>':
		l.pos += 2
		return "->"
	case c == '.' && l.pos+1 < len(l.src) && l.src[l.pos+1] == '.':
		l.pos += 2
		return ".."
	}
	l.pos++
	return string(c)
}

func (l *g4Lexer) peek() string {
	p := l.pos
	t := l.next()
	l.pos = p
	return t
}

func parseG4(text string) (*g4Grammar, error) {
	g := &g4Grammar{rules: map[string]*g4Rule{}, literals: map[string]string{}}
	l := &g4Lexer{src: []rune(text)}
	if l.next() != "grammar" {
		return nil, fmt.Errorf("not a grammar file")
	}
	l.next()
	if l.next() != ";" {
		return nil, fmt.Errorf("grammar header")
	}
	for {
		t := l.next()
		if t == "" {
			break
		}
		r := &g4Rule{}
		if t == "fragment" {
			r.fragment = true
			t = l.next()
		}
		r.name = t
		if l.next() != ":" {
			return nil, fmt.Errorf("rule %s: expected ':'", r.name)
		}
		body, err := parseG4Alt(l)
		if err != nil {
			return nil, fmt.Errorf("rule %s: %v", r.name, err)
		}
		r.body = body
		if l.peek() == "->" {
			for l.peek() != ";" && l.peek() != "" {
				l.next()
			}
		}
		if l.next() != ";" {
			return nil, fmt.Errorf("rule %s: expected ';'", r.name)
		}
		g.rules[r.name] = r
		g.order = append(g.order, r.name)
		if len(body.kids) == 1 && len(body.kids[0].kids) == 1 && body.kids[0].kids[0].kind == "lit" && !r.fragment {
			if _, dup := g.literals[body.kids[0].kids[0].name]; !dup {
				g.literals[body.kids[0].kids[0].name] = r.name
			}
		}
	}
	return g, nil
}

func parseG4Alt(l *g4Lexer) (*g4Node, error) {
	alt := &g4Node{kind: "alt"}
	for {
		seq := &g4Node{kind: "seq"}
		for {
			t := l.peek()
			if t == "|" || t == ")" || t == ";" || t == "" || t == "->" {
				break
			}
			if t == "#" {
				l.next()
				seq.label = l.next()
				continue
			}
			el, err := parseG4Elem(l)
			if err != nil {
				return nil, err
			}
			seq.kids = append(seq.kids, el)
		}
		alt.kids = append(alt.kids, seq)
		if l.peek() == "|" {
			l.next()
			continue
		}
		return alt, nil
	}
}

func parseG4Elem(l *g4Lexer) (*g4Node, error) {
	t := l.next()
	var n *g4Node
	switch {
	case t == "(":
		inner, err := parseG4Alt(l)
		if err != nil {
			return nil, err
		}
		if l.next() != ")" {
			return nil, fmt.Errorf("expected ')'")
		}
		n = inner
	case t == "~":
		// a negated set or literal: one character
		nx := l.next()
		if nx == "(" {
			if _, err := parseG4Alt(l); err != nil {
				return nil, err
			}
			l.next()
		}
		n = &g4Node{kind: "set"}
	case t == "[" || t == ".":
		n = &g4Node{kind: "set"}
	case strings.HasPrefix(t, "'"):
		n = &g4Node{kind: "lit", name: t[1:]}
		if l.peek() == ".." {
			l.next()
			l.next()
			n = &g4Node{kind: "set"}
		}
	case t != "" && (unicode.IsLetter([]rune(t)[0]) || t[0] == '_'):
		n = &g4Node{kind: "ref", name: t}
	default:
		return nil, fmt.Errorf("unexpected token %q", t)
	}
	for {
		switch l.peek() {
		case "?":
			l.next()
			if n.kind == "star" || n.kind == "plus" || n.kind == "opt" {
				continue // non-greedy marker
			}
			n = &g4Node{kind: "opt", kids: []*g4Node{n}}
		case "*":
			l.next()
			n = &g4Node{kind: "star", kids: []*g4Node{n}}
		case "+":
			l.next()
			n = &g4Node{kind: "plus", kids: []*g4Node{n}}
		default:
			return n, nil
		}
	}
}

// count returns how many children named sym (a rule name, a token name, or a
// literal that defines a token) the node can produce.
func (g *g4Grammar) count(n *g4Node, sym string) g4Range {
	switch n.kind {
	case "ref":
		if n.name == sym {
			return g4Range{1, 1}
		}
		return g4Range{}
	case "lit":
		if g.literals[n.name] == sym {
			return g4Range{1, 1}
		}
		return g4Range{}
	case "set":
		return g4Range{}
	case "seq":
		r := g4Range{}
		for _, k := range n.kids {
			c := g.count(k, sym)
			r.Min += c.Min
			r.Max += c.Max
		}
		if r.Max > g4Inf {
			r.Max = g4Inf
		}
		return r
	case "alt":
		r := g4Range{g4Inf, 0}
		for _, k := range n.kids {
			c := g.count(k, sym)
			r.Min = min(r.Min, c.Min)
			r.Max = max(r.Max, c.Max)
		}
		return r
	case "opt":
		c := g.count(n.kids[0], sym)
		return g4Range{0, c.Max}
	case "star":
		c := g.count(n.kids[0], sym)
		if c.Max > 0 {
			return g4Range{0, g4Inf}
		}
		return g4Range{}
	case "plus":
		c := g.count(n.kids[0], sym)
		if c.Max > 0 {
			return g4Range{c.Min, g4Inf}
		}
		return g4Range{}
	}
	return g4Range{}
}

// childCount is the number of sym children of a node of the given rule; label
// selects one labelled alternative ("" = any alternative).
func (g *g4Grammar) childCount(rule, label, sym string) (g4Range, bool) {
	r := g.rules[rule]
	if r == nil {
		return g4Range{}, false
	}
	if label == "" {
		return g.count(r.body, sym), true
	}
	for _, alt := range r.body.kids {
		if strings.EqualFold(alt.label, label) {
			return g.count(alt, sym), true
		}
	}
	return g4Range{}, false
}

// ruleOfLabel finds the rule that has an alternative with the given label.
func (g *g4Grammar) ruleOfLabel(label string) string {
	for _, name := range g.order {
		for _, alt := range g.rules[name].body.kids {
			if alt.label != "" && strings.EqualFold(alt.label, label) {
				return name
			}
		}
	}
	return ""
}

// minLen is the minimal number of characters of a lexer rule's text.
func (g *g4Grammar) minLen(n *g4Node, depth int) int {
	if depth > 30 {
		return 0
	}
	switch n.kind {
	case "ref":
		if r := g.rules[n.name]; r != nil {
			return g.minLen(r.body, depth+1)
		}
		return 0
	case "lit":
		return len([]rune(n.name))
	case "set":
		return 1
	case "seq":
		s := 0
		for _, k := range n.kids {
			s += g.minLen(k, depth+1)
		}
		return s
	case "alt":
		m := g4Inf
		for _, k := range n.kids {
			m = min(m, g.minLen(k, depth+1))
		}
		return m
	case "plus":
		return g.minLen(n.kids[0], depth+1)
	}
	return 0
}

// tokenMinLen is the minimal byte length of the text of a token (characters are at least one byte).
func (g *g4Grammar) tokenMinLen(tok string) (int, bool) {
	r := g.rules[tok]
	if r == nil {
		return 0, false
	}
	return g.minLen(r.body, 0), true
}

func loadG4(dir string) (*g4Grammar, error) {
	b, err := os.ReadFile(filepath.Join(dir, "parse", "gen", "Mangle.g4"))
	if err != nil {
		return nil, err
	}
	return parseG4(string(b))
}
