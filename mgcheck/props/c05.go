package props

import (
	"fmt"
	"sort"
	"strings"

	"mgcheck/core"
	"mgcheck/ordabs"
)

func init() { register("C05", checkC05) }

const (
	rC05Map   = "MAPORDER.reviewed-iterations"
	rC05Pkg   = "ORDABS.package-prefixing"
	rC05Class = "ORDABS.edb-idb-classification"
	rC05Two   = "ORDABS.two-map-orders"
	rC05Sort  = "ORDABS.deterministic-order-option"
)

var pipelinePkgs = []string{"analysis", "ast", "builtin", "engine", "factstore", "functional", "interpreter", "packages", "provenance", "rewrite", "symbols", "unionfind"}

func checkC05(c *core.Ctx) {
	c.Rule(rC05Map, "every range over a Go map in the pipeline packages that appends to an outer slice or selects an element by break/return is in the reviewed table with the reason its order cannot change the computed facts; loops that rely on a following sort still have one", 25)
	c.Rule(rC05Pkg, "Package.Clauses, evaluated on a packaged unit whose rule bodies contain every literal kind, prefixes the head and every body predicate the package defines (atoms, negated atoms, temporal literals around either, temporal atoms) and leaves other predicates alone", 1)
	c.Rule(rC05Class, "Analyzer.Analyze, evaluated with its checks stubbed out on the same clauses in different orders (a fact of a predicate before and after a rule for it), classifies predicates as extensional or intensional identically: a predicate with a rule is intensional only", 1)
	c.Rule(rC05Two, "Stratify and makeDeltaRules give the same result under ascending and descending map iteration order (evaluated in C03 / C01's rules, repeated here)", 2)
	c.Rule(rC05Sort, "EvalStratifiedProgramWithStats and (*engine).eval, evaluated with the deterministic-order option under ascending and under descending map iteration: the predicates listed for each stratum and the sequence of rule evaluations in the fixpoint loop are the same", 2)
	mapOrderRule(c, rC05Map, pipelinePkgs)
	c05Packages(c)
	c05Classification(c)
	c03StratifyRule(c, rC05Two)
	c01DeltaRules(c, rC05Two)
	c05SortOption(c)
	c05Stores(c)
	c05ClauseOrder(c)
	c.Rule("ORDABS.dependencies-complete", "makeDepGraph, evaluated on one-rule programs with every premise kind (temporal literals with and without operator or interval included), records every dependency: a missing edge leaves two strata unordered and the facts derived then depend on map iteration order (obligation shared with C03)", 1)
	c.Under("ORDABS.dependencies-complete", []string{rC03Graph}, func() { c03DepGraph(c) })
	c.Rule("ORDABS.base-fact-order", "the temporal store answers the same whatever the order in which the base facts were added: the interval tree's rotations keep the max-end augmentation at one node over all orderings, and Insert with everything below it, evaluated on every insertion sequence of the small family, answers point and range queries by the set inserted (obligations shared with C13)", 5)
	tk := newTkit(c, "ORDABS.base-fact-order")
	c.Under("ORDABS.base-fact-order", []string{rC13Rot, rC13Whole}, func() {
		c13Rotations(c, tk)
		c13WholeTree(c, tk)
	})
	c.Rule("ORDABS.internal-relations-per-rule", "rewrite.Rewrite gives every multi-premise aggregating rule an internal relation of its own: two rules sharing one would mix their rows in columns ordered by variable-name hash, so that renaming variables or reordering rules changes the aggregate (obligation shared with C02)", 1)
	c.Under("ORDABS.internal-relations-per-rule", []string{rC02Split}, func() { c02Rewrite(c) })
}

const (
	rC05Store = "ORDABS.store-choice"
	rC05Perm  = "ORDABS.clause-order"
)

// c05Stores: whichever in-memory store is chosen, it answers like the same mathematical set (so the facts a program
// derives, and what is read back from the store afterwards, do not depend on the choice).
func c05Stores(c *core.Ctx) {
	c.Rule(rC05Store, "each in-memory fact store, read from source and evaluated on every history of up to three add/remove operations over three binary atoms and a zero-arity atom, answers Add, Remove, Contains, all query patterns, EstimateFactCount and ListPredicates like one and the same mathematical set (the laws of C06, repeated here because store choice is part of this property)", 4)
	k := &astKit{c: c, ok: true}
	ck := newConstKit(c, rC05Store)
	if !ck.ok {
		return
	}
	c06RuleOverride = rC05Store
	defer func() { c06RuleOverride = "" }()
	for _, impl := range storeImpls {
		c06Laws(c, k, ck, impl, false)
	}
	// the layered stores the interpreter and the engine put in front of them answer like the same set too
	c.Under(rC05Store, []string{rC06Wrap, rC06Merge}, func() { c06Wrappers(c, k, ck) })
}

// c05ClauseOrder: the fixpoint loop reaches the same least model whatever the order of the rules (each abstract
// program with its rules reversed and rotated, over plain and over temporal facts).
func c05ClauseOrder(c *core.Ctx) {
	c.Rule(rC05Perm, "(*engine).eval, read from source and evaluated over the abstract programs with their rules reversed and rotated, over plain and over temporal facts, ends with the same least model as for the written order", 1)
	f := c.MustFunc(rC05Perm, "engine", "engine.eval")
	if f == nil {
		return
	}
	bad, n := "", 0
	for _, p := range absPrograms() {
		want := p.leastModel(1000)
		var variants []absProgram
		rev := absProgram{name: p.name + ":reversed", facts: p.facts}
		for i := len(p.rules) - 1; i >= 0; i-- {
			rev.rules = append(rev.rules, p.rules[i])
		}
		rot := absProgram{name: p.name + ":rotated", facts: p.facts, rules: append(append([]absRule{}, p.rules[1:]...), p.rules[0])}
		variants = append(variants, rev, rot)
		for _, v := range variants {
			for _, temporal := range []bool{false, true} {
				e := newEngineFixMode(c, rC05Perm, v, 0, temporal)
				if e == nil {
					return
				}
				final, isErr, returned, err := e.runEval(f, 400000)
				if !runORD(c, rC05Perm, f.Name, f, err) {
					return
				}
				n++
				miss, extra := diffSets(final, want)
				if (!returned || isErr || len(miss) > 0 || len(extra) > 0) && bad == "" {
					bad = fmt.Sprintf("program %s (temporal facts=%v): returned=%v error=%v, missing %v, extra %v compared with the least model of the written order", v.name, temporal, returned, isErr, miss, extra)
				}
			}
		}
	}
	c.Check(bad == "", rC05Perm, f.Name, f.Decl.Pos(), fmt.Sprintf("%d evaluations of reordered programs reach the same least model", n), bad)
}

func c05Packages(c *core.Ctx) {
	f := c.MustFunc(rC05Pkg, "packages", "Package.Clauses")
	if f == nil {
		return
	}
	q := &clauseKit{k: &astKit{c: c, ok: true}, ck: newConstKit(c, rC05Pkg)}
	if !q.ck.ok {
		return
	}
	in := ordabs.New(c.Prog)
	in.InstallErrorStubs()
	defined := ordabs.NewMap()
	for _, p := range []string{"a", "n", "t"} {
		ps := predSym(p, 1)
		defined.M[ordabs.KeyString(ps)], defined.Keys[ordabs.KeyString(ps)] = true, ps
	}
	in.Stubs["packages.Package.declarationMappings"] = func(in *ordabs.Interp, _ ordabs.Value, _ []ordabs.Value) ([]ordabs.Value, error) {
		return []ordabs.Value{&ordabs.Obj{Name: "usedPackages", Opaque: true}, defined, nil}, nil
	}
	in.Stubs["bitbucket.org/creachadair/stringset.Set.Contains"] = func(in *ordabs.Interp, _ ordabs.Value, _ []ordabs.Value) ([]ordabs.Value, error) {
		return []ordabs.Value{true}, nil
	}
	in.Stubs["strings.LastIndex"] = func(in *ordabs.Interp, _ ordabs.Value, args []ordabs.Value) ([]ordabs.Value, error) {
		return []ordabs.Value{int64(strings.LastIndex(args[0].(string), args[1].(string)))}, nil
	}
	X := hv("X")
	cl := q.clause(hClause{headPred: "h", head: []hTerm{X}, prems: []hPrem{{kind: "atom", pred: "a", args: []hTerm{X}}, {kind: "neg", pred: "n", args: []hTerm{X}}, {kind: "atom", pred: "other", args: []hTerm{X}}}})
	prems := cl.Fields["Premises"].(*ordabs.Slice)
	ta := q.k.zero("ast", "TemporalAtom")
	ta.Fields["Atom"] = q.atom("t", []hTerm{X})
	ps := append(append([]ordabs.Value{}, *prems.Elems...),
		q.k.tl(q.atom("t", []hTerm{X}), false, true), q.k.tl(q.atom("t", []hTerm{X}), true, false), q.k.tl(q.k.neg("t"), true, true), ta)
	cl.Fields["Premises"] = &ordabs.Slice{Elems: &ps}
	unit := q.k.zero("parse", "SourceUnit")
	cls := []ordabs.Value{cl}
	unit.Fields["Clauses"] = &ordabs.Slice{Elems: &cls}
	units := []ordabs.Value{unit}
	pkg := &ordabs.Obj{Name: "package", Fields: map[string]ordabs.Value{"Name": "foo", "Atoms": (*ordabs.Slice)(nil), "units": &ordabs.Slice{Elems: &units}}, T: "packages.Package"}
	if !q.k.ok {
		c.Unres(rC05Pkg, f.Name, f.Decl.Pos(), "anchor-unresolved: ast node types")
		return
	}
	in.Fuel = 400000
	out, err := in.Call(f, pkg, nil)
	if !runORD(c, rC05Pkg, f.Name, f, err) {
		return
	}
	bad := ""
	res, _ := out[0].(*ordabs.Slice)
	if out[1] != nil || res == nil || len(*res.Elems) != 1 {
		bad = "Clauses() did not return the clause"
	} else {
		r := (*res.Elems)[0].(*ordabs.Rec)
		hp, _ := backAtom(r.Fields["Head"])
		var got []string
		for _, pv := range *r.Fields["Premises"].(*ordabs.Slice).Elems {
			pr := pv.(*ordabs.Rec)
			desc := strings.TrimPrefix(pr.T, "ast.")
			inner := pr
			if pr.T == "ast.TemporalLiteral" {
				inner, _ = pr.Fields["Literal"].(*ordabs.Rec)
				desc += "/" + strings.TrimPrefix(inner.T, "ast.")
			}
			if inner.T == "ast.NegAtom" || inner.T == "ast.TemporalAtom" {
				inner, _ = inner.Fields["Atom"].(*ordabs.Rec)
			}
			p, _ := backAtom(inner)
			got = append(got, desc+":"+p)
		}
		want := []string{"Atom:foo.a", "NegAtom:foo.n", "Atom:other", "TemporalLiteral/Atom:foo.t", "TemporalLiteral/Atom:foo.t", "TemporalLiteral/NegAtom:foo.t", "TemporalAtom:foo.t"}
		if hp != "foo.h" || fmt.Sprint(got) != fmt.Sprint(want) {
			bad = fmt.Sprintf("in package foo (which defines a, n, t) the clause becomes head %s with body predicates %v, want head foo.h and %v: a literal that keeps the unprefixed name refers to a predicate that does not exist, and the rule silently derives nothing", hp, got, want)
		}
	}
	c.Check(bad == "", rC05Pkg, f.Name, f.Decl.Pos(), "all seven literal kinds are prefixed", bad)
	c05OwnPackage(c, q)
}

// c05OwnPackage: Clauses() rewrites the parsed unit in place, so analysing the same unit again (or writing a body
// atom with the package's own prefix) meets names that already carry the prefix: the package's own name must count
// as usable. Evaluated with the real declarationMappings and a set model of stringset.
func c05OwnPackage(c *core.Ctx, q *clauseKit) {
	f := c.MustFunc(rC05Pkg, "packages", "Package.Clauses")
	dm := c.MustFunc(rC05Pkg, "packages", "Package.declarationMappings")
	if f == nil || dm == nil {
		return
	}
	in := ordabs.New(c.Prog)
	const ss = "bitbucket.org/creachadair/stringset"
	setOf := func(v ordabs.Value) *ordabs.Obj { o, _ := v.(*ordabs.Obj); return o }
	in.Stubs[ss+".New"] = func(in *ordabs.Interp, _ ordabs.Value, a []ordabs.Value) ([]ordabs.Value, error) {
		o := &ordabs.Obj{Name: "stringset", Fields: map[string]ordabs.Value{}, T: "stringset.Set"}
		items := a
		if len(a) == 1 {
			if sl, ok := a[0].(*ordabs.Slice); ok {
				items = nil
				if sl != nil {
					items = *sl.Elems
				}
			}
		}
		for _, it := range items {
			if str, ok := it.(string); ok {
				o.Fields[str] = true
			}
		}
		return []ordabs.Value{o}, nil
	}
	in.Stubs[ss+".Set.Add"] = func(in *ordabs.Interp, recv ordabs.Value, a []ordabs.Value) ([]ordabs.Value, error) {
		if o := setOf(recv); o != nil {
			for _, it := range a {
				if str, ok := it.(string); ok {
					o.Fields[str] = true
				}
			}
		}
		return []ordabs.Value{true}, nil
	}
	in.Stubs[ss+".Set.Contains"] = func(in *ordabs.Interp, recv ordabs.Value, a []ordabs.Value) ([]ordabs.Value, error) {
		o := setOf(recv)
		str, _ := a[0].(string)
		return []ordabs.Value{o != nil && o.Fields[str] == true}, nil
	}
	X := hv("X")
	cl := q.clause(hClause{headPred: "h", head: []hTerm{X}, prems: []hPrem{{kind: "atom", pred: "a", args: []hTerm{X}}, {kind: "atom", pred: "foo.h", args: []hTerm{X}}}})
	fact := q.clause(hClause{headPred: "a", head: []hTerm{hc(1)}})
	unit := q.k.zero("parse", "SourceUnit")
	cls := []ordabs.Value{cl, fact}
	unit.Fields["Clauses"] = &ordabs.Slice{Elems: &cls}
	units := []ordabs.Value{unit}
	pkg := &ordabs.Obj{Name: "package", Fields: map[string]ordabs.Value{"Name": "foo", "Atoms": (*ordabs.Slice)(nil), "units": &ordabs.Slice{Elems: &units}}, T: "packages.Package"}
	if !q.k.ok {
		return
	}
	bad := ""
	for round := 1; round <= 2 && bad == ""; round++ {
		in.Reset()
		in.Fuel = 400000
		out, err := in.Call(f, pkg, nil)
		if !runORD(c, rC05Pkg, f.Name+":own-package", f, err) {
			return
		}
		if out[1] != nil {
			bad = fmt.Sprintf("Clauses() call %d on a unit of package foo whose rule h(X) :- a(X), foo.h(X) mentions its own package by name (and whose names carry the prefix after the first call) fails: %v", round, out[1])
		}
	}
	c.Check(bad == "", rC05Pkg, f.Name+":own-package", f.Decl.Pos(), "the package's own prefix is usable; rewriting the same unit twice succeeds", bad)
}

func c05Classification(c *core.Ctx) {
	f := c.MustFunc(rC05Class, "analysis", "Analyzer.Analyze")
	if f == nil {
		return
	}
	q := &clauseKit{k: &astKit{c: c, ok: true}, ck: newConstKit(c, rC05Class)}
	if !q.ck.ok {
		return
	}
	in := ordabs.New(c.Prog)
	in.InstallErrorStubs()
	nilErr := func(in *ordabs.Interp, _ ordabs.Value, _ []ordabs.Value) ([]ordabs.Value, error) {
		return []ordabs.Value{nil}, nil
	}
	in.Stubs["analysis.Analyzer.EnsureDecl"] = nilErr
	in.Stubs["analysis.Analyzer.CheckRule"] = nilErr
	in.Stubs["analysis.CheckDecl"] = func(in *ordabs.Interp, _ ordabs.Value, _ []ordabs.Value) ([]ordabs.Value, error) {
		return []ordabs.Value{(*ordabs.Slice)(nil)}, nil
	}
	in.Stubs["symbols.CheckAndDesugar"] = func(in *ordabs.Interp, _ ordabs.Value, _ []ordabs.Value) ([]ordabs.Value, error) {
		return []ordabs.Value{ordabs.NewMap(), nil}, nil
	}
	in.Stubs["analysis.RewriteClause"] = func(in *ordabs.Interp, _ ordabs.Value, args []ordabs.Value) ([]ordabs.Value, error) {
		return []ordabs.Value{args[1]}, nil
	}
	in.Stubs["functional.EvalAtom"] = func(in *ordabs.Interp, _ ordabs.Value, args []ordabs.Value) ([]ordabs.Value, error) {
		return []ordabs.Value{args[0], nil}, nil
	}
	in.Stubs["analysis.CheckTemporalRecursion"] = func(in *ordabs.Interp, _ ordabs.Value, _ []ordabs.Value) ([]ordabs.Value, error) {
		return []ordabs.Value{(*ordabs.Slice)(nil)}, nil
	}
	in.Stubs["ast.PredicateSym.IsBuiltin"] = func(in *ordabs.Interp, recv ordabs.Value, _ []ordabs.Value) ([]ordabs.Value, error) {
		s, _ := recv.(*ordabs.Rec).Fields["Symbol"].(string)
		return []ordabs.Value{strings.HasPrefix(s, ":")}, nil
	}
	X := hv("X")
	fact := func(p string) *ordabs.Rec {
		cl := q.clause(hClause{headPred: p, head: []hTerm{hc(1)}})
		cl.Fields["Premises"] = (*ordabs.Slice)(nil)
		return cl
	}
	rule := func(h string, body ...string) *ordabs.Rec {
		var ps []hPrem
		for _, b := range body {
			ps = append(ps, hPrem{kind: "atom", pred: b, args: []hTerm{X}})
		}
		return q.clause(hClause{headPred: h, head: []hTerm{X}, prems: ps})
	}
	orders := [][]*ordabs.Rec{
		{fact("e"), fact("p"), rule("p", "e"), rule("q", "p")},
		{rule("q", "p"), rule("p", "e"), fact("p"), fact("e")},
		{rule("p", "e"), fact("p"), rule("q", "p"), fact("e")},
	}
	mk := func() *ordabs.Obj {
		an := q.k.zero("analysis", "Analyzer")
		an.Fields["decl"] = ordabs.NewMap()
		an.Fields["extraPredicates"] = ordabs.NewMap()
		return &ordabs.Obj{Name: "analyzer", Fields: an.Fields, T: "analysis.Analyzer"}
	}
	if !q.k.ok {
		c.Unres(rC05Class, f.Name, f.Decl.Pos(), "anchor-unresolved")
		return
	}
	bad := ""
	for _, ord := range orders {
		var cls []ordabs.Value
		for _, x := range ord {
			cls = append(cls, x)
		}
		in.Reset()
		in.Fuel = 400000
		out, err := in.Call(f, mk(), []ordabs.Value{&ordabs.Slice{Elems: &cls}})
		if !runORD(c, rC05Class, f.Name, f, err) {
			return
		}
		pi, _ := out[0].(*ordabs.Obj)
		if pi == nil || out[1] != nil {
			bad = "Analyze failed on the stubbed program"
			break
		}
		set := func(v ordabs.Value) string {
			m, _ := v.(*ordabs.Map)
			var ks []string
			if m != nil {
				for _, kx := range m.Keys {
					ks = append(ks, fmt.Sprint(kx.(*ordabs.Rec).Fields["Symbol"]))
				}
			}
			sort.Strings(ks)
			return strings.Join(ks, ",")
		}
		edb, idb := set(pi.Fields["EdbPredicates"]), set(pi.Fields["IdbPredicates"])
		if (edb != "e" || idb != "p,q") && bad == "" {
			var names []string
			for _, x := range ord {
				hp, _ := backAtom(x.Fields["Head"])
				kind := "rule"
				if sl, _ := x.Fields["Premises"].(*ordabs.Slice); sl == nil {
					kind = "fact"
				}
				names = append(names, kind+" "+hp)
			}
			bad = fmt.Sprintf("clauses in the order [%s]: extensional={%s} intensional={%s}, want {e} and {p,q} whatever the order (a predicate that is both loses its dependency edges in stratification)", strings.Join(names, "; "), edb, idb)
		}
	}
	c.Check(bad == "", rC05Class, f.Name, f.Decl.Pos(), "same classification for three clause orders", bad)
}

// c05SortOption decides the deterministic-order option by its effect, not by the text of the code: with the option
// set, the order in which the engine evaluates rules and lists the predicates of a stratum must not depend on the
// iteration order of Go maps (evaluated once ascending, once descending).
func c05SortOption(c *core.Ctx) {
	// (a) the predicates of each stratum
	if f := c.MustFunc(rC05Sort, "engine", "EvalStratifiedProgramWithStats"); f != nil {
		k := &astKit{c: c, ok: true}
		run := func(reverse, det bool) (string, error) {
			in := ordabs.New(c.Prog)
			in.InstallTimeStubs()
			in.ReverseMaps = reverse
			in.Stubs["time.Now"] = func(in *ordabs.Interp, _ ordabs.Value, _ []ordabs.Value) ([]ordabs.Value, error) {
				return []ordabs.Value{ordabs.TimeVal{NS: 100}}, nil
			}
			in.Stubs["engine.newEvalOptions"] = func(in *ordabs.Interp, _ ordabs.Value, _ []ordabs.Value) ([]ordabs.Value, error) {
				o := k.zero("engine", "EvalOptions")
				o.Fields["externalPredicates"] = ordabs.NewMap()
				o.Fields["deterministicOrder"] = det
				return []ordabs.Value{o}, nil
			}
			for _, n := range []string{"factstore.FactStore", "factstore.ReadOnlyFactStore"} {
				in.Stubs[n+".EstimateFactCount"] = func(in *ordabs.Interp, _ ordabs.Value, _ []ordabs.Value) ([]ordabs.Value, error) {
					return []ordabs.Value{int64(0)}, nil
				}
			}
			in.Stubs["factstore.NewMultiIndexedArrayInMemoryStore"] = func(in *ordabs.Interp, _ ordabs.Value, _ []ordabs.Value) ([]ordabs.Value, error) {
				return []ordabs.Value{&ordabs.Obj{Name: "delta", Opaque: true}}, nil
			}
			seen := "evalStrata not reached"
			in.Stubs["engine.engine.evalStrata"] = func(in *ordabs.Interp, recv ordabs.Value, _ []ordabs.Value) ([]ordabs.Value, error) {
				seen = "?"
				if eo, _ := recv.(*ordabs.Obj); eo != nil {
					if st, ok := eo.Fields["stats"].(*ordabs.Rec); ok {
						if sl, _ := st.Fields["Strata"].(*ordabs.Slice); sl != nil {
							var layers []string
							for _, l := range *sl.Elems {
								var names []string
								if ls, _ := l.(*ordabs.Slice); ls != nil {
									for _, p := range *ls.Elems {
										names = append(names, fmt.Sprint(p.(*ordabs.Rec).Fields["Symbol"]))
									}
								}
								layers = append(layers, strings.Join(names, ","))
							}
							seen = strings.Join(layers, " | ")
						}
					}
				}
				return []ordabs.Value{nil}, nil
			}
			pts := ordabs.NewMap()
			for i, n := range []string{"c", "a", "d", "b"} {
				sym := predSym(n, 1)
				pts.M[ordabs.KeyString(sym)], pts.Keys[ordabs.KeyString(sym)] = int64(i/3), sym
			}
			pi := k.zero("analysis", "ProgramInfo")
			pi.Fields["Decls"] = ordabs.NewMap()
			strata := []ordabs.Value{nil, nil}
			opt := []ordabs.Value{}
			_, err := in.Call(f, nil, []ordabs.Value{&ordabs.Obj{Name: "pi", Fields: pi.Fields}, &ordabs.Slice{Elems: &strata}, pts, &ordabs.Obj{Name: "store", Opaque: true}, &ordabs.Slice{Elems: &opt}})
			return seen, err
		}
		asc, err1 := run(false, true)
		desc, err2 := run(true, true)
		free, err3 := run(true, false)
		if runORD(c, rC05Sort, f.Name+":strata", f, err1) && runORD(c, rC05Sort, f.Name+":strata", f, err2) && runORD(c, rC05Sort, f.Name+":strata", f, err3) && k.ok {
			okSet := sortedCSV(asc) == "a,c,d | b" || sortedCSV(asc) == "a,c,d|b"
			c.Check(asc == desc && okSet && sortedCSV(free) == sortedCSV(asc), rC05Sort, f.Name+":strata", f.Decl.Pos(),
				fmt.Sprintf("with the option the predicates of each stratum are listed as [%s] under both map orders (without it: [%s])", asc, free),
				fmt.Sprintf("with the deterministic-order option the predicates of each stratum are listed as [%s] under ascending and [%s] under descending map iteration (without the option: [%s]); want the same list, holding a,c,d in stratum 0 and b in stratum 1", asc, desc, free))
		}
	}
	// (b) the order of delta-rule evaluations in the fixpoint loop
	if f := c.MustFunc(rC05Sort, "engine", "engine.eval"); f != nil {
		prog := absPrograms()[3] // mutual recursion: delta rules for two head predicates
		run := func(reverse bool) (string, bool) {
			e := newEngineFix(c, rC05Sort, prog, 0)
			if e == nil {
				return "", false
			}
			e.in.ReverseMaps = reverse
			e.engine.Fields["options"].(*ordabs.Rec).Fields["deterministicOrder"] = true
			_, _, returned, err := e.runEval(f, 400000)
			if !runORD(c, rC05Sort, f.Name+":delta-rule-order", f, err) {
				return "", false
			}
			if !returned {
				c.Unres(rC05Sort, f.Name+":delta-rule-order", f.Decl.Pos(), "the loop did not return within the evaluation budget")
				return "", false
			}
			return strings.Join(e.trace, " "), true
		}
		asc, ok1 := run(false)
		desc, ok2 := run(true)
		if ok1 && ok2 {
			c.Check(asc == desc && asc != "", rC05Sort, f.Name+":delta-rule-order", f.Decl.Pos(),
				"with the option the sequence of rule evaluations (rule/delta position) is the same under both map orders",
				fmt.Sprintf("with the deterministic-order option the rules of program %s are evaluated in the order [%s] under ascending and [%s] under descending map iteration", prog.name, asc, desc))
		}
	}
}

func sortedCSV(s string) string {
	layers := strings.Split(s, " | ")
	for i, l := range layers {
		ns := strings.Split(l, ",")
		sort.Strings(ns)
		layers[i] = strings.Join(ns, ",")
	}
	return strings.Join(layers, " | ")
}
