package props

import (
	"fmt"
	"sort"
	"strings"

	"mgcheck/core"
	"mgcheck/ordabs"
)

// analyzePipeline evaluates (*Analyzer).Analyze, read from source, with every stage it calls replaced by a
// recorder: CheckDecl, symbols.CheckAndDesugar, RewriteClause, CheckRule, functional.EvalAtom. The stages mark
// what they return (a rewritten clause gets the suffix "_rw", an evaluated fact "_ev", the desugared declarations
// a sentinel entry), so the order and the data flow between the stages are read off the recorded calls and the
// returned ProgramInfo instead of being matched against the shape of the statements.
//
//	ruleDecl: every user declaration passes CheckDecl and a rejected declaration stops Analyze before any
//	          declaration reaches symbols.CheckAndDesugar
//	ruleFlow: the clause given to CheckRule is the clause RewriteClause returned (rewritten against the desugared
//	          declarations), the same clause is the one kept in ProgramInfo.Rules / evaluated into InitialFacts,
//	          and a clause CheckRule rejects stops Analyze with its error
func analyzePipeline(c *core.Ctx, ruleDecl, ruleFlow string) {
	rules := []string{ruleDecl, ruleFlow}
	first := ruleDecl
	if first == "" {
		first = ruleFlow
	}
	f := c.MustFunc(first, "analysis", "Analyzer.Analyze")
	if f == nil {
		return
	}
	q := &clauseKit{k: &astKit{c: c, ok: true}, ck: newConstKit(c, first)}
	if !q.ck.ok {
		return
	}
	type trace struct {
		checked   []string // declarations given to CheckDecl
		desugared []string // declarations given to CheckAndDesugar ("" if never called)
		desCalls  int
		order     []string // stage calls in order
		rewrites  []string
		rwDecls   []bool // RewriteClause got the desugared declarations
		rules     []string
		evals     []string
	}
	var tr *trace
	symOf := func(v ordabs.Value) string {
		switch a := v.(type) {
		case *ordabs.Rec:
			if p, ok := a.Fields["Predicate"].(*ordabs.Rec); ok {
				return fmt.Sprint(p.Fields["Symbol"])
			}
			if h, ok := a.Fields["Head"].(*ordabs.Rec); ok {
				return fmt.Sprint(h.Fields["Predicate"].(*ordabs.Rec).Fields["Symbol"])
			}
			if d, ok := a.Fields["DeclaredAtom"].(*ordabs.Rec); ok {
				return fmt.Sprint(d.Fields["Predicate"].(*ordabs.Rec).Fields["Symbol"])
			}
		}
		return "?"
	}
	rename := func(atom *ordabs.Rec, suffix string) *ordabs.Rec {
		n := &ordabs.Rec{Fields: map[string]ordabs.Value{}, T: atom.T}
		for k, v := range atom.Fields {
			n.Fields[k] = v
		}
		p := atom.Fields["Predicate"].(*ordabs.Rec)
		n.Fields["Predicate"] = predSym(fmt.Sprint(p.Fields["Symbol"])+suffix, p.Fields["Arity"].(int64))
		return n
	}
	in := ordabs.New(c.Prog)
	in.InstallErrorStubs()
	in.Stubs["analysis.Analyzer.EnsureDecl"] = func(in *ordabs.Interp, _ ordabs.Value, _ []ordabs.Value) ([]ordabs.Value, error) {
		return []ordabs.Value{nil}, nil
	}
	in.Stubs["analysis.CheckDecl"] = func(in *ordabs.Interp, _ ordabs.Value, args []ordabs.Value) ([]ordabs.Value, error) {
		s := symOf(args[0])
		tr.checked = append(tr.checked, s)
		tr.order = append(tr.order, "CheckDecl")
		if strings.HasPrefix(s, "bad") {
			es := []ordabs.Value{ordabs.ErrVal{Tag: "decl " + s}}
			return []ordabs.Value{&ordabs.Slice{Elems: &es}}, nil
		}
		return []ordabs.Value{(*ordabs.Slice)(nil)}, nil
	}
	in.Stubs["go.uber.org/multierr.Combine"] = func(in *ordabs.Interp, _ ordabs.Value, args []ordabs.Value) ([]ordabs.Value, error) {
		return []ordabs.Value{ordabs.ErrVal{Tag: "combined"}}, nil
	}
	in.Stubs["multierr.Combine"] = in.Stubs["go.uber.org/multierr.Combine"]
	sentinel := predSym("desugared!", 0)
	in.Stubs["symbols.CheckAndDesugar"] = func(in *ordabs.Interp, _ ordabs.Value, args []ordabs.Value) ([]ordabs.Value, error) {
		tr.desCalls++
		tr.order = append(tr.order, "CheckAndDesugar")
		out := ordabs.NewMap()
		if m, _ := args[0].(*ordabs.Map); m != nil {
			for k, key := range m.Keys {
				tr.desugared = append(tr.desugared, symOf(m.M[k]))
				out.M[k], out.Keys[k] = m.M[k], key
			}
		}
		ks := ordabs.KeyString(sentinel)
		out.M[ks], out.Keys[ks] = q.k.zero("ast", "Decl"), sentinel
		return []ordabs.Value{out, nil}, nil
	}
	in.Stubs["analysis.RewriteClause"] = func(in *ordabs.Interp, _ ordabs.Value, args []ordabs.Value) ([]ordabs.Value, error) {
		cl := args[1].(*ordabs.Rec)
		tr.order = append(tr.order, "RewriteClause:"+symOf(cl))
		tr.rewrites = append(tr.rewrites, symOf(cl))
		m, _ := args[0].(*ordabs.Map)
		has := false
		if m != nil {
			_, has = m.M[ordabs.KeyString(sentinel)]
		}
		tr.rwDecls = append(tr.rwDecls, has)
		n := &ordabs.Rec{Fields: map[string]ordabs.Value{}, T: cl.T}
		for k, v := range cl.Fields {
			n.Fields[k] = v
		}
		n.Fields["Head"] = rename(cl.Fields["Head"].(*ordabs.Rec), "_rw")
		return []ordabs.Value{n}, nil
	}
	in.Stubs["analysis.Analyzer.CheckRule"] = func(in *ordabs.Interp, _ ordabs.Value, args []ordabs.Value) ([]ordabs.Value, error) {
		s := symOf(args[0])
		tr.order = append(tr.order, "CheckRule:"+s)
		tr.rules = append(tr.rules, s)
		if strings.HasPrefix(s, "rejected") {
			return []ordabs.Value{ordabs.ErrVal{Tag: "rule " + s}}, nil
		}
		return []ordabs.Value{nil}, nil
	}
	in.Stubs["functional.EvalAtom"] = func(in *ordabs.Interp, _ ordabs.Value, args []ordabs.Value) ([]ordabs.Value, error) {
		a := args[0].(*ordabs.Rec)
		tr.order = append(tr.order, "EvalAtom:"+symOf(a))
		tr.evals = append(tr.evals, symOf(a))
		return []ordabs.Value{rename(a, "_ev"), nil}, nil
	}
	in.Stubs["analysis.CheckTemporalRecursion"] = func(in *ordabs.Interp, _ ordabs.Value, _ []ordabs.Value) ([]ordabs.Value, error) {
		return []ordabs.Value{(*ordabs.Slice)(nil)}, nil
	}
	in.Stubs["ast.PredicateSym.IsBuiltin"] = func(in *ordabs.Interp, recv ordabs.Value, _ []ordabs.Value) ([]ordabs.Value, error) {
		s, _ := recv.(*ordabs.Rec).Fields["Symbol"].(string)
		return []ordabs.Value{strings.HasPrefix(s, ":")}, nil
	}
	X := hv("X")
	fact := func(p string) *ordabs.Rec {
		cl := q.clause(hClause{headPred: p, head: []hTerm{hc(1)}})
		cl.Fields["Premises"] = (*ordabs.Slice)(nil)
		return cl
	}
	rule := func(h string, body ...string) *ordabs.Rec {
		var ps []hPrem
		for _, b := range body {
			ps = append(ps, hPrem{kind: "atom", pred: b, args: []hTerm{X}})
		}
		return q.clause(hClause{headPred: h, head: []hTerm{X}, prems: ps})
	}
	decl := func(p string) *ordabs.Rec {
		d := q.k.zero("ast", "Decl")
		d.Fields["DeclaredAtom"] = q.k.atom(p, 1)
		return d
	}
	mk := func(decls, extra []string) *ordabs.Obj {
		an := q.k.zero("analysis", "Analyzer")
		dm, em := ordabs.NewMap(), ordabs.NewMap()
		for _, p := range decls {
			ps := predSym(p, 1)
			dm.M[ordabs.KeyString(ps)], dm.Keys[ordabs.KeyString(ps)] = decl(p), ps
		}
		for _, p := range extra {
			ps := predSym(p, 1)
			em.M[ordabs.KeyString(ps)], em.Keys[ordabs.KeyString(ps)] = decl(p), ps
		}
		an.Fields["decl"] = dm
		an.Fields["extraPredicates"] = em
		return &ordabs.Obj{Name: "analyzer", Fields: an.Fields, T: "analysis.Analyzer"}
	}
	if !q.k.ok {
		for _, r := range rules {
			if r != "" {
				c.Unres(r, f.Name, f.Decl.Pos(), "anchor-unresolved")
			}
		}
		return
	}
	run := func(rule string, decls, extra []string, prog []*ordabs.Rec) (pi *ordabs.Obj, errv ordabs.Value, ok bool) {
		var cls []ordabs.Value
		for _, x := range prog {
			cls = append(cls, x)
		}
		tr = &trace{}
		in.Reset()
		in.Fuel = 400000
		out, err := in.Call(f, mk(decls, extra), []ordabs.Value{&ordabs.Slice{Elems: &cls}})
		if !runORD(c, rule, f.Name, f, err) {
			return nil, nil, false
		}
		pi, _ = out[0].(*ordabs.Obj)
		return pi, out[1], true
	}
	sorted := func(xs []string) string {
		ys := append([]string(nil), xs...)
		sort.Strings(ys)
		return strings.Join(ys, ",")
	}
	prog := []*ordabs.Rec{fact("e"), rule("p", "e"), rule("q", "p", "e")}

	// ---- declarations
	if ruleDecl != "" {
		bad := ""
		n := 0
		// every position of the rejected declaration among the accepted ones
		for _, ds := range [][]string{{"bad", "d1", "d2"}, {"d1", "bad", "d2"}, {"d1", "d2", "bad"}, {"bad"}, {"bad1", "bad2"}} {
			pi, errv, ok := run(ruleDecl, ds, []string{"x1"}, prog)
			if !ok {
				return
			}
			n++
			switch {
			case errv == nil || pi != nil:
				bad = fmt.Sprintf("declarations {%s}, CheckDecl rejects the one named bad: Analyze returns no error", strings.Join(ds, ","))
			case tr.desCalls != 0:
				bad = fmt.Sprintf("declarations {%s}, CheckDecl rejects the one named bad: symbols.CheckAndDesugar still receives {%s} (its row indexing relies on rows matching the arity)", strings.Join(ds, ","), sorted(tr.desugared))
			case len(tr.rules) != 0 || len(tr.rewrites) != 0:
				bad = fmt.Sprintf("declarations {%s}, CheckDecl rejects the one named bad: clauses are still rewritten/checked", strings.Join(ds, ","))
			}
			if bad != "" {
				break
			}
		}
		if bad == "" {
			for _, ds := range [][]string{{"d1", "d2", "d3"}, {"d1"}, {}} {
				pi, errv, ok := run(ruleDecl, ds, []string{"x1", "x2"}, prog)
				if !ok {
					return
				}
				n++
				want := append(append([]string(nil), ds...), "x1", "x2")
				switch {
				case errv != nil || pi == nil:
					bad = fmt.Sprintf("declarations {%s}, all accepted: Analyze fails", strings.Join(ds, ","))
				case sorted(tr.checked) != sorted(ds):
					bad = fmt.Sprintf("declarations {%s}: CheckDecl sees {%s}; every user declaration must be checked exactly once", strings.Join(ds, ","), sorted(tr.checked))
				case tr.desCalls != 1 || sorted(tr.desugared) != sorted(want):
					bad = fmt.Sprintf("declarations {%s} and extra predicates {x1,x2}: CheckAndDesugar called %d times with {%s}", strings.Join(ds, ","), tr.desCalls, sorted(tr.desugared))
				}
				if bad == "" {
					seenDes := false
					for _, st := range tr.order {
						if st == "CheckAndDesugar" {
							seenDes = true
						}
						if st == "CheckDecl" && seenDes {
							bad = fmt.Sprintf("declarations {%s}: a declaration is checked only after CheckAndDesugar ran", strings.Join(ds, ","))
						}
					}
				}
				if bad != "" {
					break
				}
			}
		}
		c.Check(bad == "", ruleDecl, f.Name, f.Decl.Pos(), fmt.Sprintf("%d analyzer configurations: a rejected declaration at every position stops Analyze before desugaring; accepted declarations are all checked, then desugared together with the extra predicates", n), bad)
	}

	// ---- clauses
	if ruleFlow != "" {
		bad := ""
		n := 0
		progs := [][]*ordabs.Rec{
			prog,
			{rule("q", "p", "e"), rule("p", "e"), fact("e"), fact("p")},
			{fact("e")},
			{rule("p", "e")},
		}
		for _, pr := range progs {
			pi, errv, ok := run(ruleFlow, []string{"d1"}, nil, pr)
			if !ok {
				return
			}
			n++
			var heads, wantChecked, wantRules, wantFacts []string
			for _, cl := range pr {
				h := symOf(cl)
				heads = append(heads, h)
				wantChecked = append(wantChecked, h+"_rw")
				if sl, _ := cl.Fields["Premises"].(*ordabs.Slice); sl == nil {
					wantFacts = append(wantFacts, h+"_rw_ev")
				} else {
					wantRules = append(wantRules, h+"_rw")
				}
			}
			desc := "program with heads [" + strings.Join(heads, " ") + "]"
			if errv != nil || pi == nil {
				bad = desc + ": Analyze fails although every stage accepts"
				break
			}
			var gotRules, gotFacts []string
			if sl, _ := pi.Fields["Rules"].(*ordabs.Slice); sl != nil && sl.Elems != nil {
				for _, r := range *sl.Elems {
					gotRules = append(gotRules, symOf(r))
				}
			}
			if sl, _ := pi.Fields["InitialFacts"].(*ordabs.Slice); sl != nil && sl.Elems != nil {
				for _, r := range *sl.Elems {
					gotFacts = append(gotFacts, symOf(r))
				}
			}
			allDes := true
			for _, b := range tr.rwDecls {
				allDes = allDes && b
			}
			switch {
			case strings.Join(tr.rewrites, " ") != strings.Join(heads, " "):
				bad = fmt.Sprintf("%s: RewriteClause sees [%s]; every clause must be rewritten once, in program order", desc, strings.Join(tr.rewrites, " "))
			case !allDes:
				bad = desc + ": RewriteClause is not given the declarations returned by symbols.CheckAndDesugar"
			case strings.Join(tr.rules, " ") != strings.Join(wantChecked, " "):
				bad = fmt.Sprintf("%s: CheckRule sees [%s], want the rewritten clauses [%s]: the clause that is checked is not the clause that is evaluated", desc, strings.Join(tr.rules, " "), strings.Join(wantChecked, " "))
			case strings.Join(gotRules, " ") != strings.Join(wantRules, " "):
				bad = fmt.Sprintf("%s: ProgramInfo.Rules has [%s], want the checked clauses [%s]", desc, strings.Join(gotRules, " "), strings.Join(wantRules, " "))
			case strings.Join(gotFacts, " ") != strings.Join(wantFacts, " "):
				bad = fmt.Sprintf("%s: ProgramInfo.InitialFacts has [%s], want the evaluated heads of the checked facts [%s]", desc, strings.Join(gotFacts, " "), strings.Join(wantFacts, " "))
			}
			if bad == "" {
				// per clause: rewritten before it is checked, checked before (a fact) is evaluated; the stages may be
				// interleaved per clause or run as separate passes
				seen := map[string]bool{}
				for _, st := range tr.order {
					if x, ok := strings.CutPrefix(st, "CheckRule:"); ok && !seen["RewriteClause:"+strings.TrimSuffix(x, "_rw")] {
						bad = desc + ": CheckRule sees " + x + " before that clause was rewritten"
					}
					if x, ok := strings.CutPrefix(st, "EvalAtom:"); ok && !seen["CheckRule:"+x] {
						bad = desc + ": the fact " + x + " is evaluated before it was checked"
					}
					seen[st] = true
				}
			}
			if bad != "" {
				break
			}
		}
		if bad == "" {
			// a rejected clause at each position
			for i := 0; i < 3 && bad == ""; i++ {
				pr := []*ordabs.Rec{fact("e"), rule("p", "e"), rule("q", "p")}
				if i == 0 {
					pr[0] = fact("rejected")
				} else {
					pr[i] = rule("rejected", "e")
				}
				pi, errv, ok := run(ruleFlow, nil, nil, pr)
				if !ok {
					return
				}
				n++
				if errv == nil || pi != nil {
					bad = fmt.Sprintf("clause %d of 3 is rejected by CheckRule: Analyze still returns a program", i+1)
				}
			}
		}
		c.Check(bad == "", ruleFlow, f.Name, f.Decl.Pos(), fmt.Sprintf("%d programs: each clause is rewritten against the desugared declarations, the rewritten clause is checked, and exactly the checked clauses reach Rules / InitialFacts; a rejected clause stops Analyze", n), bad)
	}
}
