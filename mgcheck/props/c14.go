package props

import (
	"fmt"
	"sort"
	"strings"

	"mgcheck/core"
	"mgcheck/ordabs"
)

func init() { register("C14", checkC14) }

const (
	rC14Disp = "ORDABS.operator-dispatch"
	rC14Op   = "ORDABS.operator-window"
	rC14Bind = "ORDABS.interval-binding"
	rC14Head = "ORDABS.head-time"
	rC14Flow = "ORDABS.head-interval-flow"
	rC14Rel  = "ORDABS.interval-relations"
	rC14Fld  = "TABLE.clause-field-completeness"
)

func checkC14(c *core.Ctx) {
	c.Rule(rC14Disp, "EvalTemporalLiteral, read from source and evaluated with the five evaluators replaced by recorders: each operator kind is answered by the evaluator of that kind, which receives the operator window and the literal's annotation; a literal without operator goes to the plain lookup; an unknown kind is an error", 6)
	c.Rule(rC14Op, "each operator evaluator, read from source and evaluated against a stub store that answers GetFactsDuring by closed-interval overlap and GetAllFacts by everything, over all small windows [d1<=d2], evaluation time 10 and fact intervals (finite, left-/right-unbounded): a diamond yields exactly the facts that hold at some instant of the window, a box exactly those whose interval covers it; the window lies d2..d1 before (minus) resp. d1..d2 after (plus) the evaluation time; 'now' resolves to the evaluation time; intervalContains(a,b) is a.start <= b.start && b.end <= a.end with -inf/+inf; an annotation with unbound variables enumerates every stored interval of a matching atom and binds both ends; a concrete annotation matches facts covering it and never disjoint ones", 6)
	c.Rule(rC14Bind, "bindIntervalVariables unifies the start variable with the fact's start time and the end variable with its end time", 1)
	c.Rule(rC14Head, "ResolveHeadTime maps timestamp, now, -inf/+inf and variables bound to number or time constants to the start and end of the result in that order, and fails on an unbound variable", 1)
	c.Rule(rC14Flow, "decided by evaluation of the source, not by its shape: oneStepEvalClause attaches to every derived fact the interval that ResolveHeadTime returns for the clause's own head annotation (stub premises, stub resolver); (*engine).eval over six abstract programs whose facts all live in the temporal store under one interval stores every derived fact with that interval and ends with the least model; evalStrata stores annotated initial facts with their own interval", 3)
	c.Rule(rC14Rel, "DecideTemporalPredicate, evaluated for all orderings of the four end points, equals the documented definition of each of the nine interval relations; converse pairs follow from that", 9)
	c.Rule(rC14Fld, "a function that builds a clause from another clause keeps its HeadTime, and one that rebuilds a temporal literal keeps Literal, Operator and Interval (a delta rule without them is a different rule)", 4)
	k := newTkit(c, rC14Op)
	if !k.ok {
		return
	}
	c14Dispatch(c)
	c14Operators(c, k)
	c14Bind(c, k)
	c14HeadTime(c, k)
	c14Flow(c)
	c14Relations(c, k)
	clauseFieldCompleteness(c, rC14Fld, []string{"engine.makeSingleDeltaRule", "engine.normalizeRule"}, []string{"HeadTime"})
	structRebuildCompleteness(c, rC14Fld, "ast.TemporalLiteral", []string{"engine.makeSingleDeltaRule", "engine.normalizeRule"})
	c14IntervalContains(c, k)
	c14Annotation(c, k)
	c.Rule("ORDABS.store-answers-by-interval-meaning", "the operators query the temporal store by range and by point: the interval tree's pruned searches and its rotations, evaluated at one node with symbolic children over all orderings, never skip a subtree that can hold a matching interval and keep the max-end augmentation (obligations shared with C13)", 10)
	c.Under("ORDABS.store-answers-by-interval-meaning", []string{rC13Query, rC13Rot}, func() {
		c13QueryPoint(c, k)
		c13QueryRange(c, k)
		c13Rotations(c, k)
	})
}

// c14IntervalContains: engine.intervalContains(a, b) == (a.start <= b.start && b.end <= a.end) over -inf/timestamp starts and timestamp/+inf ends.
func c14IntervalContains(c *core.Ctx, k *tkit) {
	f := c.MustFunc(rC14Op, "engine", "TemporalEvaluator.intervalContains")
	if f == nil {
		return
	}
	in := ordabs.New(c.Prog)
	te := &ordabs.Obj{Name: "te", Fields: map[string]ordabs.Value{}}
	bad, n, ok := "", 0, true
	ordabs.Tuples(4, 3, func(v []int64) bool {
		for mask := 0; mask < 16; mask++ {
			a := fixFact{k.TS, v[0], k.TS, v[1]}
			b := fixFact{k.TS, v[2], k.TS, v[3]}
			if mask&1 != 0 {
				a.st = k.NEG
			}
			if mask&2 != 0 {
				a.et = k.POS
			}
			if mask&4 != 0 {
				b.st = k.NEG
			}
			if mask&8 != 0 {
				b.et = k.POS
			}
			in.Reset()
			out, err := in.Call(f, te, []ordabs.Value{k.iv(a.st, a.s, a.et, a.e), k.iv(b.st, b.s, b.et, b.e)})
			if !runORD(c, rC14Op, f.Name, f, err) {
				ok = false
				return false
			}
			n++
			want := a.lo(k) <= b.lo(k) && b.hi(k) <= a.hi(k)
			if got, _ := out[0].(bool); got != want {
				bad = fmt.Sprintf("a=kinds(%d,%d)[%d,%d] b=kinds(%d,%d)[%d,%d]: intervalContains(a,b)=%v, but a covers b is %v (kind %d is -inf, %d is +inf)", a.st, a.et, a.s, a.e, b.st, b.et, b.s, b.e, got, want, k.NEG, k.POS)
				return false
			}
		}
		return true
	})
	if ok {
		c.Check(bad == "", rC14Op, f.Name, f.Decl.Pos(), fmt.Sprintf("equals a.start <= b.start && b.end <= a.end on %d kind/ordering combinations", n), bad)
	}
}

// c14Annotation: a premise p(X)@[...] without operator. Concrete annotation: facts whose interval covers it;
// variable annotation: every fact, bound to its interval; no annotation: facts valid at the evaluation time.
func c14Annotation(c *core.Ctx, k *tkit) {
	f := c.MustFunc(rC14Op, "engine", "TemporalEvaluator.evalTemporalAtomWithoutOperator")
	if f == nil {
		return
	}
	atomT := c.Prog.Named("ast", "Atom")
	tfT := c.Prog.Named("factstore", "TemporalFact")
	if atomT == nil || tfT == nil {
		c.Unres(rC14Op, f.Name, 0, "anchor-unresolved: ast.Atom / factstore.TemporalFact")
		return
	}
	const T = 10
	in := ordabs.New(c.Prog)
	in.InstallTimeStubs()
	var facts []fixFact
	mkTF := func(x fixFact) ordabs.Value {
		z, _ := ordabs.ZeroOf(tfT)
		r := z.(*ordabs.Rec)
		r.Fields["Interval"] = k.iv(x.st, x.s, x.et, x.e)
		return r
	}
	binds := 0
	in.Stubs["unionfind.UnifyTermsExtend"] = func(in *ordabs.Interp, _ ordabs.Value, args []ordabs.Value) ([]ordabs.Value, error) {
		if xs, _ := args[0].(*ordabs.Slice); xs != nil && len(*xs.Elems) == 1 {
			binds++
		}
		return []ordabs.Value{args[2], nil}, nil
	}
	in.Stubs["unionfind.UnionFind.Get"] = func(in *ordabs.Interp, _ ordabs.Value, args []ordabs.Value) ([]ordabs.Value, error) {
		return []ordabs.Value{args[0]}, nil // every variable is unbound
	}
	in.Stubs["fmt.Errorf"] = func(in *ordabs.Interp, _ ordabs.Value, _ []ordabs.Value) ([]ordabs.Value, error) {
		return []ordabs.Value{ordabs.ErrVal{Tag: "err"}}, nil
	}
	in.Stubs["factstore.ReadOnlyTemporalFactStore.GetFactsDuring"] = func(in *ordabs.Interp, _ ordabs.Value, args []ordabs.Value) ([]ordabs.Value, error) {
		q, ok := recInterval(k, args[1])
		if !ok {
			return nil, &ordabs.Unsupported{What: "GetFactsDuring called with a non-interval"}
		}
		for _, x := range facts {
			if x.lo(k) <= q.hi(k) && q.lo(k) <= x.hi(k) {
				if out, err := in.CallValue(args[2], []ordabs.Value{mkTF(x)}); err != nil {
					return nil, err
				} else if out[0] != nil {
					return out, nil
				}
			}
		}
		return []ordabs.Value{nil}, nil
	}
	in.Stubs["factstore.ReadOnlyTemporalFactStore.GetAllFacts"] = func(in *ordabs.Interp, _ ordabs.Value, args []ordabs.Value) ([]ordabs.Value, error) {
		for _, x := range facts {
			if out, err := in.CallValue(args[1], []ordabs.Value{mkTF(x)}); err != nil {
				return nil, err
			} else if out[0] != nil {
				return out, nil
			}
		}
		return []ordabs.Value{nil}, nil
	}
	// Interval.Contains(t time.Time) is interpreted from source; it needs t.UnixNano (stubbed above).
	te := &ordabs.Obj{Name: "te", Fields: map[string]ordabs.Value{"temporalStore": &ordabs.Obj{Name: "store", Opaque: true}, "evaluationTime": ordabs.TimeVal{NS: T}}}
	az, _ := ordabs.ZeroOf(atomT)
	subst := &ordabs.Rec{Fields: map[string]ordabs.Value{}, T: "unionfind.UnionFind"}
	run := func(ann *ordabs.Rec, x fixFact) (int, bool) {
		facts = []fixFact{x}
		binds = 0
		var ap ordabs.Value = (*ordabs.Obj)(nil)
		if ann != nil {
			ap = &ordabs.Obj{Name: "annotation", Fields: ann.Fields}
		}
		in.Reset()
		out, err := in.Call(f, te, []ordabs.Value{az, ap, subst})
		if !runORD(c, rC14Op, f.Name, f, err) {
			return 0, false
		}
		if out[1] != nil {
			return -1, true
		}
		sl, _ := out[0].(*ordabs.Slice)
		if sl == nil {
			return 0, true
		}
		return len(*sl.Elems), true
	}
	var fx []fixFact
	for s := int64(7); s <= 13; s++ {
		for e := s; e <= 13; e++ {
			fx = append(fx, fixFact{k.TS, s, k.TS, e})
		}
		fx = append(fx, fixFact{k.NEG, 0, k.TS, s}, fixFact{k.TS, s, k.POS, 0})
	}
	fx = append(fx, fixFact{k.NEG, 0, k.POS, 0})
	bad, n := "", 0
	for _, x := range fx {
		// variable annotation @[S,E]: every fact, two bindings
		va := k.iv(k.VAR, 0, k.VAR, 0)
		va.Fields["Start"].(*ordabs.Rec).Fields["Variable"].(*ordabs.Rec).Fields["Symbol"] = "S"
		va.Fields["End"].(*ordabs.Rec).Fields["Variable"].(*ordabs.Rec).Fields["Symbol"] = "E"
		got, ok := run(va, x)
		if !ok {
			return
		}
		n++
		if (got != 1 || binds != 2) && bad == "" {
			bad = fmt.Sprintf("annotation @[S,E] with unbound S,E, fact kinds(%d,%d)[%d,%d]: %d solution(s) and %d interval bindings, want 1 and 2 (it enumerates the stored intervals)", x.st, x.et, x.s, x.e, got, binds)
		}
		// concrete annotations, incl. half-unbounded ones
		for _, q := range []fixFact{{k.TS, 9, k.TS, 11}, {k.TS, 10, k.TS, 10}, {k.NEG, 0, k.TS, 9}, {k.TS, 11, k.POS, 0}} {
			got, ok = run(k.iv(q.st, q.s, q.et, q.e), x)
			if !ok {
				return
			}
			n++
			covers := x.lo(k) <= q.lo(k) && q.hi(k) <= x.hi(k)
			disjoint := !(x.lo(k) <= q.hi(k) && q.lo(k) <= x.hi(k))
			// The documentation does not say whether a concrete annotation means "covers" or "intersects";
			// both readings agree on these two cases, which is all that is required here.
			if ((covers && got != 1) || (disjoint && got != 0)) && bad == "" {
				bad = fmt.Sprintf("annotation kinds(%d,%d)[%d,%d], fact kinds(%d,%d)[%d,%d]: %d solution(s); a fact covering the annotation must match and a disjoint one must not", q.st, q.et, q.s, q.e, x.st, x.et, x.s, x.e, got)
			}
		}
	}
	c.Check(bad == "", rC14Op, f.Name, f.Decl.Pos(), fmt.Sprintf("agrees with the annotation semantics on %d annotation/fact combinations", n), bad)
}

func b2i(b bool) int {
	if b {
		return 1
	}
	return 0
}

func c14Dispatch(c *core.Ctx) {
	// decided by evaluation: EvalTemporalLiteral is run with the five evaluators replaced by recorders
	f := c.MustFunc(rC14Disp, "engine", "TemporalEvaluator.EvalTemporalLiteral")
	if f == nil {
		return
	}
	k := &astKit{c: c, ok: true}
	in := ordabs.New(c.Prog)
	in.Stubs["functional.EvalAtom"] = func(in *ordabs.Interp, _ ordabs.Value, a []ordabs.Value) ([]ordabs.Value, error) {
		return []ordabs.Value{a[0], nil}, nil
	}
	var called []string
	rec := func(name string, nargs int) {
		in.Stubs["engine.TemporalEvaluator."+name] = func(in *ordabs.Interp, _ ordabs.Value, a []ordabs.Value) ([]ordabs.Value, error) {
			desc := name
			for _, x := range a {
				switch v := x.(type) {
				case *ordabs.Rec:
					if id, ok := v.Fields["__id"]; ok {
						desc += " " + fmt.Sprint(id)
					}
				case *ordabs.Obj:
					if v != nil {
						if id, ok := v.Fields["__id"]; ok {
							desc += " " + fmt.Sprint(id)
						}
					}
				}
			}
			called = append(called, desc)
			return []ordabs.Value{(*ordabs.Slice)(nil), nil}, nil
		}
	}
	for _, n := range []string{"evalDiamondMinus", "evalBoxMinus", "evalDiamondPlus", "evalBoxPlus", "evalTemporalAtomWithoutOperator"} {
		rec(n, 4)
	}
	te := &ordabs.Obj{Name: "te", Fields: map[string]ordabs.Value{}, T: "engine.TemporalEvaluator"}
	subst := &ordabs.Rec{Fields: map[string]ordabs.Value{}, T: "unionfind.UnionFind"}
	mk := func(opKind string) (*ordabs.Rec, bool) {
		tl := k.tl(k.atom("q", 1), opKind != "", true)
		if iv, _ := tl.Fields["Interval"].(*ordabs.Obj); iv != nil {
			iv.Fields["__id"] = "annotation"
		}
		if opKind != "" {
			v, ok := constInt(c.Prog, "ast", opKind)
			if !ok {
				return nil, false
			}
			op, _ := tl.Fields["Operator"].(*ordabs.Obj)
			if op == nil {
				return nil, false
			}
			op.Fields["Type"] = v
			if w, _ := op.Fields["Interval"].(*ordabs.Rec); w != nil {
				w.Fields["__id"] = "window"
			}
		}
		return tl, true
	}
	want := map[string]string{"DiamondMinus": "evalDiamondMinus", "BoxMinus": "evalBoxMinus", "DiamondPlus": "evalDiamondPlus", "BoxPlus": "evalBoxPlus", "": "evalTemporalAtomWithoutOperator"}
	for _, kind := range []string{"DiamondMinus", "BoxMinus", "DiamondPlus", "BoxPlus", ""} {
		label := kind
		if label == "" {
			label = "no-operator"
		}
		tl, ok := mk(kind)
		if !ok || !k.ok {
			c.Unres(rC14Disp, f.Name+":"+label, f.Decl.Pos(), "anchor-unresolved: operator kind ast.%s / temporal literal fields", kind)
			continue
		}
		called = nil
		in.Reset()
		out, err := in.Call(f, te, []ordabs.Value{tl, subst})
		if !runORD(c, rC14Disp, f.Name+":"+label, f, err) {
			continue
		}
		got := strings.Join(called, "; ")
		wantCall := want[kind]
		if kind != "" {
			wantCall += " window annotation"
		} else {
			wantCall += " annotation"
		}
		c.Check(got == wantCall && out[1] == nil, rC14Disp, f.Name+":"+label, f.Decl.Pos(), "evaluated by "+want[kind]+" with the operator window and the annotation", fmt.Sprintf("a literal with operator kind %q is evaluated by [%s], want [%s]", kind, got, wantCall))
	}
	// an operator kind that does not exist is an error, not an empty answer
	if tl, ok := mk("DiamondMinus"); ok && k.ok {
		tl.Fields["Operator"].(*ordabs.Obj).Fields["Type"] = int64(99)
		called = nil
		in.Reset()
		out, err := in.Call(f, te, []ordabs.Value{tl, subst})
		if runORD(c, rC14Disp, f.Name+":default", f, err) {
			_, isErr := out[1].(ordabs.ErrVal)
			c.Check(isErr && len(called) == 0, rC14Disp, f.Name+":default", f.Decl.Pos(), "an unknown operator kind is an error", "an unknown operator kind does not produce an error: such a literal would evaluate to no solutions silently")
		}
	}
}

type fixFact struct {
	st, s, et, e int64
}

func (x fixFact) lo(k *tkit) int64 {
	if x.st == k.NEG {
		return k.MinI
	}
	return x.s
}
func (x fixFact) hi(k *tkit) int64 {
	if x.et == k.POS {
		return k.MaxI
	}
	return x.e
}

func recInterval(k *tkit, v ordabs.Value) (fixFact, bool) {
	r, ok := v.(*ordabs.Rec)
	if !ok {
		return fixFact{}, false
	}
	sb, ok1 := r.Fields["Start"].(*ordabs.Rec)
	eb, ok2 := r.Fields["End"].(*ordabs.Rec)
	if !ok1 || !ok2 {
		return fixFact{}, false
	}
	return fixFact{sb.Fields["Type"].(int64), sb.Fields["Timestamp"].(int64), eb.Fields["Type"].(int64), eb.Fields["Timestamp"].(int64)}, true
}

func c14Operators(c *core.Ctx, k *tkit) {
	atomT := c.Prog.Named("ast", "Atom")
	tfT := c.Prog.Named("factstore", "TemporalFact")
	if atomT == nil || tfT == nil {
		c.Unres(rC14Op, "ast.Atom/factstore.TemporalFact", 0, "anchor-unresolved: types not found")
		return
	}
	const T = 10
	type opCase struct {
		fn     string
		box    bool
		future bool
	}
	for _, oc := range []opCase{{"evalDiamondMinus", false, false}, {"evalBoxMinus", true, false}, {"evalDiamondPlus", false, true}, {"evalBoxPlus", true, true}} {
		f := c.MustFunc(rC14Op, "engine", "TemporalEvaluator."+oc.fn)
		if f == nil {
			continue
		}
		in := ordabs.New(c.Prog)
		in.InstallTimeStubs()
		var facts []fixFact
		mkTF := func(x fixFact) ordabs.Value {
			z, _ := ordabs.ZeroOf(tfT)
			r := z.(*ordabs.Rec)
			r.Fields["Interval"] = k.iv(x.st, x.s, x.et, x.e)
			return r
		}
		var queried []fixFact
		in.Stubs["unionfind.UnifyTermsExtend"] = func(in *ordabs.Interp, _ ordabs.Value, args []ordabs.Value) ([]ordabs.Value, error) {
			return []ordabs.Value{args[2], nil}, nil
		}
		in.Stubs["factstore.ReadOnlyTemporalFactStore.GetFactsDuring"] = func(in *ordabs.Interp, _ ordabs.Value, args []ordabs.Value) ([]ordabs.Value, error) {
			q, ok := recInterval(k, args[1])
			if !ok {
				return nil, &ordabs.Unsupported{What: "GetFactsDuring called with a non-interval"}
			}
			queried = append(queried, q)
			for _, x := range facts {
				if x.lo(k) <= q.hi(k) && q.lo(k) <= x.hi(k) {
					if out, err := in.CallValue(args[2], []ordabs.Value{mkTF(x)}); err != nil {
						return nil, err
					} else if out[0] != nil {
						return out, nil
					}
				}
			}
			return []ordabs.Value{nil}, nil
		}
		in.Stubs["factstore.ReadOnlyTemporalFactStore.GetFactsAt"] = func(in *ordabs.Interp, _ ordabs.Value, args []ordabs.Value) ([]ordabs.Value, error) {
			t, isT := args[1].(ordabs.TimeVal)
			if !isT {
				return nil, &ordabs.Unsupported{What: "GetFactsAt called with a non-time"}
			}
			queried = append(queried, fixFact{k.TS, t.NS, k.TS, t.NS})
			for _, x := range facts {
				if x.lo(k) <= t.NS && t.NS <= x.hi(k) {
					if out, err := in.CallValue(args[2], []ordabs.Value{mkTF(x)}); err != nil {
						return nil, err
					} else if out[0] != nil {
						return out, nil
					}
				}
			}
			return []ordabs.Value{nil}, nil
		}
		in.Stubs["factstore.ReadOnlyTemporalFactStore.GetAllFacts"] = func(in *ordabs.Interp, _ ordabs.Value, args []ordabs.Value) ([]ordabs.Value, error) {
			for _, x := range facts {
				if out, err := in.CallValue(args[1], []ordabs.Value{mkTF(x)}); err != nil {
					return nil, err
				} else if out[0] != nil {
					return out, nil
				}
			}
			return []ordabs.Value{nil}, nil
		}
		te := &ordabs.Obj{Name: "te", Fields: map[string]ordabs.Value{"temporalStore": &ordabs.Obj{Name: "store", Opaque: true}, "evaluationTime": ordabs.TimeVal{NS: T}}}
		az, _ := ordabs.ZeroOf(atomT)
		subst := &ordabs.Rec{Fields: map[string]ordabs.Value{}, T: "unionfind.UnionFind"}
		sem := &cond{name: "window-semantics"}
		now := &cond{name: "now-is-evaluation-time"}
		n, ok := 0, true
		run := func(op *ordabs.Rec, x fixFact) (int, bool) {
			facts = []fixFact{x}
			queried = nil
			in.Reset()
			out, err := in.Call(f, te, []ordabs.Value{az, op, (*ordabs.Obj)(nil), subst})
			if !runORD(c, rC14Op, f.Name, f, err) {
				ok = false
				return 0, false
			}
			n++
			if out[1] != nil {
				return -1, true
			}
			sl, _ := out[0].(*ordabs.Slice)
			if sl == nil {
				return 0, true
			}
			return len(*sl.Elems), true
		}
		expect := func(lo, hi int64, x fixFact) int {
			if oc.box {
				if x.lo(k) <= lo && hi <= x.hi(k) {
					return 1
				}
				return 0
			}
			if x.lo(k) <= hi && lo <= x.hi(k) {
				return 1
			}
			return 0
		}
		for d1 := int64(0); d1 <= 3 && ok; d1++ {
			for d2 := d1; d2 <= 3 && ok; d2++ {
				lo, hi := int64(T-d2), int64(T-d1)
				if oc.future {
					lo, hi = T+d1, T+d2
				}
				var fx []fixFact
				for s := int64(5); s <= 15; s++ {
					for e := s; e <= 15; e++ {
						fx = append(fx, fixFact{k.TS, s, k.TS, e})
					}
					fx = append(fx, fixFact{k.NEG, 0, k.TS, s}, fixFact{k.TS, s, k.POS, 0})
				}
				fx = append(fx, fixFact{k.NEG, 0, k.POS, 0})
				for _, x := range fx {
					got, cont := run(k.iv(k.DUR, d1, k.DUR, d2), x)
					if !cont {
						break
					}
					if want := expect(lo, hi, x); got != want && sem.bad == "" {
						sem.bad = fmt.Sprintf("window [%d,%d] at evaluation time %d means instants %d..%d; fact interval kinds(%d,%d) [%d,%d]: %d solution(s), want %d (queried store with %v)", d1, d2, T, lo, hi, x.st, x.et, x.s, x.e, got, want, queried)
					}
					if d1 == 0 {
						got2, cont := run(k.iv(k.NOW, 0, k.DUR, d2), x)
						if !cont {
							break
						}
						if got2 != got && now.bad == "" {
							now.bad = fmt.Sprintf("window [now,%d] gives %d solution(s) but [0,%d] gives %d for fact [%d,%d]", d2, got2, d2, got, x.s, x.e)
						}
					}
				}
			}
		}
		// with an annotation @[S,E] on the literal: the variables are bound from the matching fact's own interval
		ann := &cond{name: "annotation-binds-fact-interval"}
		if ok {
			annIv := k.iv(k.TS, 0, k.TS, 0)
			annIv.Fields["__id"] = "annotation"
			var bound []string
			in.Stubs["engine.TemporalEvaluator.bindIntervalVariables"] = func(in *ordabs.Interp, _ ordabs.Value, args []ordabs.Value) ([]ordabs.Value, error) {
				q, _ := args[0].(*ordabs.Rec)
				fi, okf := recInterval(k, args[1])
				id := "?"
				if q != nil {
					id = fmt.Sprint(q.Fields["__id"])
				}
				if !okf {
					return nil, &ordabs.Unsupported{What: "bindIntervalVariables called with a non-interval"}
				}
				bound = append(bound, fmt.Sprintf("%s<-[%d,%d]", id, fi.s, fi.e))
				return []ordabs.Value{args[2]}, nil
			}
			annPtr := &ordabs.Obj{Name: "annotation", Fields: annIv.Fields, T: "ast.Interval"}
			for _, x := range []fixFact{{k.TS, 5, k.TS, 15}, {k.TS, 7, k.TS, 14}} {
				facts = []fixFact{x}
				bound = nil
				in.Reset()
				out, err := in.Call(f, te, []ordabs.Value{az, k.iv(k.DUR, 1, k.DUR, 2), annPtr, subst})
				if !runORD(c, rC14Op, f.Name, f, err) {
					ok = false
					break
				}
				sl, _ := out[0].(*ordabs.Slice)
				nsol := 0
				if sl != nil {
					nsol = len(*sl.Elems)
				}
				want := fmt.Sprintf("annotation<-[%d,%d]", x.s, x.e)
				if (nsol != 1 || len(bound) != 1 || bound[0] != want) && ann.bad == "" {
					ann.bad = fmt.Sprintf("window [1,2] with an annotation @[S,E] over the fact interval [%d,%d]: %d solution(s), interval variables bound from %v, want one solution bound from %s (the stored interval of the matching fact, not the window)", x.s, x.e, nsol, bound, want)
				}
			}
			delete(in.Stubs, "engine.TemporalEvaluator.bindIntervalVariables")
		}
		if ok {
			c.Check(sem.bad == "" && now.bad == "" && ann.bad == "", rC14Op, f.Name, f.Decl.Pos(), fmt.Sprintf("agrees with the documented meaning on %d window/fact combinations; annotation variables are bound from the matching fact's interval", n), strings.TrimSpace(sem.bad+" "+now.bad+" "+ann.bad))
		}
	}
}

func c14Bind(c *core.Ctx, k *tkit) {
	f := c.MustFunc(rC14Bind, "engine", "TemporalEvaluator.bindIntervalVariables")
	if f == nil {
		return
	}
	in := ordabs.New(c.Prog)
	var pairs []string
	in.Stubs["unionfind.UnifyTermsExtend"] = func(in *ordabs.Interp, _ ordabs.Value, args []ordabs.Value) ([]ordabs.Value, error) {
		xs, _ := args[0].(*ordabs.Slice)
		ys, _ := args[1].(*ordabs.Slice)
		if xs == nil || ys == nil || len(*xs.Elems) != 1 || len(*ys.Elems) != 1 {
			return nil, &ordabs.Unsupported{What: "unexpected unification shape"}
		}
		v, _ := (*xs.Elems)[0].(*ordabs.Rec)
		cst, _ := (*ys.Elems)[0].(*ordabs.Rec)
		if v == nil || cst == nil {
			return nil, &ordabs.Unsupported{What: "unexpected unification operands"}
		}
		pairs = append(pairs, fmt.Sprintf("%v=%v", v.Fields["Symbol"], cst.Fields["NumValue"]))
		return []ordabs.Value{args[2], nil}, nil
	}
	q := k.iv(k.VAR, 0, k.VAR, 0)
	q.Fields["Start"].(*ordabs.Rec).Fields["Variable"].(*ordabs.Rec).Fields["Symbol"] = "S"
	q.Fields["End"].(*ordabs.Rec).Fields["Variable"].(*ordabs.Rec).Fields["Symbol"] = "E"
	subst := &ordabs.Rec{Fields: map[string]ordabs.Value{}, T: "unionfind.UnionFind"}
	te := &ordabs.Obj{Name: "te", Fields: map[string]ordabs.Value{}}
	_, err := in.Call(f, te, []ordabs.Value{q, k.tsiv(3, 8), subst})
	if !runORD(c, rC14Bind, f.Name, f, err) {
		return
	}
	got := strings.Join(pairs, " ")
	bad := ""
	if got != "S=3 E=8" {
		bad = "for the annotation @[S,E] and a fact valid [3,8] the bindings are \"" + got + "\", want \"S=3 E=8\""
	}
	// unbounded facts: the variables receive the instants the store itself uses for -inf / +inf
	// (factstore.GetStartTime / GetEndTime, interpreted), not a raw zero timestamp
	const lo, hi = int64(-1 << 63), int64(1<<63 - 1)
	for _, tc := range []struct {
		fact *ordabs.Rec
		want string
		what string
	}{
		{k.iv(k.NEG, 0, k.TS, 8), fmt.Sprintf("S=%d E=8", lo), "a fact valid from -inf to 8"},
		{k.iv(k.TS, 3, k.POS, 0), fmt.Sprintf("S=3 E=%d", hi), "a fact valid from 3 to +inf"},
		{k.iv(k.NEG, 0, k.POS, 0), fmt.Sprintf("S=%d E=%d", lo, hi), "an eternal fact"},
	} {
		pairs = nil
		in.Reset()
		if _, err := in.Call(f, te, []ordabs.Value{q, tc.fact, subst}); !runORD(c, rC14Bind, f.Name, f, err) {
			return
		}
		if g := strings.Join(pairs, " "); g != tc.want && bad == "" {
			bad = fmt.Sprintf("for the annotation @[S,E] and %s the bindings are \"%s\", want \"%s\" (an unbounded end is the earliest / latest instant, not 1970-01-01)", tc.what, g, tc.want)
		}
	}
	c.Check(bad == "", rC14Bind, f.Name, f.Decl.Pos(), "start and end variables receive the fact's own bounds, unbounded ones included", bad)
}

func c14HeadTime(c *core.Ctx, k *tkit) {
	f := c.MustFunc(rC14Head, "engine", "ResolveHeadTime")
	if f == nil {
		return
	}
	in := ordabs.New(c.Prog)
	in.InstallTimeStubs()
	cT := c.Prog.Named("ast", "Constant")
	numT, ok1 := constInt(c.Prog, "ast", "NumberType")
	timeT, ok2 := constInt(c.Prog, "ast", "TimeType")
	if cT == nil || !ok1 || !ok2 {
		c.Unres(rC14Head, "ast.Constant", 0, "anchor-unresolved: ast.Constant / NumberType / TimeType")
		return
	}
	mkConst := func(typ, n int64) ordabs.Value {
		z, _ := ordabs.ZeroOf(cT)
		r := z.(*ordabs.Rec)
		r.Fields["Type"], r.Fields["NumValue"] = typ, n
		return r
	}
	bindings := map[string]ordabs.Value{}
	in.Stubs["unionfind.UnionFind.Get"] = func(in *ordabs.Interp, _ ordabs.Value, args []ordabs.Value) ([]ordabs.Value, error) {
		v, _ := args[0].(*ordabs.Rec)
		if v == nil {
			return nil, &ordabs.Unsupported{What: "Get of non-variable"}
		}
		if b, ok := bindings[v.Fields["Symbol"].(string)]; ok {
			return []ordabs.Value{b}, nil
		}
		return []ordabs.Value{v}, nil
	}
	in.Stubs["fmt.Errorf"] = func(in *ordabs.Interp, _ ordabs.Value, _ []ordabs.Value) ([]ordabs.Value, error) {
		return []ordabs.Value{ordabs.ErrVal{Tag: "err"}}, nil
	}
	subst := &ordabs.Rec{Fields: map[string]ordabs.Value{}, T: "unionfind.UnionFind"}
	type tc struct {
		name       string
		st, s      int64
		et, e      int64
		sv, ev     string
		wantErr    bool
		ws, we     int64
		wst, wet   int64
	}
	bindings["S"], bindings["E"] = mkConst(numT, 4), mkConst(timeT, 9)
	cases := []tc{
		{"timestamps", k.TS, 2, k.TS, 7, "", "", false, 2, 7, k.TS, k.TS},
		{"now as end", k.TS, 2, k.NOW, 0, "", "", false, 2, 10, k.TS, k.TS},
		{"now as start", k.NOW, 0, k.POS, 0, "", "", false, 10, 0, k.TS, k.POS},
		{"variables (number, time)", k.VAR, 0, k.VAR, 0, "S", "E", false, 4, 9, k.TS, k.TS},
		{"unbounded both", k.NEG, 0, k.POS, 0, "", "", false, 0, 0, k.NEG, k.POS},
		{"unbound variable", k.VAR, 0, k.TS, 5, "U", "", true, 0, 0, 0, 0},
	}
	bad := ""
	for _, t := range cases {
		h := k.iv(t.st, t.s, t.et, t.e)
		h.Fields["Start"].(*ordabs.Rec).Fields["Variable"].(*ordabs.Rec).Fields["Symbol"] = t.sv
		h.Fields["End"].(*ordabs.Rec).Fields["Variable"].(*ordabs.Rec).Fields["Symbol"] = t.ev
		hp := &ordabs.Obj{Name: "headTime", Fields: h.Fields}
		in.Reset()
		out, err := in.Call(f, nil, []ordabs.Value{hp, subst, ordabs.TimeVal{NS: 10}})
		if !runORD(c, rC14Head, f.Name, f, err) {
			return
		}
		_, isErr := out[1].(ordabs.ErrVal)
		if t.wantErr {
			if !isErr && bad == "" {
				bad = t.name + ": expected an error"
			}
			continue
		}
		o, _ := out[0].(*ordabs.Obj)
		if isErr || o == nil {
			if bad == "" {
				bad = t.name + ": unexpected error or nil interval"
			}
			continue
		}
		got, _ := recInterval(k, &ordabs.Rec{Fields: o.Fields})
		okc := got.st == t.wst && got.et == t.wet && (t.wst != k.TS || got.s == t.ws) && (t.wet != k.TS || got.e == t.we)
		if !okc && bad == "" {
			bad = fmt.Sprintf("%s: resolved to kinds(%d,%d) [%d,%d], want kinds(%d,%d) [%d,%d]", t.name, got.st, got.et, got.s, got.e, t.wst, t.wet, t.ws, t.we)
		}
	}
	c.Check(bad == "", rC14Head, f.Name, f.Decl.Pos(), fmt.Sprintf("%d bound-kind cases resolve as documented (evaluation time 10)", len(cases)), bad)
	// nil head time
	out, err := in.Call(f, nil, []ordabs.Value{(*ordabs.Obj)(nil), subst, ordabs.TimeVal{NS: 10}})
	if err == nil {
		if o, _ := out[0].(*ordabs.Obj); o != nil || out[1] != nil {
			c.Bad(rC14Head, f.Name+":nil", f.Decl.Pos(), "a clause without head annotation must resolve to (nil, nil)")
		}
	}
}

// c14Flow decides the path of a rule-head interval by evaluation, not by the shape of the code:
// oneStepEvalClause attaches to every derived fact the interval ResolveHeadTime returns for the clause's
// own head annotation; the fixpoint loop stores each derived temporal fact with that interval (temporal
// mode of the engine fixture); evalStrata stores annotated initial facts with their own interval.
func c14Flow(c *core.Ctx) {
	if f := c.MustFunc(rC14Flow, "engine", "engine.oneStepEvalClause"); f != nil {
		k := &astKit{c: c, ok: true}
		in := ordabs.New(c.Prog)
		in.InstallTimeStubs()
		nSubst := 0
		subst := func() ordabs.Value {
			nSubst++
			return &ordabs.Rec{Fields: map[string]ordabs.Value{"solution#": int64(nSubst)}, T: "unionfind.UnionFind"}
		}
		in.Stubs["unionfind.New"] = func(in *ordabs.Interp, _ ordabs.Value, _ []ordabs.Value) ([]ordabs.Value, error) {
			return []ordabs.Value{subst()}, nil
		}
		fan := 2
		in.Stubs["engine.engine.oneStepEvalPremise"] = func(in *ordabs.Interp, _ ordabs.Value, _ []ordabs.Value) ([]ordabs.Value, error) {
			var out []ordabs.Value
			for i := 0; i < fan; i++ {
				out = append(out, subst())
			}
			return []ordabs.Value{&ordabs.Slice{Elems: &out}, nil}, nil
		}
		in.Stubs["functional.EvalAtom"] = func(in *ordabs.Interp, _ ordabs.Value, args []ordabs.Value) ([]ordabs.Value, error) {
			return []ordabs.Value{args[0], nil}, nil
		}
		in.Stubs["ast.Atom.String"] = func(in *ordabs.Interp, _ ordabs.Value, _ []ordabs.Value) ([]ordabs.Value, error) {
			return []ordabs.Value{"<atom>"}, nil
		}
		ht := &ordabs.Obj{Name: "head-time", Fields: k.zero("ast", "Interval").Fields, T: "ast.Interval"}
		resolved := &ordabs.Obj{Name: "resolved", Fields: k.zero("ast", "Interval").Fields, T: "ast.Interval"}
		failResolve := false
		perSolution := false
		sawArg := ""
		in.Stubs["engine.ResolveHeadTime"] = func(in *ordabs.Interp, _ ordabs.Value, a []ordabs.Value) ([]ordabs.Value, error) {
			sawArg = objName(a[0])
			if failResolve {
				return []ordabs.Value{(*ordabs.Obj)(nil), ordabs.ErrVal{Tag: "unresolvable"}}, nil
			}
			if perSolution {
				// the annotation's variables take their values from the solution: one interval per solution
				id := int64(-1)
				if sr, ok := a[1].(*ordabs.Rec); ok {
					id, _ = sr.Fields["solution#"].(int64)
				}
				return []ordabs.Value{&ordabs.Obj{Name: fmt.Sprintf("resolved-for-solution-%d", id), Fields: k.zero("ast", "Interval").Fields, T: "ast.Interval"}, nil}, nil
			}
			return []ordabs.Value{resolved, nil}, nil
		}
		mk := func(withHT bool) (*ordabs.Obj, *ordabs.Rec) {
			opts := k.zero("engine", "EvalOptions")
			eng := k.zero("engine", "engine")
			eng.Fields["options"] = opts
			eng.Fields["predToDecl"] = ordabs.NewMap()
			eng.Fields["store"] = &ordabs.Obj{Name: "store", Opaque: true}
			eng.Fields["evalTime"] = ordabs.TimeVal{NS: 10}
			cl := k.zero("ast", "Clause")
			cl.Fields["Head"] = k.atom("p", 1)
			prem := []ordabs.Value{k.atom("q", 1)}
			cl.Fields["Premises"] = &ordabs.Slice{Elems: &prem}
			if withHT {
				cl.Fields["HeadTime"] = ht
			}
			return &ordabs.Obj{Name: "engine", Fields: eng.Fields}, cl
		}
		bad := ""
		if k.ok {
			for _, withHT := range []bool{true, false} {
				eng, cl := mk(withHT)
				in.Reset()
				sawArg = ""
				out, err := in.Call(f, eng, []ordabs.Value{cl})
				if !runORD(c, rC14Flow, f.Name, f, err) {
					return
				}
				sl, _ := out[0].(*ordabs.Slice)
				n := 0
				if sl != nil {
					for _, d := range *sl.Elems {
						n++
						iv, _ := d.(*ordabs.Rec).Fields["Interval"].(*ordabs.Obj)
						if withHT && iv != resolved && bad == "" {
							bad = fmt.Sprintf("a rule with a head annotation derives a fact whose interval is %s, not the one resolved from the annotation", objName(iv))
						}
						if !withHT && iv != nil && bad == "" {
							bad = "a rule without head annotation derives a fact with an interval"
						}
					}
				}
				if n != fan && bad == "" {
					bad = fmt.Sprintf("%d solutions give %d derived facts", fan, n)
				}
				if withHT && sawArg != "head-time" && bad == "" {
					bad = "ResolveHeadTime is called with " + sawArg + ", not with the clause's own head annotation"
				}
			}
			// the annotation is resolved for every solution with that solution, whatever the kinds of its bounds
			perSolution = true
			vb, hasVB := constInt(c.Prog, "ast", "VariableBound")
			if !hasVB {
				c.Unres(rC14Flow, "ast.VariableBound", 0, "anchor-unresolved")
			}
			for st := int64(0); st < 5 && bad == ""; st++ {
				for en := int64(0); en < 5 && bad == ""; en++ {
					eng, cl := mk(true)
					hx := k.zero("ast", "Interval")
					if sb, ok := hx.Fields["Start"].(*ordabs.Rec); ok {
						sb.Fields["Type"] = st
					}
					if eb, ok := hx.Fields["End"].(*ordabs.Rec); ok {
						eb.Fields["Type"] = en
					}
					cl.Fields["HeadTime"] = &ordabs.Obj{Name: "head-time", Fields: hx.Fields, T: "ast.Interval"}
					in.Reset()
					nSubst = 0
					out, err := in.Call(f, eng, []ordabs.Value{cl})
					if !runORD(c, rC14Flow, f.Name, f, err) {
						return
					}
					var got []string
					if sl, _ := out[0].(*ordabs.Slice); sl != nil && sl.Elems != nil {
						for _, d := range *sl.Elems {
							iv, _ := d.(*ordabs.Rec).Fields["Interval"].(*ordabs.Obj)
							got = append(got, objName(iv))
						}
					}
					sort.Strings(got)
					// solution numbers: the initial substitution is #1, the premise yields #2 and #3
					// an annotation without variables may be resolved once; one with a variable bound must be resolved per solution
					needDistinct := hasVB && (st == vb || en == vb)
					if len(got) != fan || needDistinct && got[0] == got[1] || !strings.HasPrefix(got[0], "resolved-for-solution-") || !strings.HasPrefix(got[1], "resolved-for-solution-") {
						bad = fmt.Sprintf("head annotation with bound kinds (%d,%d) and two body solutions: the derived facts carry %v; each must carry the interval resolved with its own solution (an end bound that is a variable differs from solution to solution)", st, en, got)
					}
				}
			}
			perSolution = false
			failResolve = true
			eng, cl := mk(true)
			in.Reset()
			out, err := in.Call(f, eng, []ordabs.Value{cl})
			if !runORD(c, rC14Flow, f.Name, f, err) {
				return
			}
			if _, isErr := out[1].(ordabs.ErrVal); !isErr && bad == "" {
				bad = "a head annotation that cannot be resolved does not make the rule evaluation fail"
			}
		}
		c.Check(bad == "" && k.ok, rC14Flow, f.Name, f.Decl.Pos(), "every derived fact carries the interval resolved from the clause's head annotation (none without annotation); resolution failure is an error", bad)
	}
	if f := c.MustFunc(rC14Flow, "engine", "engine.eval"); f != nil {
		bad, n := "", 0
		for _, p := range absPrograms() {
			e := newEngineFixMode(c, rC14Flow, p, 0, true)
			if e == nil {
				return
			}
			final, isErr, returned, err := e.runEval(f, 400000)
			if !runORD(c, rC14Flow, f.Name, f, err) {
				return
			}
			n++
			want := p.leastModel(1000)
			miss, extra := diffSets(final, want)
			switch {
			case bad != "":
			case !returned || isErr:
				bad = fmt.Sprintf("program %s over temporal facts: the loop did not return normally (returned=%v, error=%v)", p.name, returned, isErr)
			case len(miss) > 0 || len(extra) > 0:
				bad = fmt.Sprintf("program %s over temporal facts of one interval: the temporal store lacks %v and has %v beyond the least model (the temporal delta store must be renewed and consulted each round)", p.name, miss, extra)
			}
			for _, a := range e.tAdds {
				if !strings.HasSuffix(a, "@iv") && bad == "" {
					bad = "a derived temporal fact is stored as " + a + ", not with the interval it was derived with"
				}
			}
		}
		c.Check(bad == "", rC14Flow, f.Name, f.Decl.Pos(), fmt.Sprintf("%d abstract programs over temporal facts: every derived fact is stored with its own interval and the temporal store ends as the least model", n), bad)
	}
	strataInitialFactsRule(c, rC14Flow)
}

func c14Relations(c *core.Ctx, k *tkit) {
	f := c.MustFunc(rC14Rel, "builtin", "DecideTemporalPredicate")
	if f == nil {
		return
	}
	atomT := c.Prog.Named("ast", "Atom")
	if atomT == nil {
		c.Unres(rC14Rel, "ast.Atom", 0, "anchor-unresolved")
		return
	}
	in := ordabs.New(c.Prog)
	var ivA, ivB *ordabs.Rec
	markA := &ordabs.Rec{Fields: map[string]ordabs.Value{"m": "A"}, T: "ast.Constant"}
	markB := &ordabs.Rec{Fields: map[string]ordabs.Value{"m": "B"}, T: "ast.Constant"}
	in.Stubs["builtin.getIntervalValue"] = func(in *ordabs.Interp, _ ordabs.Value, args []ordabs.Value) ([]ordabs.Value, error) {
		r, _ := args[0].(*ordabs.Rec)
		if r != nil && r.Fields["m"] == "A" {
			return []ordabs.Value{ivA, nil}, nil
		}
		return []ordabs.Value{ivB, nil}, nil
	}
	in.Stubs["fmt.Errorf"] = func(in *ordabs.Interp, _ ordabs.Value, _ []ordabs.Value) ([]ordabs.Value, error) {
		return []ordabs.Value{ordabs.ErrVal{Tag: "err"}}, nil
	}
	type rel struct {
		sym string
		def string
		fn  func(s1, e1, s2, e2 int64) bool
	}
	rels := []rel{
		{":interval:before", "e1 < s2", func(s1, e1, s2, e2 int64) bool { return e1 < s2 }},
		{":interval:after", "s1 > e2", func(s1, e1, s2, e2 int64) bool { return s1 > e2 }},
		{":interval:meets", "e1 == s2", func(s1, e1, s2, e2 int64) bool { return e1 == s2 }},
		{":interval:overlaps", "s1 <= e2 && s2 <= e1", func(s1, e1, s2, e2 int64) bool { return s1 <= e2 && s2 <= e1 }},
		{":interval:during", "s1 >= s2 && e1 <= e2", func(s1, e1, s2, e2 int64) bool { return s1 >= s2 && e1 <= e2 }},
		{":interval:contains", "s2 >= s1 && e2 <= e1", func(s1, e1, s2, e2 int64) bool { return s2 >= s1 && e2 <= e1 }},
		{":interval:starts", "s1 == s2", func(s1, e1, s2, e2 int64) bool { return s1 == s2 }},
		{":interval:finishes", "e1 == e2", func(s1, e1, s2, e2 int64) bool { return e1 == e2 }},
		{":interval:equals", "s1 == s2 && e1 == e2", func(s1, e1, s2, e2 int64) bool { return s1 == s2 && e1 == e2 }},
	}
	subst := &ordabs.Obj{Name: "subst", Opaque: true}
	for _, r := range rels {
		az, _ := ordabs.ZeroOf(atomT)
		atom := az.(*ordabs.Rec)
		atom.Fields["Predicate"].(*ordabs.Rec).Fields["Symbol"] = r.sym
		atom.Fields["Predicate"].(*ordabs.Rec).Fields["Arity"] = int64(2)
		args := []ordabs.Value{markA, markB}
		atom.Fields["Args"] = &ordabs.Slice{Elems: &args}
		bad, n, ok := "", 0, true
		ordabs.Tuples(4, 4, func(v []int64) bool {
			ivA, ivB = k.tsiv(v[0], v[1]), k.tsiv(v[2], v[3])
			in.Reset()
			out, err := in.Call(f, nil, []ordabs.Value{atom, subst})
			if !runORD(c, rC14Rel, f.Name+":"+r.sym, f, err) {
				ok = false
				return false
			}
			n++
			if out[2] != nil {
				bad = "returned an error for " + r.sym + " (symbol not dispatched?)"
				return false
			}
			got, _ := out[0].(bool)
			if want := r.fn(v[0], v[1], v[2], v[3]); got != want {
				bad = fmt.Sprintf("T1=[%d,%d] T2=[%d,%d]: %s is %v, documented definition (%s) gives %v", v[0], v[1], v[2], v[3], r.sym, got, r.def, want)
				return false
			}
			return true
		})
		if ok {
			c.Check(bad == "", rC14Rel, f.Name+":"+r.sym, f.Decl.Pos(), fmt.Sprintf("equals %s on %d end-point assignments", r.def, n), bad)
		}
	}
}
