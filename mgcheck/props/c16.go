package props

import (
	"fmt"
	"sort"
	"strings"

	"mgcheck/core"
	"mgcheck/ordabs"
)

func init() { register("C16", checkC16) }

const (
	rC16Stack = "ORDABS.push-pop-inverse"
	rC16Roll  = "ORDABS.rejected-definition"
	rC16Load  = "ORDABS.load-and-pop"
	rC16Tee   = "ORDABS.teeing-layers"
)

func checkC16(c *core.Ctx) {
	c.Rule(rC16Stack, "pushSourceFragment followed by popSourceFragment, evaluated on an abstract interpreter state whose new fragment re-mentions an earlier predicate, restores every field that push changed (source list, fragment table, known predicates, both stores)", 1)
	c.Rule(rC16Roll, "Define, evaluated with stubbed parser, analysis and evaluation: when analysis or evaluation fails, every field of the interpreter (stores, source list, fragment table, known predicates, buffer) is what it was before the call, also when the failing step has already changed them; on success the buffer grows by the clause and the interactive fragment is the top of the stack exactly once", 5)
	c.Rule(rC16Load, "Load discards the interactive fragment and its buffer before it loads anything; Pop removes the interactive fragment first, otherwise the most recent fragment, and does nothing on an empty stack", 2)
	c.Rule(rC16Tee, "the layer a fragment writes to is fresh and sits on exactly the previous state: NewTeeingStore/NewTeeingTemporalStore stack an empty layer on the given base; TeeingTemporalStore writes every valid interval to its output layer only, refuses inverted intervals, and every read consults both layers", 4)
	c16Stack(c)
	c16Define(c)
	c16LoadPop(c)
	c16Tee(c)
	c16AnalysisNew(c)
}

type itpRig struct {
	c   *core.Ctx
	in  *ordabs.Interp
	k   *astKit
	obj *ordabs.Obj
	n   int
}

func (r *itpRig) store(name string) *ordabs.Obj {
	r.n++
	return &ordabs.Obj{Name: fmt.Sprintf("%s#%d", name, r.n), Opaque: true}
}

func newItpRig(c *core.Ctx, rule string) *itpRig {
	r := &itpRig{c: c, in: ordabs.New(c.Prog), k: &astKit{c: c, ok: true}}
	r.in.InstallErrorStubs()
	r.in.Stubs["fmt.Fprintf"] = func(in *ordabs.Interp, _ ordabs.Value, _ []ordabs.Value) ([]ordabs.Value, error) {
		return []ordabs.Value{int64(0), nil}, nil
	}
	r.in.Stubs["fmt.Fprintln"] = r.in.Stubs["fmt.Fprintf"]
	r.in.Stubs["factstore.NewTeeingStore"] = func(in *ordabs.Interp, _ ordabs.Value, args []ordabs.Value) ([]ordabs.Value, error) {
		return []ordabs.Value{&ordabs.Rec{Fields: map[string]ordabs.Value{"base": args[0], "Out": r.store("out")}, T: "factstore.TeeingStore"}}, nil
	}
	r.in.Stubs["factstore.NewTeeingTemporalStore"] = func(in *ordabs.Interp, _ ordabs.Value, args []ordabs.Value) ([]ordabs.Value, error) {
		return []ordabs.Value{&ordabs.Obj{Name: "tee-temporal", Fields: map[string]ordabs.Value{"base": args[0], "Out": r.store("tout")}, T: "factstore.TeeingTemporalStore"}}, nil
	}
	r.in.Stubs["interpreter.Interpreter.updateCombinedStore"] = func(in *ordabs.Interp, recv ordabs.Value, _ []ordabs.Value) ([]ordabs.Value, error) {
		o := recv.(*ordabs.Obj)
		o.Fields["store"] = &ordabs.Rec{Fields: map[string]ordabs.Value{"of": o.Fields["simpleStore"], "and": o.Fields["temporalStore"]}, T: "combined"}
		return nil, nil
	}
	st := r.k.zero("interpreter", "Interpreter")
	if !r.k.ok {
		c.Unres(rule, "interpreter.Interpreter", 0, "anchor-unresolved: cannot model the interpreter's state")
		return nil
	}
	st.Fields["out"] = &ordabs.Obj{Name: "out", Opaque: true}
	st.Fields["simpleStore"] = r.store("simple")
	st.Fields["temporalStore"] = r.store("temporal")
	st.Fields["sourceFragments"] = ordabs.NewMap()
	st.Fields["knownPredicates"] = ordabs.NewMap()
	r.obj = &ordabs.Obj{Name: "interpreter", Fields: st.Fields}
	r.in.Stubs["interpreter.Interpreter.updateCombinedStore"](r.in, r.obj, nil)
	return r
}

func (r *itpRig) decl(pred string) *ordabs.Rec {
	d := r.k.zero("ast", "Decl")
	d.Fields["DeclaredAtom"] = r.k.atom(pred, 1)
	return d
}

func (r *itpRig) know(preds ...string) {
	m := r.obj.Fields["knownPredicates"].(*ordabs.Map)
	for _, p := range preds {
		ps := predSym(p, 1)
		m.M[ordabs.KeyString(ps)], m.Keys[ordabs.KeyString(ps)] = r.decl(p), ps
	}
}

func (r *itpRig) programInfo(preds ...string) *ordabs.Obj {
	pi := r.k.zero("analysis", "ProgramInfo")
	decls := ordabs.NewMap()
	for _, p := range preds {
		ps := predSym(p, 1)
		d := r.decl(p)
		decls.M[ordabs.KeyString(ps)], decls.Keys[ordabs.KeyString(ps)] = &ordabs.Obj{Name: "decl", Fields: d.Fields, T: "ast.Decl"}, ps
	}
	pi.Fields["Decls"] = decls
	return &ordabs.Obj{Name: "programInfo", Fields: pi.Fields, T: "analysis.ProgramInfo"}
}

// snapshot renders the observable state.
func (r *itpRig) snapshot() string {
	f := r.obj.Fields
	var src []string
	if sl, _ := f["src"].(*ordabs.Slice); sl != nil {
		for _, x := range *sl.Elems {
			src = append(src, fmt.Sprint(x))
		}
	}
	keys := func(m *ordabs.Map) []string {
		var ks []string
		if m != nil {
			for _, v := range m.Keys {
				if rec, ok := v.(*ordabs.Rec); ok {
					ks = append(ks, fmt.Sprint(rec.Fields["Symbol"]))
				} else {
					ks = append(ks, fmt.Sprint(v))
				}
			}
		}
		sort.Strings(ks)
		return ks
	}
	frag, _ := f["sourceFragments"].(*ordabs.Map)
	known, _ := f["knownPredicates"].(*ordabs.Map)
	id := func(v ordabs.Value) string {
		switch x := v.(type) {
		case *ordabs.Obj:
			if x == nil {
				return "nil"
			}
			if b, ok := x.Fields["base"]; ok {
				return x.Name + "(" + idOf(b) + "+" + idOf(x.Fields["Out"]) + ")"
			}
			return x.Name
		case *ordabs.Rec:
			return "tee(" + idOf(x.Fields["base"]) + "+" + idOf(x.Fields["Out"]) + ")"
		}
		return fmt.Sprint(v)
	}
	// what every live fragment would restore when it is popped
	var cps []string
	if frag != nil {
		for k, v := range frag.M {
			fo, _ := v.(*ordabs.Obj)
			if fo == nil {
				continue
			}
			kc, _ := fo.Fields["knownCheckpoint"].(*ordabs.Map)
			cps = append(cps, fmt.Sprintf("%v:%v/%s/%s", frag.Keys[k], keys(kc), id(fo.Fields["simpleCheckpoint"]), id(fo.Fields["temporalCheckpoint"])))
		}
	}
	sort.Strings(cps)
	return fmt.Sprintf("src=%v fragments=%v known=%v simple=%s temporal=%s buffer=%q checkpoints=%v", src, keys(frag), keys(known), id(f["simpleStore"]), id(f["temporalStore"]), f["buffer"], cps)
}

func idOf(v ordabs.Value) string {
	switch x := v.(type) {
	case *ordabs.Obj:
		if x == nil {
			return "nil"
		}
		if b, ok := x.Fields["base"]; ok {
			return x.Name + "(" + idOf(b) + "+" + idOf(x.Fields["Out"]) + ")"
		}
		return x.Name
	case *ordabs.Rec:
		return "tee(" + idOf(x.Fields["base"]) + "+" + idOf(x.Fields["Out"]) + ")"
	}
	return fmt.Sprint(v)
}

func c16Stack(c *core.Ctx) {
	push := c.MustFunc(rC16Stack, "interpreter", "Interpreter.pushSourceFragment")
	pop := c.MustFunc(rC16Stack, "interpreter", "Interpreter.popSourceFragment")
	if push == nil || pop == nil {
		return
	}
	r := newItpRig(c, rC16Stack)
	if r == nil {
		return
	}
	// an earlier fragment a.mg declared p; the new fragment's program info mentions p again (as analysis does) and declares q
	r.know("p")
	if _, err := r.in.Call(push, r.obj, []ordabs.Value{"a.mg", (*ordabs.Slice)(nil), r.programInfo("p")}); !runORD(c, rC16Stack, push.Name, push, err) {
		return
	}
	before := r.snapshot()
	if _, err := r.in.Call(push, r.obj, []ordabs.Value{"b.mg", (*ordabs.Slice)(nil), r.programInfo("p", "q")}); !runORD(c, rC16Stack, push.Name, push, err) {
		return
	}
	mid := r.snapshot()
	if _, err := r.in.Call(pop, r.obj, nil); !runORD(c, rC16Stack, pop.Name, pop, err) {
		return
	}
	after := r.snapshot()
	bad := ""
	if mid == before {
		bad = "pushSourceFragment changed nothing"
	} else if after != before {
		bad = "state before push: " + before + " | after push and pop: " + after + " (pop must remove exactly what the most recent fragment contributed; predicates of earlier fragments stay known)"
	}
	c.Check(bad == "", rC16Stack, pop.Name, pop.Decl.Pos(), "push then pop is the identity on "+before, bad)
}

func c16Define(c *core.Ctx) {
	f := c.MustFunc(rC16Roll, "interpreter", "Interpreter.Define")
	push := c.MustFunc(rC16Roll, "interpreter", "Interpreter.pushSourceFragment")
	if f == nil || push == nil {
		return
	}
	for _, mode := range []string{"analysis-fails", "evaluation-fails", "succeeds", "analysis-fails/no-interactive-fragment", "evaluation-fails/no-interactive-fragment"} {
		withInteractive := !strings.Contains(mode, "no-interactive")
		fullMode := mode
		mode := strings.Split(mode, "/")[0]
		r := newItpRig(c, rC16Roll)
		if r == nil {
			return
		}
		r.in.Stubs["strings.NewReader"] = func(in *ordabs.Interp, _ ordabs.Value, args []ordabs.Value) ([]ordabs.Value, error) {
			return []ordabs.Value{&ordabs.Obj{Name: "reader", Opaque: true}}, nil
		}
		r.in.Stubs["parse.Unit"] = func(in *ordabs.Interp, _ ordabs.Value, _ []ordabs.Value) ([]ordabs.Value, error) {
			return []ordabs.Value{r.k.zero("parse", "SourceUnit"), nil}, nil
		}
		r.in.Stubs["analysis.AnalyzeOneUnit"] = func(in *ordabs.Interp, _ ordabs.Value, _ []ordabs.Value) ([]ordabs.Value, error) {
			if mode == "analysis-fails" {
				return []ordabs.Value{(*ordabs.Obj)(nil), ordabs.ErrVal{Tag: "analysis"}}, nil
			}
			return []ordabs.Value{r.programInfo("p", "r", "s"), nil}, nil
		}
		r.in.Stubs["interpreter.Interpreter.evalProgram"] = func(in *ordabs.Interp, recv ordabs.Value, _ []ordabs.Value) ([]ordabs.Value, error) {
			if mode == "evaluation-fails" {
				return []ordabs.Value{ordabs.ErrVal{Tag: "evaluation"}}, nil
			}
			return []ordabs.Value{nil}, nil
		}
		// state: a.mg loaded (p), then an interactive fragment defining r with buffer "r(7)."
		r.know("p")
		if _, err := r.in.Call(push, r.obj, []ordabs.Value{"a.mg", (*ordabs.Slice)(nil), r.programInfo("p")}); !runORD(c, rC16Roll, push.Name, push, err) {
			return
		}
		if withInteractive {
			if _, err := r.in.Call(push, r.obj, []ordabs.Value{"interactive-buffer", (*ordabs.Slice)(nil), r.programInfo("p", "r")}); !runORD(c, rC16Roll, push.Name, push, err) {
				return
			}
			r.obj.Fields["buffer"] = "r(7)."
		}
		before := r.snapshot()
		out, err := r.in.Call(f, r.obj, []ordabs.Value{"s(X) :- nosuch(X)."})
		if !runORD(c, rC16Roll, f.Name+":"+fullMode, f, err) {
			continue
		}
		after := r.snapshot()
		_, isErr := out[0].(ordabs.ErrVal)
		bad := ""
		switch mode {
		case "succeeds":
			if isErr {
				bad = "Define returned an error although every step succeeded"
			} else {
				src, _ := r.obj.Fields["src"].(*ordabs.Slice)
				n := 0
				for _, x := range *src.Elems {
					if x == ordabs.Value("interactive-buffer") {
						n++
					}
				}
				last := (*src.Elems)[len(*src.Elems)-1]
				if n != 1 || last != ordabs.Value("interactive-buffer") || r.obj.Fields["buffer"] != ordabs.Value("r(7).s(X) :- nosuch(X).") {
					bad = "after a successful definition: " + after + " (want the interactive fragment once, on top, and the buffer extended by the clause)"
				}
			}
		default:
			if !isErr {
				bad = "Define returned no error although " + mode
			} else if after != before {
				bad = "a definition rejected because " + mode + " changed the state: before " + before + " | after " + after
			}
		}
		c.Check(bad == "", rC16Roll, f.Name+":"+fullMode, f.Decl.Pos(), "state handled correctly when "+fullMode, bad)
	}
}

func c16LoadPop(c *core.Ctx) {
	load := c.MustFunc(rC16Load, "interpreter", "Interpreter.Load")
	pop := c.MustFunc(rC16Load, "interpreter", "Interpreter.Pop")
	push := c.MustFunc(rC16Load, "interpreter", "Interpreter.pushSourceFragment")
	if load == nil || pop == nil || push == nil {
		return
	}
	setup := func() *itpRig {
		r := newItpRig(c, rC16Load)
		if r == nil {
			return nil
		}
		r.in.Stubs["strings.Split"] = func(in *ordabs.Interp, _ ordabs.Value, args []ordabs.Value) ([]ordabs.Value, error) {
			var out []ordabs.Value
			for _, p := range strings.Split(args[0].(string), args[1].(string)) {
				out = append(out, p)
			}
			return []ordabs.Value{&ordabs.Slice{Elems: &out}}, nil
		}
		r.know("p")
		r.in.Call(push, r.obj, []ordabs.Value{"a.mg", (*ordabs.Slice)(nil), r.programInfo("p")})
		return r
	}
	// Load with interactive definitions present
	if r := setup(); r != nil {
		base := r.snapshot()
		r.in.Call(push, r.obj, []ordabs.Value{"interactive-buffer", (*ordabs.Slice)(nil), r.programInfo("p", "r")})
		r.obj.Fields["buffer"] = "r(7)."
		stateAtLoad := ""
		r.in.Stubs["interpreter.Interpreter.pushLoadedFragment"] = func(in *ordabs.Interp, _ ordabs.Value, _ []ordabs.Value) ([]ordabs.Value, error) {
			stateAtLoad = r.snapshot()
			return []ordabs.Value{nil}, nil
		}
		_, err := r.in.Call(load, r.obj, []ordabs.Value{""})
		if runORD(c, rC16Load, load.Name, load, err) {
			bad := ""
			if stateAtLoad == "" {
				bad = "Load did not reach pushLoadedFragment"
			} else if stateAtLoad != base {
				bad = "when the new fragment is pushed the state is " + stateAtLoad + ", want " + base + " (load pops the interactive fragment and clears its buffer; otherwise the discarded definitions come back with the next definition)"
			}
			c.Check(bad == "", rC16Load, load.Name, load.Decl.Pos(), "interactive fragment and buffer are gone before the load", bad)
		}
	}
	// Pop
	if r := setup(); r != nil {
		empty := newItpRig(c, rC16Load)
		s0 := empty.snapshot()
		_, err := empty.in.Call(pop, empty.obj, nil)
		bad := ""
		if !runORD(c, rC16Load, pop.Name, pop, err) {
			return
		}
		if empty.snapshot() != s0 {
			bad = "Pop on an empty stack changed the state"
		}
		base := r.snapshot()
		r.in.Call(push, r.obj, []ordabs.Value{"b.mg", (*ordabs.Slice)(nil), r.programInfo("p", "q")})
		withB := r.snapshot()
		r.in.Call(push, r.obj, []ordabs.Value{"interactive-buffer", (*ordabs.Slice)(nil), r.programInfo("p", "q", "r")})
		r.obj.Fields["buffer"] = "r(7)."
		if _, err := r.in.Call(pop, r.obj, nil); !runORD(c, rC16Load, pop.Name, pop, err) {
			return
		}
		if got := r.snapshot(); got != withB && bad == "" {
			bad = "first Pop (interactive definitions on top): state " + got + ", want " + withB
		}
		if _, err := r.in.Call(pop, r.obj, nil); !runORD(c, rC16Load, pop.Name, pop, err) {
			return
		}
		if got := r.snapshot(); got != base && bad == "" {
			bad = "second Pop: state " + got + ", want " + base
		}
		c.Check(bad == "", rC16Load, pop.Name, pop.Decl.Pos(), "pops the interactive fragment first, then the most recent fragment; no-op when empty", bad)
	}
}

func c16Tee(c *core.Ctx) {
	// NewTeeingStore is covered by the same evaluation as in C06
	k := &astKit{c: c, ok: true}
	ck := newConstKit(c, rC16Tee)
	tk := newTkit(c, rC16Tee)
	if !ck.ok || !tk.ok {
		return
	}
	if f := c.MustFunc(rC16Tee, "factstore", "NewTeeingStore"); f != nil {
		l := newLayerRig(c)
		n := 0
		l.in.Stubs["factstore.NewMultiIndexedArrayInMemoryStore"] = func(in *ordabs.Interp, _ ordabs.Value, _ []ordabs.Value) ([]ordabs.Value, error) {
			n++
			return []ordabs.Value{l.layer(fmt.Sprintf("fresh%d", n))}, nil
		}
		base := l.layer("base")
		o1, err := l.in.Call(f, nil, []ordabs.Value{base})
		if runORD(c, rC16Tee, f.Name, f, err) {
			t1 := o1[0].(*ordabs.Rec)
			o2, err := l.in.Call(f, nil, []ordabs.Value{t1})
			if runORD(c, rC16Tee, f.Name, f, err) {
				t2 := o2[0].(*ordabs.Rec)
				inner, _ := t2.Fields["base"].(*ordabs.Rec)
				ok := t1.Fields["base"] == ordabs.Value(base) && inner != nil && inner.Fields["Out"] == t1.Fields["Out"] && t2.Fields["Out"] != t1.Fields["Out"] && t2.Fields["Out"] != ordabs.Value(base)
				c.Check(ok, rC16Tee, f.Name, f.Decl.Pos(), "a fresh empty layer over exactly the given store, also over a teeing store whose own layer is still empty", "NewTeeingStore does not stack a new layer on the given store (e.g. it reuses an empty layer): facts of the next fragment are written into the previous layer and survive a pop")
			}
		}
	}
	if f := c.MustFunc(rC16Tee, "factstore", "NewTeeingTemporalStore"); f != nil {
		in := ordabs.New(c.Prog)
		fresh := &ordabs.Obj{Name: "fresh", Opaque: true}
		in.Stubs["factstore.NewTemporalStore"] = func(in *ordabs.Interp, _ ordabs.Value, _ []ordabs.Value) ([]ordabs.Value, error) {
			return []ordabs.Value{fresh}, nil
		}
		base := &ordabs.Obj{Name: "base", Opaque: true}
		out, err := in.Call(f, nil, []ordabs.Value{base})
		if runORD(c, rC16Tee, f.Name, f, err) {
			o, _ := out[0].(*ordabs.Obj)
			c.Check(o != nil && o.Fields["base"] == ordabs.Value(base) && o.Fields["Out"] == ordabs.Value(fresh), rC16Tee, f.Name, f.Decl.Pos(), "fresh temporal layer over the given base", "NewTeeingTemporalStore must keep the given store as base and write to a new empty temporal store")
		}
	}
	// TeeingTemporalStore.Add / reads
	add := c.MustFunc(rC16Tee, "factstore", "TeeingTemporalStore.Add")
	if add != nil {
		in := ordabs.New(c.Prog)
		in.InstallErrorStubs()
		in.InstallTimeStubs()
		base := &ordabs.Obj{Name: "base", Opaque: true}
		outl := &ordabs.Obj{Name: "out", Opaque: true}
		var log []string
		baseHas := false
		in.Stubs["factstore.TemporalFactStore.Add"] = func(in *ordabs.Interp, recv ordabs.Value, args []ordabs.Value) ([]ordabs.Value, error) {
			iv, _ := recInterval(tk, args[1])
			log = append(log, fmt.Sprintf("%s.Add(%s,[%d,%d])", recv.(*ordabs.Obj).Name, atomKey(args[0]), iv.s, iv.e))
			return []ordabs.Value{true, nil}, nil
		}
		for _, m := range []string{"ContainsAt", "GetFactsAt", "GetFactsDuring", "GetAllFacts"} {
			mm := m
			in.Stubs["factstore.ReadOnlyTemporalFactStore."+mm] = func(in *ordabs.Interp, recv ordabs.Value, args []ordabs.Value) ([]ordabs.Value, error) {
				log = append(log, recv.(*ordabs.Obj).Name+"."+mm)
				if mm == "ContainsAt" {
					return []ordabs.Value{baseHas && recv == ordabs.Value(base)}, nil
				}
				return []ordabs.Value{nil}, nil
			}
		}
		tee := &ordabs.Obj{Name: "tee", Fields: map[string]ordabs.Value{"base": base, "Out": outl}, T: "factstore.TeeingTemporalStore"}
		sr := &storeRig{c: c, k: k, ck: ck}
		a := sr.mkAtom("p", 1)
		bad := ""
		for _, bh := range []bool{false, true} {
			baseHas = bh
			log = nil
			out, err := in.Call(add, tee, []ordabs.Value{a, tk.tsiv(3, 8)})
			if !runORD(c, rC16Tee, add.Name, add, err) {
				return
			}
			writes := 0
			for _, l := range log {
				if l == "out.Add(p(1),[3,8])" {
					writes++
				}
				if strings.HasPrefix(l, "base.Add") && bad == "" {
					bad = "TeeingTemporalStore.Add wrote to its base layer"
				}
			}
			if (writes != 1 || out[1] != nil) && bad == "" {
				bad = fmt.Sprintf("Add(p(1),[3,8]) with the base holding p(1) at instant 3 = %v: %d writes to the output layer (calls: %v), want exactly one: a further interval of a known atom is a new temporal fact", bh, writes, log)
			}
		}
		log = nil
		out, err := in.Call(add, tee, []ordabs.Value{a, tk.tsiv(8, 3)})
		if runORD(c, rC16Tee, add.Name, add, err) {
			if _, isErr := out[1].(ordabs.ErrVal); (!isErr || len(log) != 0) && bad == "" {
				bad = "an inverted interval [8,3] must be refused with an error before anything is written"
			}
		}
		c.Check(bad == "", rC16Tee, add.Name, add.Decl.Pos(), "every valid interval goes to the output layer once; inverted intervals are refused", bad)
		// reads consult both layers
		bad = ""
		n := 0
		for _, m := range []string{"ContainsAt", "GetFactsAt", "GetFactsDuring", "GetAllFacts"} {
			rf := c.MustFunc(rC16Tee, "factstore", "TeeingTemporalStore."+m)
			if rf == nil {
				continue
			}
			baseHas = false
			log = nil
			cb := &ordabs.Stub{Name: "cb", Fn: func(in *ordabs.Interp, args []ordabs.Value) ([]ordabs.Value, error) { return []ordabs.Value{nil}, nil }}
			var args []ordabs.Value
			switch m {
			case "ContainsAt":
				args = []ordabs.Value{a, ordabs.TimeVal{NS: 5}}
			case "GetFactsAt":
				args = []ordabs.Value{a, ordabs.TimeVal{NS: 5}, cb}
			case "GetFactsDuring":
				args = []ordabs.Value{a, tk.tsiv(1, 2), cb}
			default:
				args = []ordabs.Value{a, cb}
			}
			if _, err := in.Call(rf, tee, args); !runORD(c, rC16Tee, rf.Name, rf, err) {
				continue
			}
			n++
			sort.Strings(log)
			if fmt.Sprint(log) != fmt.Sprintf("[base.%s out.%s]", m, m) && bad == "" {
				bad = fmt.Sprintf("TeeingTemporalStore.%s consulted %v, want both layers once", m, log)
			}
		}
		c.Check(bad == "" && n == 4, rC16Tee, "factstore.TeeingTemporalStore:reads", add.Decl.Pos(), "all four read operations consult the base and the output layer", bad)
	}
	teeTemporalCount(c, rC16Tee)
}

// teeTemporalCount: the layered temporal store counts the facts of both layers (the engine's total
// fact limit is compared with this count).
func teeTemporalCount(c *core.Ctx, rule string) {
	f := c.MustFunc(rule, "factstore", "TeeingTemporalStore.EstimateFactCount")
	if f == nil {
		return
	}
	in := ordabs.New(c.Prog)
	base := &ordabs.Obj{Name: "base", Opaque: true}
	outl := &ordabs.Obj{Name: "out", Opaque: true}
	for _, n := range []string{"factstore.TemporalFactStore", "factstore.ReadOnlyTemporalFactStore", "factstore.TemporalStore"} {
		in.Stubs[n+".EstimateFactCount"] = func(in *ordabs.Interp, recv ordabs.Value, _ []ordabs.Value) ([]ordabs.Value, error) {
			if recv == ordabs.Value(base) {
				return []ordabs.Value{int64(70)}, nil
			}
			return []ordabs.Value{int64(900)}, nil
		}
	}
	tee := &ordabs.Obj{Name: "tee", Fields: map[string]ordabs.Value{"base": base, "Out": outl}, T: "factstore.TeeingTemporalStore"}
	out, err := in.Call(f, tee, nil)
	if !runORD(c, rule, f.Name, f, err) {
		return
	}
	got, _ := out[0].(int64)
	c.Check(got == 970, rule, f.Name, f.Decl.Pos(), "base layer + output layer", fmt.Sprintf("the base layer holds 70 facts and the output layer 900: EstimateFactCount = %d, want 970 (a fact limit compared with the count of one layer never sees the facts derived into the other)", got))
}

const rC16Known = "ORDABS.known-predicates-not-written"

// c16AnalysisNew: the analyzer is built from the interpreter's table of known predicates; building it must not
// change that table (a user declaration overrides a synthetic one inside the analyzer only).
func c16AnalysisNew(c *core.Ctx) {
	c.Rule(rC16Known, "analysis.New, read from source and evaluated with a table of known predicates that contains a synthetic declaration and a user declaration overriding it: the caller's table has the same entries afterwards, and the analyzer does not see the overridden synthetic entry", 1)
	f := c.MustFunc(rC16Known, "analysis", "New")
	if f == nil {
		return
	}
	k := &astKit{c: c, ok: true}
	in := ordabs.New(c.Prog)
	in.Stubs["ast.Decl.IsSynthetic"] = func(in *ordabs.Interp, recv ordabs.Value, _ []ordabs.Value) ([]ordabs.Value, error) {
		r, _ := recv.(*ordabs.Rec)
		syn, _ := r.Fields["__synthetic"].(bool)
		return []ordabs.Value{syn}, nil
	}
	in.Stubs["ast.Decl.String"] = func(in *ordabs.Interp, _ ordabs.Value, _ []ordabs.Value) ([]ordabs.Value, error) {
		return []ordabs.Value{"<decl>"}, nil
	}
	in.Stubs["ast.PredicateSym.String"] = in.Stubs["ast.Decl.String"]
	mkDecl := func(p string, synthetic bool) *ordabs.Rec {
		d := k.zero("ast", "Decl")
		d.Fields["DeclaredAtom"] = k.atom(p, 1)
		d.Fields["__synthetic"] = synthetic
		return d
	}
	if !k.ok {
		c.Unres(rC16Known, f.Name, f.Decl.Pos(), "anchor-unresolved: ast.Decl")
		return
	}
	known := ordabs.NewMap()
	for _, p := range []string{"p", "q"} {
		ps := predSym(p, 1)
		known.M[ordabs.KeyString(ps)], known.Keys[ordabs.KeyString(ps)] = mkDecl(p, true), ps
	}
	decls := []ordabs.Value{mkDecl("p", false)}
	out, err := in.Call(f, nil, []ordabs.Value{known, &ordabs.Slice{Elems: &decls}, int64(0)})
	if !runORD(c, rC16Known, f.Name, f, err) {
		return
	}
	bad := ""
	if got := mapSyms(known); got != "p,q" {
		bad = fmt.Sprintf("after analysis.New the caller's table of known predicates holds {%s}, it held {p,q}: a later pop or a failed definition restores a table that has lost a live predicate", got)
	}
	if an, _ := out[0].(*ordabs.Obj); an != nil && bad == "" {
		if got := mapSyms(an.Fields["extraPredicates"]); got != "q" {
			bad = fmt.Sprintf("the analyzer's extra predicates are {%s}, want {q}: the synthetic declaration of p is overridden by the user's", got)
		}
	} else if bad == "" {
		bad = "analysis.New did not return an analyzer"
	}
	c.Check(bad == "", rC16Known, f.Name, f.Decl.Pos(), "the caller's table is unchanged; the override happens in the analyzer's own copy", bad)
}
