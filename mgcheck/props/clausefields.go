package props

import (
	"fmt"
	"go/ast"
	"go/types"
	"strings"

	"mgcheck/core"
)

// clauseFieldCompleteness: in each named function, every ast.Clause that is
// built and returned mentions each required field, either in the composite
// literal (keyed or positional) or by a later assignment to the same variable.
// ast.NewClause(head, premises) sets Head and Premises only.
func clauseFieldCompleteness(c *core.Ctx, rule string, funcs []string, required []string) {
	pos := map[string]int{"Head": 0, "HeadTime": 1, "Premises": 2, "Transform": 3}
	for _, fn := range funcs {
		i := strings.Index(fn, ".")
		f := c.MustFunc(rule, fn[:i], fn[i+1:])
		if f == nil {
			continue
		}
		info := f.Pkg.TypesInfo
		built := 0
		ast.Inspect(f.Decl.Body, func(n ast.Node) bool {
			var set map[string]bool
			var target types.Object
			var at ast.Node
			switch x := n.(type) {
			case *ast.AssignStmt:
				if len(x.Lhs) != 1 || len(x.Rhs) != 1 {
					return true
				}
				id, ok := x.Lhs[0].(*ast.Ident)
				if !ok {
					return true
				}
				set = clauseExprFields(info, x.Rhs[0], pos)
				if set == nil {
					return true
				}
				target = info.Defs[id]
				if target == nil {
					target = info.Uses[id]
				}
				at = x
			case *ast.ReturnStmt:
				if len(x.Results) != 1 {
					return true
				}
				set = clauseExprFields(info, x.Results[0], pos)
				if set == nil {
					return true
				}
				at = x
			default:
				return true
			}
			built++
			if target != nil {
				ast.Inspect(f.Decl.Body, func(m ast.Node) bool {
					as, ok := m.(*ast.AssignStmt)
					if !ok {
						return true
					}
					for _, l := range as.Lhs {
						if sel, ok := ast.Unparen(l).(*ast.SelectorExpr); ok {
							if id, ok := ast.Unparen(sel.X).(*ast.Ident); ok && info.Uses[id] == target {
								set[sel.Sel.Name] = true
							}
						}
					}
					return true
				})
			}
			for _, r := range required {
				cons := fmt.Sprintf("%s:%s", f.Name, r)
				if set[r] {
					c.OK(rule, cons, at.Pos(), "the rebuilt clause carries %s", r)
				} else {
					c.Bad(rule, cons, at.Pos(), "a clause is rebuilt here without its %s field (constructed with %s and never assigned): the new clause is a different rule", r, core.Src(c.Prog.Fset, at))
				}
			}
			return true
		})
		if built == 0 {
			// the function returns its argument unchanged or no longer builds clauses; nothing to forget
			c.OK(rule, f.Name+":no-rebuild", f.Decl.Pos(), "no clause is constructed in this function")
		}
	}
}

// clauseExprFields returns the set of Clause fields an expression sets, or nil if it does not build a clause.
func clauseExprFields(info *types.Info, e ast.Expr, pos map[string]int) map[string]bool {
	e = ast.Unparen(e)
	switch x := e.(type) {
	case *ast.CompositeLit:
		if core.TypeName(info.TypeOf(x)) != "ast.Clause" {
			return nil
		}
		set := map[string]bool{}
		for i, el := range x.Elts {
			if kv, ok := el.(*ast.KeyValueExpr); ok {
				set[kv.Key.(*ast.Ident).Name] = true
			} else {
				for name, p := range pos {
					if p == i {
						set[name] = true
					}
				}
			}
		}
		return set
	case *ast.CallExpr:
		switch core.CallName(info, x) {
		case "ast.NewClause":
			return map[string]bool{"Head": true, "Premises": true}
		case "ast.NewTemporalClause":
			return map[string]bool{"Head": true, "HeadTime": true, "Premises": true}
		}
	}
	return nil
}

// structRebuildCompleteness: every composite literal of the named struct type in
// the listed functions mentions every field of the struct (an explicit nil counts).
func structRebuildCompleteness(c *core.Ctx, rule, typeName string, funcs []string) {
	i := strings.Index(typeName, ".")
	named := c.Prog.Named(typeName[:i], typeName[i+1:])
	if named == nil {
		c.Unres(rule, typeName, 0, "anchor-unresolved: type %s", typeName)
		return
	}
	st, _ := named.Underlying().(*types.Struct)
	for _, fn := range funcs {
		j := strings.Index(fn, ".")
		f := c.MustFunc(rule, fn[:j], fn[j+1:])
		if f == nil {
			continue
		}
		info := f.Pkg.TypesInfo
		n := 0
		ast.Inspect(f.Decl.Body, func(m ast.Node) bool {
			cl, ok := m.(*ast.CompositeLit)
			if !ok || core.TypeName(info.TypeOf(cl)) != typeName {
				return true
			}
			n++
			set := map[string]bool{}
			positional := false
			for _, el := range cl.Elts {
				if kv, ok := el.(*ast.KeyValueExpr); ok {
					set[kv.Key.(*ast.Ident).Name] = true
				} else {
					positional = true
				}
			}
			var missing []string
			for k := 0; k < st.NumFields() && !positional; k++ {
				if !set[st.Field(k).Name()] {
					missing = append(missing, st.Field(k).Name())
				}
			}
			cons := fmt.Sprintf("%s:%s#%d", f.Name, typeName, n)
			if len(missing) == 0 {
				c.OK(rule, cons, cl.Pos(), "the rebuilt %s carries all of its fields", typeName)
			} else {
				c.Bad(rule, cons, cl.Pos(), "a %s is rebuilt here without %v: the copy silently loses that part of the literal", typeName, missing)
			}
			return true
		})
		if n == 0 {
			c.OK(rule, f.Name+":"+typeName+":none", f.Decl.Pos(), "no %s is constructed in this function", typeName)
		}
	}
}
