package props

import (
	"fmt"
	"sort"
	"strings"

	"mgcheck/core"
	"mgcheck/ordabs"
)

// unionFindLaws evaluates the substitution structure from source on small term lists.
func unionFindLaws(c *core.Ctx, rule string) {
	ext := c.MustFunc(rule, "unionfind", "UnifyTermsExtend")
	asl := c.MustFunc(rule, "unionfind", "UnionFind.AsConstSubstList")
	get := c.MustFunc(rule, "unionfind", "UnionFind.Get")
	ck := newConstKit(c, rule)
	if ext == nil || asl == nil || get == nil || !ck.ok {
		return
	}
	in := ordabs.New(c.Prog)
	in.InstallErrorStubs()
	v := func(n string) *ordabs.Rec {
		return &ordabs.Rec{Fields: map[string]ordabs.Value{"Symbol": n}, T: "ast.Variable"}
	}
	k := func(n int64) *ordabs.Rec { return ck.mk(ck.Number, n) }
	list := func(xs ...ordabs.Value) *ordabs.Slice { return &ordabs.Slice{Elems: &xs} }
	empty := func() *ordabs.Rec {
		return &ordabs.Rec{Fields: map[string]ordabs.Value{"parent": ordabs.NewMap()}, T: "unionfind.UnionFind"}
	}
	unify := func(base *ordabs.Rec, xs, ys *ordabs.Slice) (*ordabs.Rec, bool, error) {
		in.Reset()
		out, err := in.Call(ext, nil, []ordabs.Value{xs, ys, base})
		if err != nil {
			return nil, false, err
		}
		r, _ := out[0].(*ordabs.Rec)
		return r, out[1] == nil, nil
	}
	value := func(uf *ordabs.Rec, name string) (string, error) {
		in.Reset()
		out, err := in.Call(get, uf, []ordabs.Value{v(name)})
		if err != nil {
			return "", err
		}
		r, _ := out[0].(*ordabs.Rec)
		if r == nil {
			return "nil", nil
		}
		if r.T == "ast.Constant" {
			return fmt.Sprint(r.Fields["NumValue"]), nil
		}
		return fmt.Sprint(r.Fields["Symbol"]), nil
	}
	rows := func(uf *ordabs.Rec) (map[string]string, error) {
		in.Reset()
		out, err := in.Call(asl, uf, nil)
		if err != nil {
			return nil, err
		}
		res := map[string]string{}
		if sl, _ := out[0].(*ordabs.Slice); sl != nil {
			for _, p := range *sl.Elems {
				pr := p.(*ordabs.Rec)
				res[fmt.Sprint(pr.Fields["v"].(*ordabs.Rec).Fields["Symbol"])] = fmt.Sprint(pr.Fields["c"].(*ordabs.Rec).Fields["NumValue"])
			}
		}
		return res, nil
	}
	fail := func(err error) bool { return !runORD(c, rule, ext.Name, ext, err) }

	// 1. alias chain: X = Y, then Y = 7, then Z = X
	bad := ""
	u1, ok, err := unify(empty(), list(v("X")), list(v("Y")))
	if fail(err) {
		return
	}
	u2, ok2, err := unify(u1, list(v("Y")), list(k(7)))
	if fail(err) {
		return
	}
	u3, ok3, err := unify(u2, list(v("Z")), list(v("X")))
	if fail(err) {
		return
	}
	if !ok || !ok2 || !ok3 {
		bad = "unifying X=Y, Y=7, Z=X failed"
	} else {
		for _, name := range []string{"X", "Y", "Z"} {
			got, err := value(u3, name)
			if fail(err) {
				return
			}
			if got != "7" && bad == "" {
				bad = fmt.Sprintf("after X=Y, Y=7, Z=X the value of %s is %s, want 7", name, got)
			}
		}
		// a fresh structure with the same bindings, converted without any prior Get (no path compression has happened)
		w1, _, _ := unify(empty(), list(v("X")), list(v("Y")))
		w2, _, _ := unify(w1, list(v("Y")), list(k(7)))
		w3, _, err := unify(w2, list(v("Z")), list(v("X")))
		if fail(err) {
			return
		}
		// before Z=X is added, nothing has looked X up since Y was bound: X -> Y -> 7 is a genuine two-step chain
		rs2, err := rows(w2)
		if fail(err) {
			return
		}
		for _, name := range []string{"X", "Y"} {
			if rs2[name] != "7" && bad == "" {
				bad = fmt.Sprintf("AsConstSubstList after X=Y, Y=7 gives %v: %s must be bound to 7 (a variable bound only through an alias chain is missing from the row handed to transforms)", rs2, name)
			}
		}
		rs, err := rows(w3)
		if fail(err) {
			return
		}
		for _, name := range []string{"X", "Y", "Z"} {
			if rs[name] != "7" && bad == "" {
				bad = fmt.Sprintf("AsConstSubstList after X=Y, Y=7, Z=X gives %v: %s must be bound to 7 (a variable bound only through an alias chain is missing from the row handed to transforms)", rs, name)
			}
		}
	}
	c.Check(bad == "", rule, "unionfind:alias-chain", ext.Decl.Pos(), "X=Y, Y=7, Z=X binds all three to 7 in Get and in AsConstSubstList", bad)

	// 2. the base substitution is not modified (it is shared between sibling solutions)
	bad = ""
	base, _, err := unify(empty(), list(v("A")), list(k(1)))
	if fail(err) {
		return
	}
	before := len(base.Fields["parent"].(*ordabs.Map).M)
	_, _, err = unify(base, list(v("B"), v("C")), list(k(2), v("A")))
	if fail(err) {
		return
	}
	if after := len(base.Fields["parent"].(*ordabs.Map).M); after != before {
		bad = fmt.Sprintf("UnifyTermsExtend changed its base substitution (%d -> %d entries): sibling solutions of a join share the base", before, after)
	}
	if gv, _ := value(base, "B"); gv != "B" && bad == "" {
		bad = "B is bound in the base after extending a copy of it"
	}
	// a base that holds an uncompressed chain X -> Y -> 7: extending it must not even compress paths in the base
	// (sibling solutions, possibly on other goroutines, read it at the same time)
	if bad == "" {
		c1, _, _ := unify(empty(), list(v("X")), list(v("Y")))
		chain, _, err := unify(c1, list(v("Y")), list(k(7)))
		if fail(err) {
			return
		}
		snap := func(uf *ordabs.Rec) string {
			m := uf.Fields["parent"].(*ordabs.Map)
			var parts []string
			for ks, val := range m.M {
				parts = append(parts, ks+"=>"+ordabs.KeyString(val))
			}
			sort.Strings(parts)
			return strings.Join(parts, "; ")
		}
		before := snap(chain)
		_, _, err = unify(chain, list(v("X"), v("W")), list(k(7), v("X")))
		if fail(err) {
			return
		}
		if after := snap(chain); after != before {
			bad = fmt.Sprintf("UnifyTermsExtend wrote into its base substitution: {%s} became {%s} (path compression must happen in the copy)", before, after)
		}
	}
	c.Check(bad == "", rule, "unionfind:copy-before-write", ext.Decl.Pos(), "the base substitution is unchanged after UnifyTermsExtend", bad)

	// 2b. structured values are compared by structure, not by identity of their representation
	bad = ""
	tk := newTypeKit(c, rule)
	if tk.ok {
		mkPair := func(a, b int64) *ordabs.Rec { return tk.pair(tk.num(a), tk.num(b)) }
		mkList := func(xs ...int64) *ordabs.Rec {
			var rs []*ordabs.Rec
			for _, x := range xs {
				rs = append(rs, tk.num(x))
			}
			return tk.list(rs...)
		}
		for _, tcase := range []struct {
			name       string
			first, eq  *ordabs.Rec
			other      *ordabs.Rec
		}{
			{"pair", mkPair(1, 2), mkPair(1, 2), mkPair(1, 3)},
			{"list", mkList(1, 2), mkList(1, 2), mkList(2, 1)},
		} {
			u1, ok1, err := unify(empty(), list(v("X")), list(tcase.first))
			if fail(err) {
				return
			}
			_, okSame, err := unify(u1, list(v("X")), list(tcase.eq))
			if fail(err) {
				return
			}
			_, okOther, err := unify(u1, list(v("X")), list(tcase.other))
			if fail(err) {
				return
			}
			if (!ok1 || !okSame || okOther) && bad == "" {
				bad = fmt.Sprintf("X bound to a %s: unifying X with an equal %s built separately succeeds=%v (want true), with a different one succeeds=%v (want false): structured constants must be compared with Equals, not ==", tcase.name, tcase.name, okSame, okOther)
			}
		}
		c.Check(bad == "", rule, "unionfind:structured-values", ext.Decl.Pos(), "a variable bound to a pair or list unifies with an equal value built separately and not with a different one", bad)
	}

	// 3. conflicts and wildcards
	bad = ""
	_, okc, err := unify(base, list(v("A")), list(k(2)))
	if fail(err) {
		return
	}
	if okc {
		bad = "A is bound to 1, unifying it with 2 must fail"
	}
	_, okc, err = unify(base, list(v("A")), list(k(1)))
	if fail(err) {
		return
	}
	if !okc && bad == "" {
		bad = "A is bound to 1, unifying it with 1 must succeed"
	}
	uw, okw, err := unify(empty(), list(v("_"), v("_")), list(k(1), k(2)))
	if fail(err) {
		return
	}
	if !okw && bad == "" {
		bad = "two wildcards against different constants must unify"
	}
	if okw {
		if gv, _ := value(uw, "_"); gv != "_" && bad == "" {
			bad = "the wildcard became bound to " + gv
		}
	}
	_, okr, err := unify(empty(), list(v("X"), v("X")), list(k(1), k(2)))
	if fail(err) {
		return
	}
	if okr && bad == "" {
		bad = "p(X,X) against (1,2) must not unify"
	}
	c.Check(bad == "", rule, "unionfind:conflicts-and-wildcards", ext.Decl.Pos(), "conflicting constants fail, equal ones succeed, wildcards stay free, repeated variables must agree", bad)
}
