package props

import (
	"go/token"
	"fmt"
	"go/ast"
	"go/types"
	"sort"
	"strings"

	"mgcheck/core"
)

func init() { register("C18", checkC18) }

const (
	rC18Lock   = "ORD.lock-discipline"
	rC18Global = "EFFECT.global-write-inventory"
	rC18UF     = "ORDABS.shared-substitution-not-written"
	rC18Pool   = "ORD.pool-hygiene"
)

func checkC18(c *core.Ctx) {
	c.Rule(rC18Lock, "every method of ConcurrentFactStore takes the mutex exactly once before it touches the base store (write lock for Add, Remove, Merge; read or write lock for the readers), releases it on every exit, makes exactly one call of the base method of the same name while holding it and returns that call's result: each operation is atomic with respect to the others, so any history is linearizable relative to a sequentially correct base", 8)
	c.Rule(rC18Global, "no function other than init writes a package-level variable of the library, except under that package's mutex (writes through assignment, index/field stores, ++/--, delete, clear); and every read of a variable that is written after initialisation is dominated by Lock or RLock of a package mutex", 2)
	c.Rule(rC18Pool, "a pooled lexer/parser is not used after it was put back into its pool, and each parse call takes its own pair and installs a per-call error listener", 2)
	c18Locks(c)
	c18Globals(c)
	c18Pool(c)
	c.Rule(rC18UF, "the union-find substitution, evaluated from source: extending a substitution (UnifyTermsExtend) leaves the base it was given untouched - no entry added, none rewritten by path compression - because sibling solutions (and goroutines evaluating in parallel from one base) read it at the same time; the remaining laws of the structure are evaluated along with it", 4)
	unionFindLaws(c, rC18UF)
}

// lockWrappers summarises the methods of ConcurrentFactStore (other than the store operations) that take the
// store's mutex and return a function value: "W" for Lock, "R" for RLock. Keyed by resolved method name.
var lockWrapperCache = map[*core.Ctx]map[string]string{}

func lockWrappers(c *core.Ctx) map[string]string {
	if m, ok := lockWrapperCache[c]; ok {
		return m
	}
	m := map[string]string{}
	lockWrapperCache[c] = m
	for _, f := range c.Prog.AllFuncs("factstore") {
		if f.Decl.Recv == nil || f.Obj == nil || !strings.Contains(f.Name, "ConcurrentFactStore") {
			continue
		}
		sig := f.Obj.Type().(*types.Signature)
		if sig.Results().Len() != 1 {
			continue
		}
		if _, isFn := sig.Results().At(0).Type().Underlying().(*types.Signature); !isFn {
			continue
		}
		info := f.Pkg.TypesInfo
		kind, releases := "", false
		ast.Inspect(f.Decl.Body, func(n ast.Node) bool {
			sel, ok := n.(*ast.SelectorExpr)
			if !ok || core.FieldSel(info, sel.X) != "ConcurrentFactStore.mutex" {
				return true
			}
			switch sel.Sel.Name {
			case "Lock":
				kind = "W"
			case "RLock":
				if kind == "" {
					kind = "R"
				}
			case "Unlock", "RUnlock":
				releases = true
			}
			return true
		})
		if kind != "" && releases {
			m[core.ObjName(f.Obj)] = kind
		}
	}
	return m
}

func c18Locks(c *core.Ctx) {
	writers := map[string]bool{"Add": true, "Remove": true, "Merge": true}
	methods := []string{"Add", "Remove", "Contains", "GetFacts", "Merge", "ListPredicates", "EstimateFactCount"}
	for _, m := range methods {
		f := c.MustFunc(rC18Lock, "factstore", "ConcurrentFactStore."+m)
		if f == nil {
			continue
		}
		info := f.Pkg.TypesInfo
		g := c.Prog.CFGOf(f)
		isMutexCall := func(n ast.Node, names ...string) bool {
			found := false
			core.Walk(n, false, func(x ast.Node) bool {
				call, ok := x.(*ast.CallExpr)
				if !ok {
					return true
				}
				sel, ok := ast.Unparen(call.Fun).(*ast.SelectorExpr)
				if !ok || core.FieldSel(info, sel.X) != "ConcurrentFactStore.mutex" {
					return true
				}
				for _, nm := range names {
					if sel.Sel.Name == nm {
						found = true
					}
				}
				return true
			})
			return found
		}
		notDefer := func(n ast.Node) bool { _, d := n.(*ast.DeferStmt); return !d }
		// lock wrappers: a method of the store that takes the mutex and returns the function releasing it
		// (`defer s.writeLocked()()` or `unlock := s.writeLocked(); defer unlock()`); summarised from its body
		wrapperCall := func(n ast.Node, kind string) bool {
			found := false
			core.Walk(n, false, func(x ast.Node) bool {
				call, ok := x.(*ast.CallExpr)
				if !ok {
					return true
				}
				if fn, _ := core.Callee(info, call).(*types.Func); fn != nil && lockWrappers(c)[core.ObjName(fn)] == kind {
					found = true
				}
				return true
			})
			return found
		}
		deferOfWrapper := func(n ast.Node) bool {
			d, ok := n.(*ast.DeferStmt)
			if !ok {
				return false
			}
			inner, ok := ast.Unparen(d.Call.Fun).(*ast.CallExpr)
			return ok && (wrapperCall(inner, "W") || wrapperCall(inner, "R"))
		}
		deferOfUnlockVar := func(n ast.Node) bool {
			d, ok := n.(*ast.DeferStmt)
			if !ok {
				return false
			}
			id, ok := ast.Unparen(d.Call.Fun).(*ast.Ident)
			if !ok {
				return false
			}
			fromWrapper := false
			ast.Inspect(f.Decl.Body, func(m ast.Node) bool {
				as, ok := m.(*ast.AssignStmt)
				if !ok || len(as.Lhs) != 1 || len(as.Rhs) != 1 {
					return true
				}
				if l, ok := as.Lhs[0].(*ast.Ident); ok && info.ObjectOf(l) == info.ObjectOf(id) && (wrapperCall(as.Rhs[0], "W") || wrapperCall(as.Rhs[0], "R")) {
					fromWrapper = true
				}
				return true
			})
			return fromWrapper
		}
		acquireW := func(n ast.Node) bool {
			if d, ok := n.(*ast.DeferStmt); ok {
				inner, isCall := ast.Unparen(d.Call.Fun).(*ast.CallExpr)
				return isCall && wrapperCall(inner, "W")
			}
			return isMutexCall(n, "Lock") || wrapperCall(n, "W")
		}
		acquireR := func(n ast.Node) bool {
			if d, ok := n.(*ast.DeferStmt); ok {
				inner, isCall := ast.Unparen(d.Call.Fun).(*ast.CallExpr)
				return isCall && wrapperCall(inner, "R")
			}
			return isMutexCall(n, "RLock") || wrapperCall(n, "R")
		}
		acquire := func(n ast.Node) bool { return acquireW(n) || acquireR(n) }
		release := func(n ast.Node) bool { return notDefer(n) && isMutexCall(n, "Unlock", "RUnlock") }
		deferRelease := func(n ast.Node) bool {
			_, d := n.(*ast.DeferStmt)
			return d && (isMutexCall(n, "Unlock", "RUnlock") || deferOfWrapper(n) || deferOfUnlockVar(n))
		}
		usesBase := func(n ast.Node) bool { return core.MentionsField(info, n, true, "ConcurrentFactStore.base") }
		isRet := func(n ast.Node) bool { _, ok := n.(*ast.ReturnStmt); return ok }
		var problems []string
		// 1. base is never touched without the lock
		if hit, bad := g.Reach([]core.Ref{g.Entry()}, usesBase, acquire, true); bad {
			problems = append(problems, "the base store is used at "+c.Prog.Pos(hit.Node().Pos())+" on a path that has not taken the mutex")
		}
		if hit, bad := g.Reach(g.Find(release), usesBase, acquire, true); bad {
			problems = append(problems, "the base store is used at "+c.Prog.Pos(hit.Node().Pos())+" after the mutex was released")
		}
		// 2. one critical section
		acqs := g.Find(acquire)
		if len(acqs) == 0 {
			problems = append(problems, "the mutex is never taken")
		}
		if hit, bad := g.Reach(acqs, acquire, nil, false); bad {
			problems = append(problems, "the mutex is taken a second time at "+c.Prog.Pos(hit.Node().Pos())+": the operation is split into two critical sections and is no longer atomic")
		}
		// 3. writers hold the write lock
		if writers[m] && len(g.Find(acquireR)) > 0 {
			problems = append(problems, "a mutating operation takes only the read lock: two "+m+" calls (or a "+m+" and a reader) can run inside the base store at the same time")
		}
		// 4. released on every exit
		hasDefer := false
		for _, a := range acqs {
			if deferRelease(a.Node()) {
				hasDefer = true // `defer s.locked()()`: taken now, released by the same deferred call on every exit
				continue
			}
			// a deferred release directly guarded by the acquire: every path from the acquire reaches the defer before anything else leaves
			if _, bad := g.Reach([]core.Ref{a}, isRet, func(n ast.Node) bool { return deferRelease(n) || release(n) }, true); bad {
				problems = append(problems, "a return is reachable with the mutex still held")
			}
			if _, ok := g.Reach([]core.Ref{a}, deferRelease, nil, false); ok {
				hasDefer = true
			}
		}
		_ = hasDefer
		// 5. exactly one base call of the same name, and its result is what is returned
		var baseCalls []*ast.CallExpr
		var otherBase []string
		ast.Inspect(f.Decl.Body, func(n ast.Node) bool {
			call, ok := n.(*ast.CallExpr)
			if !ok {
				return true
			}
			sel, ok := ast.Unparen(call.Fun).(*ast.SelectorExpr)
			if !ok || core.FieldSel(info, sel.X) != "ConcurrentFactStore.base" {
				return true
			}
			if sel.Sel.Name == m {
				baseCalls = append(baseCalls, call)
			} else {
				otherBase = append(otherBase, sel.Sel.Name)
			}
			return true
		})
		if len(baseCalls) != 1 {
			problems = append(problems, fmt.Sprintf("%d calls of base.%s (want exactly one: the operation is the base operation under the lock)", len(baseCalls), m))
		}
		if len(otherBase) > 0 {
			problems = append(problems, fmt.Sprintf("additional base operations %v inside %s: a compound of several base operations needs its own argument for atomicity and result", otherBase, m))
		}
		if len(baseCalls) == 1 && f.Decl.Type.Results != nil {
			okRet := true
			for _, r := range g.Returns() {
				rs := r.Node().(*ast.ReturnStmt)
				if len(rs.Results) != 1 || ast.Unparen(rs.Results[0]) != ast.Expr(baseCalls[0]) {
					// allow `x := base.M(); return x`
					id, isId := ast.Unparen(rs.Results[0]).(*ast.Ident)
					if !isId || !identDefinedBy(f, info, id, baseCalls[0]) {
						okRet = false
					}
				}
			}
			if !okRet {
				problems = append(problems, "the method returns something other than the result of base."+m)
			}
		}
		c.Check(len(problems) == 0, rC18Lock, f.Name, f.Decl.Pos(), "one critical section around one base."+m+" call, result passed through", strings.Join(problems, "; "))
	}
	// the mutex is only used by these methods and the constructor creates a fresh one
	if f := c.MustFunc(rC18Lock, "factstore", "NewConcurrentFactStore"); f != nil {
		// the store's mutex field is a value, or the constructor allocates one (&sync.RWMutex{} / new(sync.RWMutex))
		fresh := false
		if n := c.Prog.Named("factstore", "ConcurrentFactStore"); n != nil {
			if st, ok := n.Underlying().(*types.Struct); ok {
				for i := 0; i < st.NumFields(); i++ {
					if st.Field(i).Name() == "mutex" {
						if _, isPtr := st.Field(i).Type().(*types.Pointer); !isPtr {
							fresh = true
						}
					}
				}
			}
		}
		info := f.Pkg.TypesInfo
		ast.Inspect(f.Decl.Body, func(n ast.Node) bool {
			switch x := n.(type) {
			case *ast.UnaryExpr:
				if cl, ok := x.X.(*ast.CompositeLit); ok && x.Op == token.AND && core.TypeName(info.TypeOf(cl)) == "sync.RWMutex" {
					fresh = true
				}
			case *ast.CallExpr:
				if id, ok := x.Fun.(*ast.Ident); ok && id.Name == "new" && len(x.Args) == 1 && core.TypeName(info.TypeOf(x.Args[0])) == "sync.RWMutex" {
					fresh = true
				}
			}
			return true
		})
		c.Check(fresh, rC18Lock, f.Name, f.Decl.Pos(), "each concurrent store has its own mutex", "NewConcurrentFactStore does not create a fresh sync.RWMutex for the new store")
	}
}

func identDefinedBy(f *core.Func, info *types.Info, id *ast.Ident, call *ast.CallExpr) bool {
	obj := info.Uses[id]
	found := false
	ast.Inspect(f.Decl.Body, func(n ast.Node) bool {
		as, ok := n.(*ast.AssignStmt)
		if !ok || len(as.Rhs) != 1 || ast.Unparen(as.Rhs[0]) != ast.Expr(call) {
			return true
		}
		if lid, ok := as.Lhs[0].(*ast.Ident); ok && (info.Defs[lid] == obj || info.Uses[lid] == obj) {
			found = true
		}
		return true
	})
	return found
}

// rootIdent returns the identifier at the root of an lvalue expression.
func rootIdent(e ast.Expr) *ast.Ident {
	for {
		switch x := ast.Unparen(e).(type) {
		case *ast.Ident:
			return x
		case *ast.IndexExpr:
			e = x.X
		case *ast.SelectorExpr:
			e = x.X
		case *ast.StarExpr:
			e = x.X
		case *ast.SliceExpr:
			e = x.X
		default:
			return nil
		}
	}
}

func c18Globals(c *core.Ctx) {
	type write struct {
		fn, v, pos string
		guarded   bool
	}
	var writes []write
	nfuncs := 0
	for _, rel := range c.Prog.RelPkgs() {
		if rel == "parse/gen" || strings.HasPrefix(rel, "cmd/") || rel == "examples" {
			continue
		}
		pkg := c.Prog.Pkg(rel)
		info := pkg.TypesInfo
		isGlobal := func(id *ast.Ident) (string, bool) {
			if id == nil {
				return "", false
			}
			v, ok := info.Uses[id].(*types.Var)
			if !ok || v.Pkg() == nil || v.Parent() != v.Pkg().Scope() {
				return "", false
			}
			return core.ObjName(v), true
		}
		for _, f := range c.Prog.AllFuncs(rel) {
			if f.Decl.Recv == nil && f.Decl.Name.Name == "init" {
				continue
			}
			nfuncs++
			var g *core.Graph
			guarded := func(n ast.Node) bool {
				// dominated by a Lock() call on some package-level mutex of this package
				if g == nil {
					g = c.Prog.CFGOf(f)
				}
				ref, ok := g.RefAt(n.Pos())
				if !ok {
					return false
				}
				locks := g.Find(func(m ast.Node) bool {
					if _, d := m.(*ast.DeferStmt); d {
						return false
					}
					found := false
					core.Walk(m, false, func(x ast.Node) bool {
						if call, ok := x.(*ast.CallExpr); ok {
							if sel, ok := ast.Unparen(call.Fun).(*ast.SelectorExpr); ok && sel.Sel.Name == "Lock" {
								if _, isG := isGlobal(rootIdent(sel.X)); isG {
									found = true
								}
							}
						}
						return true
					})
					return found
				})
				for _, l := range locks {
					if g.RefDominates(l, ref) {
						return true
					}
				}
				return false
			}
			ast.Inspect(f.Decl.Body, func(n ast.Node) bool {
				switch x := n.(type) {
				case *ast.AssignStmt:
					if x.Tok.String() == ":=" {
						return true
					}
					for _, l := range x.Lhs {
						if name, ok := isGlobal(rootIdent(l)); ok {
							writes = append(writes, write{f.Name, name, c.Prog.Pos(x.Pos()), guarded(x)})
						}
					}
				case *ast.IncDecStmt:
					if name, ok := isGlobal(rootIdent(x.X)); ok {
						writes = append(writes, write{f.Name, name, c.Prog.Pos(x.Pos()), guarded(x)})
					}
				case *ast.CallExpr:
					if id, ok := x.Fun.(*ast.Ident); ok && (id.Name == "delete" || id.Name == "clear") && len(x.Args) > 0 {
						if _, isB := info.Uses[id].(*types.Builtin); isB {
							if name, ok := isGlobal(rootIdent(x.Args[0])); ok {
								writes = append(writes, write{f.Name, name, c.Prog.Pos(x.Pos()), guarded(x)})
							}
						}
					}
				}
				return true
			})
		}
	}
	// reads: a variable that is written after initialisation (under the mutex) must be read under the mutex too
	mutable := map[string]bool{}
	for _, w := range writes {
		mutable[w.v] = true
	}
	var unguardedReads []string
	nreads := 0
	for _, rel := range c.Prog.RelPkgs() {
		if rel == "parse/gen" || strings.HasPrefix(rel, "cmd/") || rel == "examples" || len(mutable) == 0 {
			continue
		}
		pkg := c.Prog.Pkg(rel)
		info := pkg.TypesInfo
		for _, f := range c.Prog.AllFuncs(rel) {
			if f.Decl.Recv == nil && f.Decl.Name.Name == "init" {
				continue
			}
			var g *core.Graph
			lhs := map[*ast.Ident]bool{}
			ast.Inspect(f.Decl.Body, func(n ast.Node) bool {
				if as, ok := n.(*ast.AssignStmt); ok {
					for _, l := range as.Lhs {
						if id, ok := ast.Unparen(l).(*ast.Ident); ok {
							lhs[id] = true
						}
					}
				}
				return true
			})
			ast.Inspect(f.Decl.Body, func(n ast.Node) bool {
				id, ok := n.(*ast.Ident)
				if !ok || lhs[id] {
					return true
				}
				v, ok := info.Uses[id].(*types.Var)
				if !ok || v.Pkg() == nil || v.Parent() != v.Pkg().Scope() || !mutable[core.ObjName(v)] {
					return true
				}
				nreads++
				if g == nil {
					g = c.Prog.CFGOf(f)
				}
				ref, okr := g.RefAt(id.Pos())
				held := false
				if okr {
					for _, l := range g.Find(func(m ast.Node) bool {
						if _, d := m.(*ast.DeferStmt); d {
							return false
						}
						found := false
						core.Walk(m, false, func(x ast.Node) bool {
							if call, ok := x.(*ast.CallExpr); ok {
								if sel, ok := ast.Unparen(call.Fun).(*ast.SelectorExpr); ok && (sel.Sel.Name == "Lock" || sel.Sel.Name == "RLock") {
									if r := rootIdent(sel.X); r != nil {
										if gv, ok := info.Uses[r].(*types.Var); ok && gv.Pkg() != nil && gv.Parent() == gv.Pkg().Scope() {
											found = true
										}
									}
								}
							}
							return true
						})
						return found
					}) {
						if g.RefDominates(l, ref) {
							held = true
						}
					}
				}
				if !held {
					unguardedReads = append(unguardedReads, fmt.Sprintf("%s reads %s at %s without holding the package mutex", f.Name, core.ObjName(v), c.Prog.Pos(id.Pos())))
				}
				return true
			})
		}
	}
	sort.Strings(unguardedReads)
	c.Cover("reads_of_mutable_globals", nreads)
	c.Check(len(unguardedReads) == 0, rC18Global, "module:reads-of-mutable-package-variables", 0, fmt.Sprintf("%d reads of package-level variables that are written after initialisation, all under a package mutex", nreads), strings.Join(unguardedReads, "; ")+": the read races with the locked writer")
	sort.Slice(writes, func(i, j int) bool { return writes[i].pos < writes[j].pos })
	var bad []string
	ng := 0
	for _, w := range writes {
		if w.guarded {
			ng++
			continue
		}
		bad = append(bad, fmt.Sprintf("%s writes %s at %s without holding a package mutex", w.fn, w.v, w.pos))
	}
	c.Cover("global_writes_found", len(writes))
	c.Check(len(bad) == 0, rC18Global, "module:package-level-variables", 0, fmt.Sprintf("%d functions scanned; %d writes to package-level variables outside init, all under a package mutex", nfuncs, ng), strings.Join(bad, "; ")+": two goroutines that parse, analyse or evaluate unrelated programs would race on this variable")
}

func c18Pool(c *core.Ctx) {
	f := c.MustFunc(rC18Pool, "parse", "Parser.reset")
	if f != nil {
		info := f.Pkg.TypesInfo
		g := c.Prog.CFGOf(f)
		var problems []string
		for _, fld := range []string{"Parser.lexer", "Parser.parser"} {
			put := func(n ast.Node) bool {
				found := false
				core.Walk(n, false, func(x ast.Node) bool {
					if call, ok := x.(*ast.CallExpr); ok && core.CallName(info, call) == "sync.Pool.Put" && len(call.Args) == 1 && core.FieldSel(info, call.Args[0]) == fld {
						found = true
					}
					return true
				})
				return found
			}
			use := func(n ast.Node) bool {
				if as, ok := n.(*ast.AssignStmt); ok && len(as.Lhs) == 1 && core.FieldSel(info, as.Lhs[0]) == fld {
					return false // p.lexer = nil
				}
				return !put(n) && core.MentionsField(info, n, false, fld)
			}
			puts := g.Find(put)
			if len(puts) == 0 {
				problems = append(problems, fld+" is never returned to its pool")
				continue
			}
			if hit, bad := g.Reach(puts, use, nil, false); bad {
				problems = append(problems, fmt.Sprintf("%s is still used at %s after it was put back into the pool: another goroutine may already have taken it", fld, c.Prog.Pos(hit.Node().Pos())))
			}
		}
		c.Check(len(problems) == 0, rC18Pool, f.Name, f.Decl.Pos(), "listeners and input are cleared before the objects go back to their pools", strings.Join(problems, "; "))
	}
	// entry points pair newParser with a deferred reset
	pkg := c.Prog.Pkg("parse")
	n, badFns := 0, []string{}
	for _, fn := range c.Prog.AllFuncs("parse") {
		info := pkg.TypesInfo
		if !core.ContainsCall(info, fn.Decl.Body, false, "parse.newParser") {
			continue
		}
		n++
		g := c.Prog.CFGOf(fn)
		news := g.Find(func(m ast.Node) bool { return core.ContainsCall(info, m, false, "parse.newParser") })
		isRet := func(m ast.Node) bool { _, ok := m.(*ast.ReturnStmt); return ok }
		resets := func(m ast.Node) bool { return core.ContainsCall(info, m, false, "parse.Parser.reset") }
		// after a successful newParser, every path to a return passes a (deferred) reset; the error return right after newParser is allowed
		for _, nw := range news {
			hit, bad := g.Reach([]core.Ref{nw}, func(m ast.Node) bool {
				if !isRet(m) {
					return false
				}
				// the `if err != nil { return ..., err }` directly after newParser returns without a parser
				conds := g.PathConds(mustRef(g, m).B)
				for _, cd := range conds {
					if cd.True && strings.Contains(core.SrcFull(c.Prog.Fset, cd.Expr), "err != nil") {
						return false
					}
				}
				return true
			}, resets, true)
			if bad {
				badFns = append(badFns, fmt.Sprintf("%s (return at %s without p.reset())", fn.Name, c.Prog.Pos(hit.Node().Pos())))
			}
		}
	}
	// Not returning a lexer to the pool is a leak, not a race: reported, not required.
	c.Note("parse entry points calling newParser: %d; without p.reset() on some path: %v", n, badFns)
	if f := c.MustFunc(rC18Pool, "parse", "Parser.init"); f != nil {
		info := f.Pkg.TypesInfo
		src := core.SrcFull(c.Prog.Fset, f.Decl.Body)
		ok := core.ContainsCall(info, f.Decl.Body, false, "sync.Pool.Get") && strings.Contains(src, "p.lexer.AddErrorListener(p)") && strings.Contains(src, "p.parser.AddErrorListener(p)")
		c.Check(ok, rC18Pool, f.Name, f.Decl.Pos(), "each parse call takes its own lexer/parser from the pools and installs itself as their error listener", "Parser.init must take lexer and parser from the pools and register the per-call parser as their error listener")
	}
}

func mustRef(g *core.Graph, n ast.Node) core.Ref {
	r, _ := g.RefAt(n.Pos())
	return r
}
